"""Engine B (`symx`): strongest postcondition by generic execution of the real function, then nf / SMT.

A *law* is a contract clause over one or more real functions.  `build(shape, gen)` calls the REAL functions
(imported from VERIF_REPO) on inputs produced by `gen` and returns a Case:
   residuals : SymPy expressions that the clause says are zero
   assume    : SymPy relationals restricting the domain (from the property text)
   raises    : instead of residuals -- the exception class the clause says must be raised
With gen = GenericGen every input is a distinct fresh real symbol: the Case is then the clause's verification
condition over the function's symbolic summary, valid for ALL real values (loop-free harness over full-domain
symbolic inputs).  With gen = PointGen(point) the same code runs on concrete rationals: that is the replay.
"""
from __future__ import annotations

import os
import random
import time
import traceback
from pathlib import Path
from concurrent.futures import ProcessPoolExecutor
from dataclasses import dataclass, field
from typing import Any, Callable, Optional, Sequence

import sympy as sp
import z3

from .core import Ob, PROVED, REFUTED, UNKNOWN, FAULT, seed, die_with_parent
from .smt import prove as smt_prove, check_sat
from .sym2smt import Tr, Unsupported, nf_is_zero


@dataclass
class Case:
    residuals: Sequence = ()
    assume: Sequence = ()
    raises: Optional[type] = None
    thunk: Optional[Callable] = None  # for `raises`: the call expected to raise
    axioms: Optional[Callable] = None  # (Tr) -> list of z3 facts: instantiated axiom kit (assumed, listed)
    note: str = ""


class GenericGen:
    generic = True

    def __init__(self):
        self.names: list[str] = []
        self.assum: dict[str, dict] = {}

    def sym(self, name: str, **assumptions):
        if os.environ.get("VERIF_PLAIN_SYMBOLS") == "1" and not any(assumptions.get(k) for k in ("positive", "negative", "nonnegative", "integer")):
            assumptions.setdefault("real", None)   # experiment: plain symbols, as a user's symbols("x") gives
        assumptions.setdefault("real", True)
        self.names.append(name)
        self.assum[name] = dict(assumptions)
        return sp.Symbol(name, **assumptions)

    def syms(self, prefix: str, n: int, **assumptions):
        return [self.sym(f"{prefix}{i}", **assumptions) for i in range(n)]

    def var(self, name: str, **assumptions):
        """a variable that stays symbolic in the replay too (differentiation / integration variable)"""
        return self.sym(name, **assumptions)

    def fun(self, name: str, args):
        """a generic smooth function of `args`: an undefined SymPy function"""
        return sp.Function(name, real=True)(*args)


class PointGen:
    generic = False

    def __init__(self, point: dict[str, Any]):
        self.point = point

    def sym(self, name: str, **assumptions):
        return sp.sympify(self.point[name])

    def syms(self, prefix: str, n: int, **assumptions):
        return [self.sym(f"{prefix}{i}") for i in range(n)]

    def var(self, name: str, **assumptions):
        assumptions.setdefault("real", True)
        return sp.Symbol(name, **assumptions)

    def fun(self, name: str, args):
        """replay instance of a generic function: a fixed non-trivial smooth function chosen by name + point seed"""
        rng = random.Random(f"{name}|{self.point.get('__seed__', 0)}")
        a = list(args)
        e = sp.Integer(rng.randint(-3, 3))
        for i, x in enumerate(a):
            e += sp.Rational(rng.randint(-5, 5), rng.randint(1, 3)) * x + sp.Rational(rng.randint(-3, 3), 2) * x ** 2
            for y in a[i + 1:]:
                e += rng.randint(-3, 3) * x * y
        if a:
            e += rng.randint(1, 3) * sp.sin(a[0] + 2 * a[-1]) + sp.Rational(rng.randint(1, 3), 2) * a[0] * a[len(a) // 2] * a[-1]
        return e


@dataclass
class Law:
    name: str
    shapes: Sequence
    build: Callable
    functions: Sequence[str] = ()
    backend: str = "auto"  # auto | nf | z3
    timeout_s: float = 20.0
    # also execute the clause at DEGENERATE points (each group of generic inputs set to zero in turn): generic execution is
    # only as good as SymPy's automatic simplification of the generic expression, which cancels removable singularities
    # (|u| * (x / |u|) -> x) that the real code hits on concrete zero operands.  Bounded supplement, real counterexamples only.
    degenerate: bool = True


def _shape_str(shape) -> str:
    return str(shape).replace(" ", "")


def _numeric_point(names, rng, assume_check: Callable[[dict], bool], tries=200):
    for _ in range(tries):
        pt = {n: sp.Rational(rng.randint(-12, 12), rng.randint(1, 6)) for n in names}
        if assume_check(pt):
            return pt
    return None


def _holds(rel, tol=0) -> Optional[bool]:
    try:
        v = sp.simplify(rel)
        if v is sp.true:
            return True
        if v is sp.false:
            return False
    except Exception:
        pass
    return None


_LAST_GEN: list = [None]  # the generator of the shape being discharged (its input names survive a timeout of the real code)


def discharge(law: Law, shape, pid: str, replay_ref: str) -> Ob:
    """One obligation: the clause holds for every real value of the generic inputs, for this shape."""
    name = f"{pid}/{law.name}/shape{_shape_str(shape)}"
    t0 = time.time()
    deg0 = _DEG_COUNT[0]
    gen = GenericGen()
    _LAST_GEN[0] = gen
    try:
        case = law.build(shape, gen)
    except Exception as e:
        tb = traceback.extract_tb(e.__traceback__)
        inner = tb[-1].filename if tb else ""
        from .core import PKG as _PKG
        if inner.startswith(str(_PKG)) and not isinstance(e, (AssertionError, NotImplementedError)):  # NotImplementedError: an explicit "unsupported", not a wrong answer
            # the REAL code raised on generic inputs of a shape inside the clause's domain: the clause (which states a value) fails
            ob = Ob(name, REFUTED, "exec-generic", (time.time() - t0) * 1000,
                    f"the real code raised {type(e).__name__}: {e} (at {Path(inner).name}:{tb[-1].lineno}) on generic inputs of this shape, "
                    "where the clause states a value", _shape_str(shape))
            ob.replay = {"reproduced": True, "script": _replay_script(replay_ref, law.name, shape, "__raises__")}
            return ob
        return Ob(name, FAULT, "symx", (time.time() - t0) * 1000,
                  f"harness error on generic inputs: {type(e).__name__}: {e}\n{traceback.format_exc()[-600:]}")
    if case.raises is not None:
        rname = getattr(case.raises, "__name__", None) or "|".join(getattr(c, "__name__", str(c)) for c in case.raises)
        try:
            case.thunk()
        except case.raises as e:
            return Ob(name, PROVED, "exec-generic", (time.time() - t0) * 1000, f"raises {type(e).__name__}")
        except Exception as e:
            ob = Ob(name, REFUTED, "exec-generic", (time.time() - t0) * 1000,
                    f"expected {rname}, got {type(e).__name__}: {e}", _shape_str(shape))
            ob.replay = {"reproduced": True, "script": _replay_script(replay_ref, law.name, shape, None)}
            return ob
        ob = Ob(name, REFUTED, "exec-generic", (time.time() - t0) * 1000,
                f"expected {rname}, call returned normally", _shape_str(shape))
        ob.replay = {"reproduced": True, "script": _replay_script(replay_ref, law.name, shape, None)}
        return ob
    residuals = [sp.sympify(r) for r in case.residuals]
    verdict = None
    detail = ""
    backend = "nf"
    nan_res = [r for r in residuals if r.has(sp.S.NaN) or r in (sp.zoo, sp.oo, -sp.oo)]
    if nan_res:
        # the real functions returned NaN / an infinity on GENERIC inputs: the residual is not 0 for any value of the inputs
        verdict, backend = REFUTED, "exec-generic"
        detail = f"residual is {nan_res[0]} (not a finite number) for every value of the generic inputs"
    elif law.backend in ("auto", "nf") and not case.assume:
        try:
            vs = [nf_is_zero(r) for r in residuals]
        except Unsupported as u:
            vs = [None]
            detail = f"nf unsupported: {u}"
        if all(v is True for v in vs):
            verdict = PROVED
        elif any(v is False for v in vs):
            verdict = REFUTED
            detail = "numerator is a non-zero polynomial in the generic inputs"
    elif law.backend in ("auto", "nf"):
        # with domain assumptions nf can still *prove* (identically zero wherever defined), not refute
        try:
            if all(nf_is_zero(r) is True for r in residuals):
                verdict = PROVED
        except Unsupported:
            pass
    ms_nf = (time.time() - t0) * 1000
    model = None
    if verdict is None and law.backend in ("auto", "z3"):
        backend = "z3"
        try:
            tr = Tr()
            goals = [tr.tr(r) for r in residuals]
            hyps = [tr.trb(a) for a in case.assume]
            hyps += tr.facts()
            if case.axioms is not None:
                hyps += list(case.axioms(tr))
                hyps += tr.facts()
            hyps = list(dict.fromkeys(hyps))
            ob, model = smt_prove(name, hyps, z3.And([g == 0 for g in goals]) if goals else z3.BoolVal(True),
                                  timeout_s=law.timeout_s, signature=_shape_str(shape))
            ob.ms += ms_nf
            if ob.verdict == PROVED and law.degenerate:
                dg = _degenerate_ob(law, shape, gen, name, t0, replay_ref)
                if dg is not None:
                    return dg
                ob.detail = (ob.detail + " " if ob.detail else "") + f"degenerate-points-executed={_DEG_COUNT[0] - deg0}"
            if ob.verdict != REFUTED:
                return ob
            verdict, detail, backend = REFUTED, ob.detail, ob.backend
            detail += " | atoms: " + ", ".join(f"{k}={v}" for k, v in list(tr.atom_exprs.items())[:24])
        except Unsupported as u:
            return Ob(name, UNKNOWN, "z3", (time.time() - t0) * 1000, f"translation unsupported: {u}")
    ms = (time.time() - t0) * 1000
    if verdict == PROVED and law.degenerate:
        dg = _degenerate_ob(law, shape, gen, name, t0, replay_ref)
        if dg is not None:
            return dg
    if verdict == PROVED:
        return Ob(name, PROVED, backend, ms, f"degenerate-points-executed={_DEG_COUNT[0] - deg0}" if law.degenerate else "", _shape_str(shape))
    if verdict is None:
        return Ob(name, UNKNOWN, backend, ms, detail or "undecided", _shape_str(shape))
    # ---- refuted: look for a concrete failing input and replay it on the real code
    ob = Ob(name, REFUTED, backend, ms, detail, _shape_str(shape))
    rng = random.Random(seed() * 7919 + 17)
    pt = find_failing_point(law, shape, gen.names, rng, assum=gen.assum)
    if pt is not None:
        ob.replay = {"reproduced": True, "inputs": {k: str(v) for k, v in pt.items()},
                     "script": _replay_script(replay_ref, law.name, shape, pt)}
        ob.detail += f" | failing input: {ob.replay['inputs']}"
    else:
        ob.replay = {"reproduced": False, "script": None}
    return ob


def eval_case_at(law: Law, shape, pt) -> tuple[Optional[bool], list]:
    """Run the real functions at a concrete point; (assumptions hold?, residual values).
    pt["__symbolic__"]: the real functions run on SYMBOLS and the numbers are substituted into their results afterwards -- the only way
    to show a failure of code that behaves differently on symbols than on numbers (`x.is_nonzero` is None for a symbol)."""
    if pt.get("__symbolic__"):
        gen = GenericGen()
        case = law.build(shape, gen)
        byname = {n: v for n, v in pt.items() if not n.startswith("__")}

        def put(e):
            e = sp.sympify(e)
            return e.xreplace({s_: byname[s_.name] for s_ in e.free_symbols if s_.name in byname})
        case = Case([put(r) for r in case.residuals], [put(a) for a in case.assume], case.raises, case.thunk, case.axioms, case.note)
    else:
        case = law.build(shape, PointGen(pt))
    # coordinates / parameters that are not generator inputs (base scalars ...) get fixed seeded values too
    free = set()
    for r in list(case.residuals) + list(case.assume):
        free |= sp.sympify(r).free_symbols
    rng = random.Random(f"free|{pt.get('__seed__', 0)}")
    # signed values unless the symbol is declared positive / non-negative (domain assumptions of the clause filter the rest)
    sub = {}
    for s in sorted(free, key=str):
        v = sp.Rational(rng.randint(1, 9), rng.randint(2, 7))
        if not (s.is_positive or s.is_nonnegative) and rng.random() < 0.5:
            v = -v
        sub[s] = v
    for a in case.assume:
        h = _holds(a.subs(sub))
        if h is not True:
            return False, []
    vals = []
    for r in case.residuals:
        r = sp.sympify(r).subs(sub).doit()
        v = r if r.is_Rational else sp.N(r, 30)
        vals.append(v)
    return True, vals


_DEG_COUNT = [0]


def _degenerate_ob(law, shape, gen, name, t0, replay_ref):
    bad = degenerate_failure(law, shape, gen.names, gen.assum)
    if bad is None:
        return None
    pt, vals = bad
    ob = Ob(name, REFUTED, "exec-degenerate-point", (time.time() - t0) * 1000,
            f"holds for generic inputs, but at the degenerate input {({k: str(v) for k, v in pt.items()})} the real functions give residuals {vals}", _shape_str(shape))
    ob.replay = {"reproduced": True, "inputs": {k: str(v) for k, v in pt.items()}, "script": _replay_script(replay_ref, law.name, shape, pt)}
    return ob


def degenerate_failure(law: Law, shape, names, assum):
    """evaluate the clause with each group of generic inputs (same name stem) set to zero, the others at fixed non-zero values"""
    import re as _re
    groups: dict[str, list[str]] = {}
    for n in names:
        groups.setdefault(_re.sub(r"\d+$", "", n), []).append(n)
    rng = random.Random(seed() * 31 + 5)
    base = {n: sp.Rational(rng.randint(1, 9), rng.randint(1, 4)) * (-1) ** rng.randint(0, 1) for n in names}
    for n in names:
        a = (assum or {}).get(n, {})
        if a.get("positive") or a.get("nonnegative"):
            base[n] = abs(base[n])
        if a.get("negative"):
            base[n] = -abs(base[n])
        if a.get("integer"):
            base[n] = sp.Integer(int(base[n]) or 1)
    for stem, members in groups.items():
        if any((assum or {}).get(n, {}).get(k) for n in members for k in ("positive", "negative", "nonzero")):
            continue  # zero is outside this input's declared domain
        pt = dict(base)
        for n in members:
            pt[n] = sp.Integer(0)
        pt["__seed__"] = 1
        try:
            ok, vals = eval_case_at(law, shape, pt)
        except Exception:
            continue  # the real code refuses the degenerate input: not a value disagreement
        if not ok:
            continue
        _DEG_COUNT[0] += 1
        for v in vals:
            try:
                if v.is_number and not abs(complex(sp.N(v, 30))) <= 1e-12:
                    return pt, [str(x) for x in vals]
            except Exception:
                pass
    # fully CONCRETE signed points: code that branches on the sign / value of an operand (`x.is_negative`, `x < 0`) takes no such
    # branch on generic symbols; two fixed signed rational points per obligation exercise them (bounded supplement)
    for j in range(2):
        rng2 = random.Random(seed() * 131 + 17 * j + 3)
        pt = {}
        for n in names:
            a = (assum or {}).get(n, {})
            v = sp.Rational(rng2.randint(1, 9), rng2.randint(1, 4))
            if not (a.get("positive") or a.get("nonnegative")) and (a.get("negative") or rng2.random() < 0.6):
                v = -v
            if a.get("integer"):
                v = sp.Integer(int(v) or 1)
            pt[n] = v
        pt["__seed__"] = 2 + j
        try:
            ok, vals = eval_case_at(law, shape, pt)
        except Exception:
            continue
        if not ok:
            continue
        _DEG_COUNT[0] += 1
        for v in vals:
            try:
                if v.is_number and not abs(complex(sp.N(v, 30))) <= 1e-9 * max(1.0, max((abs(complex(sp.N(x, 30))) for x in pt.values() if hasattr(x, "is_number")), default=1.0)):
                    return pt, [str(x) for x in vals]
            except Exception:
                pass
    return None


def find_failing_point(law: Law, shape, names, rng, tries=60, assum=None, symbolic=True):
    assum = assum or {}
    for _ in range(tries):
        pt = {n: sp.Rational(rng.randint(-9, 9), rng.randint(1, 4)) for n in names}
        for n in names:
            a = assum.get(n, {})
            if a.get("positive"):
                pt[n] = abs(pt[n]) + sp.Rational(1, 3)
            elif a.get("nonnegative"):
                pt[n] = abs(pt[n])
            elif a.get("negative"):
                pt[n] = -abs(pt[n]) - sp.Rational(1, 3)
            if a.get("integer"):
                pt[n] = sp.Integer(int(pt[n]))
        pt["__seed__"] = rng.randint(0, 10 ** 6)
        try:
            ok, vals = eval_case_at(law, shape, pt)
        except Exception:
            continue
        if not ok:
            continue
        bad = False
        for v in vals:
            try:
                if v.is_number and not abs(complex(sp.N(v, 30))) <= 1e-12:  # NaN counts as failing
                    bad = True
            except Exception:
                pass
        if bad:
            return pt
    # nothing fails on numbers: run the real code on symbols and substitute afterwards
    for _ in range(12 if symbolic else 0):
        pt = {n: sp.Rational(rng.randint(-9, 9), rng.randint(1, 4)) for n in names}
        for n in names:
            a = assum.get(n, {})
            if a.get("positive"):
                pt[n] = abs(pt[n]) + sp.Rational(1, 3)
            elif a.get("nonnegative"):
                pt[n] = abs(pt[n])
            elif a.get("negative"):
                pt[n] = -abs(pt[n]) - sp.Rational(1, 3)
        pt["__seed__"] = rng.randint(0, 10 ** 6)
        pt["__symbolic__"] = 1
        try:
            ok, vals = eval_case_at(law, shape, pt)
        except Exception:
            continue
        if not ok:
            continue
        for v in vals:
            try:
                if v.is_number and not abs(complex(sp.N(v, 30))) <= 1e-12:
                    return pt
            except Exception:
                pass
    return None


def _replay_script(replay_ref: str, law_name: str, shape, pt) -> str:
    return (
        "import sys; sys.path.insert(0, %r)\n"
        "from vf.symx import replay_law\n"
        "replay_law(%r, %r, %r, %r)\n" % (str(os.path.dirname(os.path.dirname(os.path.abspath(__file__)))), replay_ref,
                                         law_name, shape,
                                         None if pt is None else pt if isinstance(pt, str) else {k: str(v) for k, v in pt.items()}))


def replay_law(replay_ref: str, law_name: str, shape, pt):
    """Executed by `check --replay`: run the real functions on the recorded input and assert the clause."""
    import importlib
    mod = importlib.import_module(replay_ref)
    law = next(l for l in mod.laws() if l.name == law_name)
    if pt == "__raises__":
        try:
            law.build(shape, GenericGen())
        except AssertionError:
            raise
        except Exception as e:
            raise AssertionError(f"{law_name} shape {shape}: the real code raised {type(e).__name__}: {e} on generic inputs where the clause states a value")
        print("the real code returns a value on generic inputs of this shape")
        return
    if pt is None:
        case = law.build(shape, GenericGen())
        try:
            case.thunk()
        except case.raises:
            print("raises as the contract says")
            return
        raise AssertionError(f"{law_name} shape {shape}: expected {getattr(case.raises, '__name__', case.raises)}")
    pt = {k: (int(v) if k.startswith("__") else sp.Rational(v)) for k, v in pt.items()}
    ok, vals = eval_case_at(law, shape, pt)
    print("inputs", pt)
    print("residuals", vals)
    assert ok, "recorded point violates the clause's own domain assumptions"
    for v in vals:
        assert abs(complex(sp.N(v, 30))) <= 1e-12, f"{law_name} shape {shape}: residual {v} != 0 at {pt}"


SHAPE_LIMIT_S = int(os.environ.get("VERIF_SHAPE_TIMEOUT", "420"))


class _ShapeTimeout(BaseException):
    pass


def _worker(args):
    """One shape of one law, under a wall-clock limit: the real code under contract may not terminate (a changed integrand that
    SymPy cannot integrate); that is reported as UNDECIDED for this shape (never a verdict) and the run goes on."""
    import signal

    def on_alarm(signum, frame):
        raise _ShapeTimeout()

    old = signal.signal(signal.SIGALRM, on_alarm)
    signal.setitimer(signal.ITIMER_REAL, SHAPE_LIMIT_S)
    try:
        return _worker_inner(args)
    except _ShapeTimeout:
        modname, law_name, shape, pid = args[:4]
        plain = len(args) > 4 and args[4]
        name = f"{pid}/{law_name}/shape{_shape_str(shape)}" + ("/plain-symbols" if plain else "")
        # symbolic execution did not finish.  The clause can still be REFUTED by a concrete input on which the real code does finish
        # and gives a non-zero residual (numbers instead of generic symbols); nothing else is concluded from a timeout.
        gen = _LAST_GEN[0]
        if gen is not None and gen.names and not plain:
            signal.setitimer(signal.ITIMER_REAL, max(60, SHAPE_LIMIT_S // 2))
            try:
                import importlib
                law = next(l for l in importlib.import_module(modname).laws() if l.name == law_name)
                pt = find_failing_point(law, shape, gen.names, random.Random(seed() * 7919 + 17), tries=4, assum=gen.assum, symbolic=False)
                if pt is not None:
                    ob = Ob(name, REFUTED, "exec-point", SHAPE_LIMIT_S * 1000.0,
                            f"generic execution did not finish within {SHAPE_LIMIT_S}s; at the concrete input "
                            f"{({k: str(v) for k, v in pt.items()})} the real functions finish and the clause fails", _shape_str(shape))
                    ob.replay = {"reproduced": True, "inputs": {k: str(v) for k, v in pt.items()},
                                 "script": _replay_script(modname, law_name, shape, pt)}
                    return ob
            except _ShapeTimeout:
                pass
            except Exception:  # noqa: BLE001
                pass
            finally:
                signal.setitimer(signal.ITIMER_REAL, 0)
        return Ob(name, UNKNOWN, "symx", SHAPE_LIMIT_S * 1000.0,
                  f"the real code / the discharge of this shape did not finish within {SHAPE_LIMIT_S}s: undecided (not a verdict)",
                  _shape_str(shape))
    finally:
        signal.setitimer(signal.ITIMER_REAL, 0)
        signal.signal(signal.SIGALRM, old)


def _worker_inner(args):
    modname, law_name, shape, pid = args[:4]
    plain = len(args) > 4 and args[4]
    import importlib
    mod = importlib.import_module(modname)
    law = next(l for l in mod.laws() if l.name == law_name)
    try:
        if not plain:
            return discharge(law, shape, pid, modname)
        # second pass with PLAIN symbols (no `real` assumption, what symbols("x") gives a user): SymPy simplifies differently there
        # (sqrt(x**2) stays a root instead of becoming |x|), and code that is only right for real-declared symbols shows up
        os.environ["VERIF_PLAIN_SYMBOLS"] = "1"
        try:
            ob = discharge(law, shape, pid, modname)
        finally:
            os.environ.pop("VERIF_PLAIN_SYMBOLS", None)
        ob.name += "/plain-symbols"
        if ob.verdict == REFUTED and not (ob.replay or {}).get("reproduced"):
            # the SMT translation reads every symbol as a real number: without a reproduced failing input this is not a verdict
            ob.verdict, ob.detail = UNKNOWN, "plain-symbol pass: refutation without a reproduced input (not a verdict) | " + ob.detail
        elif ob.verdict == REFUTED and ob.replay.get("script"):
            ob.replay["script"] = "import os; os.environ['VERIF_PLAIN_SYMBOLS'] = '1'\n" + ob.replay["script"]
        return ob
    except Exception as e:
        return Ob(f"{pid}/{law_name}/shape{_shape_str(shape)}" + ("/plain-symbols" if plain else ""), FAULT, "symx", 0.0,
                  f"{type(e).__name__}: {e}\n{traceback.format_exc()[-800:]}")


def run_laws(report, modname: str, laws: Sequence[Law], pid: str, jobs: Optional[int] = None, plain: Optional[str] = "thorough"):
    """plain: None | 'quick' | 'thorough' -- from which tier on every clause is discharged a second time on plain symbols"""
    tasks = [(modname, l.name, s, pid) for l in laws for s in l.shapes]
    tier = os.environ.get("VERIF_TIER", "quick")
    if plain == "quick" or (plain == "thorough" and tier == "thorough"):
        tasks += [(modname, l.name, s, pid, True) for l in laws for s in l.shapes]
        report.extra["plain_symbol_pass"] = "every clause discharged a second time on symbols without the `real` assumption"
    jobs = jobs or min(16, os.cpu_count() or 4)
    if len(tasks) < 8 or jobs <= 1:
        res = [_worker(t) for t in tasks]
    else:
        with ProcessPoolExecutor(max_workers=jobs, initializer=die_with_parent) as ex:
            res = list(ex.map(_worker, tasks, chunksize=max(1, len(tasks) // (jobs * 8))))
    report.extend(res)
    if any(l.degenerate for l in laws):
        import re as _re
        n = sum(int(m.group(1)) for o in res for m in [_re.search(r"degenerate-points-executed=(\d+)", o.detail or "")] if m)
        fails = [{"name": o.name, "detail": o.detail[:300]} for o in res if o.backend == "exec-degenerate-point"]
        report.add_bounded("degenerate-point executions of clauses proved on generic inputs (each group of inputs set to zero in turn): generic "
                           "execution inherits SymPy's automatic cancellation of removable singularities, concrete zero operands do not",
                           "one zero point per input group per obligation", n, not fails, [])
    return res
