"""SymPy -> z3 (reals) translation, and the polynomial normal-form back end `nf`.

Translation rules (DESIGN.md 3.B.4).  Everything not interpreted becomes an *opaque atom keyed by the SymPy
expression itself*: two syntactically equal sub-terms get the same real, different ones get unrelated reals.  That
only loses completeness, never soundness, for validity queries whose hypotheses hold of the real functions.
`I` (imaginary unit) is never translated: Unsupported is raised.
"""
from __future__ import annotations

import time
from fractions import Fraction
from typing import Callable, Iterable, Optional

import sympy as sp
import z3

from .core import Ob, PROVED, REFUTED, UNKNOWN, FAULT


class Unsupported(Exception):
    pass


class Tr:
    def __init__(self, atom_key: Optional[Callable] = None, float_exact: bool = True):
        self.atoms: dict = {}  # key -> z3 Real
        self.atom_exprs: dict = {}  # z3 name -> sympy expr
        self.side: list = []  # defining equations (roots, trig pairs, pi bounds) -- always true facts
        self.nonzero: list = []  # denominators: well-definedness conditions of the translated terms
        self.atom_key = atom_key or (lambda e: e)
        self._pi = None
        self._cache: dict = {}

    # ---------------------------------------------------------------- atoms
    def atom(self, e) -> z3.ArithRef:
        k = self.atom_key(e)
        if k not in self.atoms:
            nm = f"a{len(self.atoms)}"
            v = z3.Real(nm)
            self.atoms[k] = v
            self.atom_exprs[nm] = e
            # sign assumptions carried by SymPy symbols are *domain facts* of the contract
            if isinstance(e, sp.Symbol):
                if e.is_positive:
                    self.side.append(v > 0)
                elif e.is_nonnegative:
                    self.side.append(v >= 0)
                elif e.is_negative:
                    self.side.append(v < 0)
                elif e.is_nonpositive:
                    self.side.append(v <= 0)
                if e.is_nonzero and not e.is_positive and not e.is_negative:
                    self.side.append(v != 0)
        return self.atoms[k]

    def pi(self):
        if self._pi is None:
            self._pi = z3.Real("pi")
            self.side += [self._pi > z3.RealVal("3.14159265358979"), self._pi < z3.RealVal("3.14159265358980")]
        return self._pi

    # ---------------------------------------------------------------- numbers
    @staticmethod
    def num(e) -> z3.ArithRef:
        if e.is_Integer:
            return z3.RealVal(int(e))
        if e.is_Rational:
            return z3.Q(int(e.p), int(e.q))
        if e.is_Float:
            f = Fraction(str(e)) if "e" not in str(e).lower() else Fraction(float(e))
            # a Float denotes the printed decimal; use the shortest repr of the double
            f = Fraction(repr(float(e)))
            return z3.Q(f.numerator, f.denominator)
        raise Unsupported(f"number {e!r}")

    # ---------------------------------------------------------------- terms
    def tr(self, e) -> z3.ArithRef:
        e = sp.sympify(e)
        if e in self._cache:
            return self._cache[e]
        r = self._tr(e)
        self._cache[e] = r
        return r

    def _ipow(self, b, n: int):
        if n == 0:
            return z3.RealVal(1)
        if n < 0:
            self.nonzero.append(b != 0)
            return 1 / self._ipow(b, -n)
        r = b
        for _ in range(n - 1):
            r = r * b
        return r

    def _tr(self, e):
        if e.is_Number:
            if e in (sp.oo, -sp.oo, sp.nan, sp.zoo):
                raise Unsupported(f"non-finite {e}")
            return self.num(e)
        if e is sp.pi:
            return self.pi()
        if e is sp.E:
            return self.atom(sp.exp(1))
        if e is sp.I or e.has(sp.I):
            raise Unsupported("imaginary unit")
        if e.is_Symbol:
            return self.atom(e)
        if e.is_Add:
            args = [self.tr(a) for a in e.args]
            r = args[0]
            for a in args[1:]:
                r = r + a
            return r
        if e.is_Mul:
            args = [self.tr(a) for a in e.args]
            r = args[0]
            for a in args[1:]:
                r = r * a
            return r
        if e.is_Pow:
            b, x = e.args
            if x.is_Integer:
                if abs(int(x)) > 64:
                    return self.atom(e)
                return self._ipow(self.tr(b), int(x))
            if x.is_Rational:
                p, q = int(x.p), int(x.q)
                root = self.atom(sp.Pow(b, sp.Rational(1, q)))  # principal q-th root, real for b >= 0
                bb = self.tr(b)
                # defining equation only under b >= 0 (for b < 0 SymPy's principal root is complex: left opaque)
                self.side.append(z3.Implies(bb >= 0, z3.And(root >= 0, self._ipow(root, q) == bb)))
                return self._ipow(root, p)
            return self.atom(e)
        if isinstance(e, (sp.sin, sp.cos)):
            a = e.args[0]
            if a.is_Number or a.is_NumberSymbol or (a / sp.pi).is_Rational:
                v = sp.nsimplify(e.func(a))
                if v.is_Rational:
                    return self.num(v)
            s = self.atom(sp.sin(a))
            c = self.atom(sp.cos(a))
            key = ("trigpair", a)
            if key not in self._cache:
                self._cache[key] = True
                self.side.append(s * s + c * c == 1)
            return s if isinstance(e, sp.sin) else c
        if isinstance(e, sp.tan):
            a = e.args[0]
            s, c = self.tr(sp.sin(a)), self.tr(sp.cos(a))
            self.nonzero.append(c != 0)
            return s / c
        if isinstance(e, sp.cot):
            a = e.args[0]
            s, c = self.tr(sp.sin(a)), self.tr(sp.cos(a))
            self.nonzero.append(s != 0)
            return c / s
        if isinstance(e, sp.Abs):
            a = self.tr(e.args[0])
            return z3.If(a >= 0, a, -a)
        if isinstance(e, sp.sign):
            a = self.tr(e.args[0])
            return z3.If(a > 0, z3.RealVal(1), z3.If(a < 0, z3.RealVal(-1), z3.RealVal(0)))
        if isinstance(e, sp.Max):
            args = [self.tr(a) for a in e.args]
            r = args[0]
            for a in args[1:]:
                r = z3.If(a >= r, a, r)
            return r
        if isinstance(e, sp.Min):
            args = [self.tr(a) for a in e.args]
            r = args[0]
            for a in args[1:]:
                r = z3.If(a <= r, a, r)
            return r
        if isinstance(e, sp.Piecewise):
            # last branch without a true condition leaves the value opaque
            r = self.atom(sp.Symbol(f"__pw_undef_{len(self.atoms)}"))
            for val, cond in reversed(e.args):
                if cond is sp.true:
                    r = self.tr(val)
                else:
                    r = z3.If(self.trb(cond), self.tr(val), r)
            return r
        # everything else: opaque atom keyed by the expression (exp, log, Derivative, Subs, applied functions, ...)
        return self.atom(e)

    # ---------------------------------------------------------------- relations
    def trb(self, c) -> z3.BoolRef:
        if c is sp.true:
            return z3.BoolVal(True)
        if c is sp.false:
            return z3.BoolVal(False)
        if isinstance(c, sp.And):
            return z3.And([self.trb(a) for a in c.args])
        if isinstance(c, sp.Or):
            return z3.Or([self.trb(a) for a in c.args])
        if isinstance(c, sp.Not):
            return z3.Not(self.trb(c.args[0]))
        if isinstance(c, sp.core.relational.Relational):
            l, r = self.tr(c.lhs), self.tr(c.rhs)
            return {sp.Eq: l == r, sp.Ne: l != r, sp.Lt: l < r, sp.Le: l <= r, sp.Gt: l > r, sp.Ge: l >= r}[
                type(c) if type(c) in (sp.Eq, sp.Ne, sp.Lt, sp.Le, sp.Gt, sp.Ge) else
                {"==": sp.Eq, "!=": sp.Ne, "<": sp.Lt, "<=": sp.Le, ">": sp.Gt, ">=": sp.Ge}[c.rel_op]]
        raise Unsupported(f"condition {c!r}")

    def facts(self):
        return list(self.side) + list(self.nonzero)


# ======================================================================= nf back end
def _opaque_map(expr):
    """Replace every non-polynomial sub-term by a Dummy; return (poly_expr, relations, mapping).

    relations: polynomial identities that hold between the dummies (sin^2+cos^2-1, root^q-base)."""
    mapping: dict = {}
    relations: list = []

    def dummy(e):
        if e not in mapping:
            mapping[e] = sp.Dummy(f"o{len(mapping)}")
        return mapping[e]

    def walk(e):
        if e.is_Number:
            if e.is_Float:
                return sp.Rational(repr(float(e)))
            return e
        if e.is_Symbol:
            return e
        if e is sp.I or e.has(sp.I) and e.is_Atom:
            raise Unsupported("imaginary unit")
        if e.is_Add or e.is_Mul:
            return e.func(*[walk(a) for a in e.args])
        if e.is_Pow:
            b, x = e.args
            if x.is_Integer:
                return sp.Pow(walk(b), x)
            if x.is_Rational:
                wb = walk(b)
                # key the root on the EXPANDED radicand: sqrt(P) and sqrt(Q) with P == Q as polynomials are the same atom
                try:
                    b = sp.expand(b)
                except Exception:
                    pass
                root_key = sp.Pow(b, sp.Rational(1, x.q))
                fresh = root_key not in mapping
                r = dummy(root_key)
                if fresh:
                    relations.append((r ** int(x.q) - wb, r, 'root'))
                return r ** int(x.p)
            return dummy(e)
        if isinstance(e, (sp.sin, sp.cos)):
            a = e.args[0]
            fresh = sp.sin(a) not in mapping
            s, c = dummy(sp.sin(a)), dummy(sp.cos(a))
            if fresh:
                relations.append((s ** 2 + c ** 2 - 1, c, 'trig'))
            return s if isinstance(e, sp.sin) else c
        if isinstance(e, sp.tan):
            a = e.args[0]
            return walk(sp.sin(a)) / walk(sp.cos(a))
        if isinstance(e, sp.cot):
            a = e.args[0]
            return walk(sp.cos(a)) / walk(sp.sin(a))
        return dummy(e)

    return walk(sp.sympify(expr)), relations, mapping


def nf_is_zero(expr) -> Optional[bool]:
    """Decide `expr == 0` as an identity of rational functions over opaque atoms, modulo the stated relations
    (sin^2+cos^2=1 per angle, root^q=base per root).

    The relations form a triangular set, each monic in its own main variable (cos a, resp. the root), hence a
    Groebner basis; the numerator is reduced to its unique normal form by repeated polynomial remainder.
    True  : normal form 0  => identically zero wherever defined (sound).
    False : normal form non-zero, atoms generic (symbols / undefined functions / their derivatives) and only
            trigonometric relations (prime ideal) => NOT identically zero.
    None  : undecided."""
    p, rels, mapping = _opaque_map(expr)
    num, _den = sp.fraction(sp.together(p))
    num = sp.expand(num)
    if num == 0:
        return True
    generic = all(isinstance(k, (sp.Derivative, sp.Subs, sp.sin, sp.cos)) or isinstance(k, sp.core.function.AppliedUndef)
                  for k in mapping)
    trig_only = all(kind == 'trig' for _, _, kind in rels)
    mains = [(rel, main) for rel, main, _ in rels]
    for _round in range(8):
        before = num
        for rel, main in mains:
            if num.has(main):
                num = sp.expand(sp.rem(num, rel, main))
        if num == before:
            break
    if num == 0:
        return True
    if generic and trig_only:
        return False
    return None


def nf_prove(name: str, exprs: Iterable, signature: str = "") -> Ob:
    """Obligation: every expression in `exprs` is identically zero."""
    t0 = time.time()
    try:
        verdicts = [nf_is_zero(e) for e in exprs]
    except Unsupported as u:
        return Ob(name, UNKNOWN, "nf", (time.time() - t0) * 1000, f"unsupported: {u}", signature)
    ms = (time.time() - t0) * 1000
    if all(v is True for v in verdicts):
        return Ob(name, PROVED, "nf", ms, "", signature)
    if any(v is False for v in verdicts):
        return Ob(name, REFUTED, "nf", ms, "numerator is a non-zero polynomial in the generic atoms", signature)
    return Ob(name, UNKNOWN, "nf", ms, "non-zero remainder modulo relations", signature)


def counterexample_point(exprs, rng, tries=20):
    """For a refuted polynomial identity find a rational point where some expr != 0 (replay material)."""
    exprs = [sp.sympify(e) for e in exprs]
    syms = sorted(set().union(*[e.free_symbols for e in exprs]), key=str)
    for _ in range(tries):
        pt = {s: sp.Rational(rng.randint(-9, 9) or 1, rng.randint(1, 5)) for s in syms}
        try:
            vals = [sp.simplify(e.subs(pt)) for e in exprs]
        except Exception:
            continue
        if any(v != 0 and v.is_number for v in vals):
            return pt, vals
    return None, None
