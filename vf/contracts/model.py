"""Abstract data model shared by the pyvc sidecar contracts (DESIGN.md 3.A.1) and the ASSUMED library contracts.

Dim   9 reals (M, L, T, I, Theta, N, J, angle, any_dimension-name slot) + class flag `is AnyDimension instance`.
Val   extended number: kind in {FIN, PINF, NINF, NAN, SYMB}, re, im.   zoo / directed complex infinities excluded.
Expr  uninterpreted sort with kind / nargs / arg(i) / leaf attributes: the SymPy expression tree as the code sees it
      (through isinstance, .args, .base, .exp, .func, .scale_factor, .dimension).
Every function below that is not a plain definition is an ASSUMPTION about SymPy / the unit tables; each has a probe
in vf/contracts/audit.py evaluated against the real library on every run.
"""
from __future__ import annotations

from fractions import Fraction

import z3

from ..pyvc import Obj, Seq, Builtin, TypeRef, ExcVal, NONE, Opt, GenError

# ------------------------------------------------------------------------------------------------ sorts
NDIM = 9
DIM_NAMES = ["mass", "length", "time", "current", "temperature", "amount_of_substance", "luminous_intensity", "angle", "any_dimension"]
_D = z3.Datatype("Dim")
_D.declare("mk", *[(f"d{i}", z3.RealSort()) for i in range(NDIM)], ("anycls", z3.BoolSort()))
Dim = _D.create()

FIN, PINF, NINF, NAN, SYMB = 0, 1, 2, 3, 4
_V = z3.Datatype("Val")
_V.declare("mk", ("kind", z3.IntSort()), ("re", z3.RealSort()), ("im", z3.RealSort()))
Val = _V.create()

ExprS = z3.DeclareSort("Expr")
# expression kinds, in terms of the classes the repository's dispatch tables test for
K_QTY, K_PREFIX, K_MUL, K_POW, K_ADD, K_ABS, K_MIN, K_MAX, K_DERIV, K_FUNC, K_NUM, K_SYM, K_DIMSYM, K_OTHER = range(14)
# K_DIMSYM: a symplyphysics Symbol / IndexedSymbol (DimensionSymbol);  K_SYMBOLIC: a Symbolic wrapper (Average, FiniteDifference, ...) --
# it declares a dimension but is neither a Quantity nor a DimensionSymbol.  Used by the C06 dispatcher model only (kind(e) <= K_OTHER elsewhere).
K_SYMBOLIC = 14
KIND_NAMES = ["Quantity", "Prefix", "Mul", "Pow", "Add", "Abs", "Min", "Max", "Derivative", "Function", "Number", "Symbol", "DimSymbol", "Other"]
kind = z3.Function("kind", ExprS, z3.IntSort())
nargs = z3.Function("nargs", ExprS, z3.IntSort())
arg = z3.Function("arg", ExprS, z3.IntSort(), ExprS)
leaf_val = z3.Function("leaf_val", ExprS, Val)  # scale factor of a quantity / prefix, value of a number
leaf_dim = z3.Function("leaf_dim", ExprS, Dim)  # declared dimension of a quantity / dimension-carrying symbol or function
is_sym_quantity = z3.Function("is_sym_quantity", ExprS, z3.BoolSort())


# ------------------------------------------------------------------------------------------------ Dim
def dvec(d):
    return [Dim.accessor(0, i)(d) for i in range(NDIM)]


def d_anycls(d):
    return Dim.accessor(0, NDIM)(d)


def d_mk(vec, anycls=False):
    return Dim.mk(*[z3.RealVal(x) if isinstance(x, (int, Fraction)) else x for x in vec], z3.BoolVal(anycls) if isinstance(anycls, bool) else anycls)


DIMENSIONLESS = d_mk([0] * NDIM)
ANGLE = d_mk([0] * 7 + [1, 0])


def d_mul(a, b):
    return d_mk([x + y for x, y in zip(dvec(a), dvec(b))])


def d_div(a, b):
    return d_mk([x - y for x, y in zip(dvec(a), dvec(b))])


def d_pow(a, r):
    return d_mk([x * r for x in dvec(a)])


def d_erase_angle(a):
    """Dimension.subs("angle", 1) -- ASSUMED: zeroes the angle exponent, keeps class AnyDimension only if unchanged"""
    v = dvec(a)
    return Dim.mk(*(v[:7] + [z3.RealVal(0)] + v[8:]), d_anycls(a))


def d_equiv(a, b):
    """dimsys_SI.equivalent_dims -- ASSUMED: equality of dimensional dependencies"""
    return z3.And([x == y for x, y in zip(dvec(a), dvec(b))])


def d_is_dimensionless(a):
    """dimsys_SI.is_dimensionless -- ASSUMED: no dimensional dependencies at all (angle is an extra base dimension)"""
    return z3.And([x == 0 for x in dvec(a)])


def d_wf(a):
    """ASSUMED: a dimension object is the AnyDimension instance exactly when its dependencies are {any_dimension: 1}
    (the wildcard is only ever used as a declared dimension, never multiplied into another Dimension object)"""
    v = dvec(a)
    return d_anycls(a) == z3.And([x == 0 for x in v[:8]] + [v[8] == 1])


# ------------------------------------------------------------------------------------------------ Val
def v_kind(v):
    return Val.kind(v)


def v_mk(k, re=0, im=0):
    f = lambda x: z3.RealVal(x) if isinstance(x, (int, Fraction)) else x
    return Val.mk(z3.IntVal(k) if isinstance(k, int) else k, f(re), f(im))


def v_fin(re, im=0):
    return v_mk(FIN, re, im)


def v_wf(v):
    k = v_kind(v)
    return z3.And(k >= 0, k <= 4, z3.Implies(k != FIN, z3.And(Val.re(v) == 0, Val.im(v) == 0)))


def v_is_any(v):
    """is_any_dimension: zero, +-oo or NaN (after the fix of D3 a Float zero counts as zero)"""
    k = v_kind(v)
    return z3.Or(z3.And(k == FIN, Val.re(v) == 0, Val.im(v) == 0), k == PINF, k == NINF, k == NAN)


def v_is_number(v):
    """complex(x) succeeds -- ASSUMED: for every numeric value incl. +-oo and NaN; fails for expressions with free symbols"""
    return v_kind(v) != SYMB


def v_real(v):
    return z3.And(v_kind(v) == FIN, Val.im(v) == 0)


def _sign_inf(k, s):  # kind of (+-oo) * (real of sign s != 0)
    return z3.If(s > 0, k, z3.If(k == PINF, z3.IntVal(NINF), z3.IntVal(PINF)))


def v_mul(a, b):
    """SymPy Mul on numbers (extended reals + finite complex).  Products of an infinity with a non-real number are
    outside the stated domain (modelled as NaN)."""
    ka, kb = v_kind(a), v_kind(b)
    ra, ia, rb, ib = Val.re(a), Val.im(a), Val.re(b), Val.im(b)
    fin = v_mk(FIN, ra * rb - ia * ib, ra * ib + ia * rb)
    nan = v_mk(NAN)
    symb = v_mk(SYMB)
    a_zero = z3.And(ka == FIN, ra == 0, ia == 0)
    b_zero = z3.And(kb == FIN, rb == 0, ib == 0)
    a_inf = z3.Or(ka == PINF, ka == NINF)
    b_inf = z3.Or(kb == PINF, kb == NINF)
    return z3.If(z3.Or(ka == NAN, kb == NAN), nan,
           z3.If(z3.Or(ka == SYMB, kb == SYMB), z3.If(z3.Or(a_zero, b_zero), v_mk(FIN), symb),
           z3.If(z3.And(ka == FIN, kb == FIN), fin,
           z3.If(z3.Or(a_zero, b_zero), nan,
           z3.If(z3.And(a_inf, b_inf), v_mk(z3.If(ka == kb, z3.IntVal(PINF), z3.IntVal(NINF))),
           z3.If(a_inf, z3.If(ib != 0, nan, v_mk(_sign_inf(ka, rb))),
                 z3.If(ia != 0, nan, v_mk(_sign_inf(kb, ra)))))))))


def v_add(a, b):
    ka, kb = v_kind(a), v_kind(b)
    fin = v_mk(FIN, Val.re(a) + Val.re(b), Val.im(a) + Val.im(b))
    return z3.If(z3.Or(ka == NAN, kb == NAN), v_mk(NAN),
           z3.If(z3.Or(ka == SYMB, kb == SYMB), v_mk(SYMB),
           z3.If(z3.And(ka == FIN, kb == FIN), fin,
           z3.If(ka == FIN, b, z3.If(kb == FIN, a, z3.If(ka == kb, a, v_mk(NAN)))))))


v_pow = z3.Function("v_pow", Val, Val, Val)  # uninterpreted: the same term appears in code and spec
v_abs = z3.Function("v_abs", Val, Val)
v_min = z3.Function("v_min", Val, Val, Val)
v_max = z3.Function("v_max", Val, Val, Val)
v_apply = z3.Function("v_apply", z3.IntSort(), Val, Val)  # f(x) for the function symbol of an application


def v_div(a, b):
    """a / b for finite real non-zero b (the only use: ratio of scale factors)"""
    return v_mk(FIN, Val.re(a) / Val.re(b), Val.im(a) / Val.re(b))


# ------------------------------------------------------------------------------------------------ Expr helpers
def args_seq(e):
    return Seq(nargs(e), lambda i: arg(e, i), "args")


def expr_wf(e):
    return expr_wf_upto(e, K_OTHER)


def expr_wf_upto(e, last_kind):
    """structural facts SymPy guarantees: a Mul/Add/Min/Max has >= 2 args, Pow exactly 2, Abs 1, Function >= 1"""
    k = kind(e)
    return z3.And(k >= 0, k <= last_kind, nargs(e) >= 0,
                  z3.Implies(z3.Or(k == K_MUL, k == K_ADD, k == K_MIN, k == K_MAX), nargs(e) >= 2),
                  z3.Implies(k == K_POW, nargs(e) == 2), z3.Implies(k == K_ABS, nargs(e) == 1),
                  z3.Implies(k == K_FUNC, nargs(e) >= 1), z3.Implies(k == K_DERIV, nargs(e) >= 2),
                  z3.Implies(z3.Or(k == K_QTY, k == K_PREFIX, k == K_NUM), v_wf(leaf_val(e))),
                  z3.Implies(z3.Or(k == K_QTY, k == K_DIMSYM), d_wf(leaf_dim(e))),
                  z3.Implies(k == K_NUM, v_kind(leaf_val(e)) != SYMB),
                  is_sym_quantity(e) == (k == K_QTY))


# class facts, filled from real issubclass() calls at generation time (see frontend.class_facts)
def isinstance_expr(e, clsname, facts):
    """z3 Bool: isinstance(e, clsname) for an Expr term, from the kind tag and the real subclass relation"""
    kinds = facts.get(clsname)
    if kinds is None:
        raise GenError(f"isinstance(_, {clsname}): class not in the model")
    if not kinds:
        return z3.BoolVal(False)
    return z3.Or([kind(e) == k for k in kinds])


# ------------------------------------------------------------------------------------------------ abstract lists of Val
VList = z3.DeclareSort("ValList")
vl_nil = z3.Const("vl_nil", VList)
vl_app = z3.Function("vl_app", VList, Val, VList)
vl_len = z3.Function("vl_len", VList, z3.IntSort())
vl_sum = z3.Function("vl_sum", VList, Val)          # Add(*L)
vl_mm = z3.Function("vl_mm", z3.IntSort(), VList, Val)  # Min(*L) / Max(*L), first argument: K_MIN / K_MAX
vl_allany = z3.Function("vl_allany", VList, z3.BoolSort())
v_applyf = z3.Function("v_applyf", ExprS, VList, Val)   # expr.func(*L)


def vl_axioms_for_append(L, x):
    """instances of the defining equations of the list folds for L' = vl_app(L, x)  (definitions, not assumptions)"""
    L2 = vl_app(L, x)
    return [vl_len(L2) == vl_len(L) + 1, vl_len(L) >= 0,
            vl_allany(L2) == z3.And(vl_allany(L), v_is_any(x)),
            # ASSUMED (A-LIST): Add/Min/Max of values that are all 0, +-oo or NaN is itself 0, +-oo or NaN
            z3.Implies(vl_allany(L2), z3.And(v_is_any(vl_sum(L2)), v_is_any(vl_mm(K_MIN, L2)), v_is_any(vl_mm(K_MAX, L2)))),
            v_kind(vl_sum(L2)) != SYMB if False else z3.BoolVal(True)]


VL_NIL_FACTS = [vl_len(vl_nil) == 0, vl_allany(vl_nil)]
