"""Executable forms of the sidecar contracts (reference implementations written from the property statements) and a
small-scope search for an input on which the REAL function disagrees with its contract.

Used for (a) replays: a refuted obligation is turned into a concrete failing input by searching real expression trees
(the solver's countermodel is about abstract terms; the search finds a real tree exhibiting the same contract
violation), (b) the model audit / interpreter cross-check in the thorough tier (bounded stand-in, labelled).
"""
from __future__ import annotations

import itertools
import random
from fractions import Fraction

import sympy as sp
from sympy import S, oo, nan


class Refuse(Exception):
    pass


def _units():
    from sympy.physics import units
    return units


def dim_vec(d):
    """dimension -> dict base name -> exponent (angle kept), via the real dimension system"""
    from sympy.physics.units.systems.si import dimsys_SI
    deps = dimsys_SI.get_dimensional_dependencies(d)
    return {str(k.name) if hasattr(k, "name") else str(k): sp.nsimplify(v) for k, v in deps.items() if v != 0}


def dims_equiv(a, b, erase_angle=False):
    va, vb = dict(a), dict(b)
    if erase_angle:
        va.pop("angle", None)
        vb.pop("angle", None)
    keys = set(va) | set(vb)
    for k in keys:
        x, y = sp.sympify(va.get(k, 0)), sp.sympify(vb.get(k, 0))
        try:
            if abs(complex(sp.N(x - y))) > 1e-12:
                return False
        except Exception:
            if sp.simplify(x - y) != 0:
                return False
    return True


def is_any_value(v):
    v = sp.sympify(v)
    return v in (S.Infinity, S.NegativeInfinity, S.NaN) or v.is_zero is True


def is_numeric(v):
    try:
        complex(v)
        return True
    except (TypeError, ValueError):
        return False


# ------------------------------------------------------------------------------------------------ C05 reference
class OutOfDomain(Exception):
    pass


def ref_collect_quantity(e):
    v, d = _ref_collect_quantity(e)
    if sp.sympify(v).has(sp.zoo) or (sp.sympify(v).is_infinite and sp.sympify(v) not in (S.Infinity, S.NegativeInfinity)):
        raise OutOfDomain("zoo / directed infinity")
    return v, d


def _ref_collect_quantity(e):
    """(value, dimension-vector | None when the value is 0/oo/NaN) or raises Refuse -- structural recursion of C05"""
    from sympy.physics.units import Quantity as SymQuantity
    from sympy.physics.units.prefixes import Prefix
    from sympy.functions.elementary.miscellaneous import MinMaxBase
    e = sp.sympify(e)
    if isinstance(e, SymQuantity):
        return e.scale_factor, dim_vec(e.dimension)
    if isinstance(e, Prefix):
        return e.scale_factor, {}
    if isinstance(e, sp.Mul):
        val, dim = S.One, {}
        anyv = False
        for a in e.args:
            v, d = ref_collect_quantity(a)
            val = val * v
            for k, x in (d or {}).items():
                dim[k] = dim.get(k, 0) + x
        return val, {k: x for k, x in dim.items() if x != 0}
    if isinstance(e, sp.Pow):
        bv, bd = ref_collect_quantity(e.base)
        xv, xd = ref_collect_quantity(e.exp)
        if not is_any_value(xv) and xd:
            raise Refuse("dimensional exponent")
        return bv ** xv, {k: x * xv for k, x in (bd or {}).items() if x * xv != 0}
    if isinstance(e, (sp.Add, MinMaxBase)):
        vals, first = [], None
        for a in e.args:
            v, d = ref_collect_quantity(a)
            vals.append(v)
            if is_any_value(v):
                continue
            if first is None:
                first = d
            elif not dims_equiv(first, d):
                raise Refuse("inequivalent terms")
        return e.func(*vals), (first if first is not None else {})
    if isinstance(e, sp.Abs):
        v, d = ref_collect_quantity(e.args[0])
        return sp.Abs(v), d
    if isinstance(e, sp.Derivative):
        raise Refuse("derivative")
    if isinstance(e, sp.Function):
        vals = []
        for a in e.args:
            v, d = ref_collect_quantity(a)
            if not is_any_value(v) and d:
                raise Refuse("dimensional function argument")
            vals.append(v)
        return e.func(*vals), {}
    if not is_numeric(e):
        raise Refuse("free symbol")
    return e, {}


def check_collect_quantity(e):
    """None if the real collector agrees with the contract on e, else a description of the disagreement"""
    from symplyphysics.core.dimensions.collect_quantity import collect_quantity_factor_and_dimension as real
    # outside the stated domain: floating-point zero exponents (SymPy keeps length**0.0 as a non-empty dimensional dependency),
    # zoo, and products of an infinity with a non-real number
    for p in sp.sympify(e).atoms(sp.Pow):
        if p.exp.is_Float and p.exp.is_zero:
            return None
        # a unit or quantity raised to an INFINITE (or NaN) power has no dimension to speak of (length**oo); the statement's
        # "dimensional product of its parts" does not cover it (seed sweep, VERIF_SEED=11: kilogram/degree**oo)
        if (p.exp.is_infinite or p.exp is S.NaN) and not getattr(p.base, "is_number", False):
            return None
    if sp.sympify(e).has(sp.zoo):
        return None
    try:
        want = ref_collect_quantity(e)
    except Refuse as r:
        want = r
    except Exception:
        return None  # reference not applicable (outside the stated domain, e.g. zoo)
    try:
        got = real(e)
    except ValueError as x:
        got = x
    except Exception as x:
        return None if isinstance(want, Refuse) else f"real raised {type(x).__name__}: {x}"
    if isinstance(want, Refuse):
        if not isinstance(got, Exception):
            return f"contract refuses ({want}) but real returned {got}"
        from symplyphysics import Quantity
        try:
            q = Quantity(e)
        except Exception:
            return None
        return f"contract refuses ({want}) but Quantity(...) was built with scale {q.scale_factor}"
    if isinstance(got, Exception):
        return f"contract accepts with {want} but real raised {got}"
    gv, gd = got
    wv, wd = want
    try:
        if sp.simplify(gv - wv) != 0 and not (gv is S.NaN and wv is S.NaN) and gv != wv:
            return f"value {gv} != {wv}"
    except Exception:
        pass
    if not is_any_value(wv) and not dims_equiv(dim_vec(gd), wd):
        return f"dimension {dim_vec(gd)} != {wd}"
    return _check_quantity_ctor(e, wv, wd)


def _check_quantity_ctor(e, wv, wd):
    """the constructor itself: Quantity(e) has the contract's scale factor and dimension (it must go through the collector for EVERY
    expression, also one without any unit atom such as kilo*5)"""
    from symplyphysics import Quantity
    try:
        complex(wv)
    except Exception:
        return None  # symbolic value: the constructor refuses by its own numeric check
    try:
        q = Quantity(e)
    except Exception as x:
        return f"contract accepts with {wv, wd} but Quantity(...) raised {type(x).__name__}: {x}"
    try:
        if sp.simplify(q.scale_factor - wv) != 0 and not (q.scale_factor is S.NaN and wv is S.NaN) and q.scale_factor != wv:
            return f"Quantity(...).scale_factor {q.scale_factor} != {wv}"
    except Exception:
        pass
    if not is_any_value(wv) and not dims_equiv(dim_vec(q.dimension), wd):
        return f"Quantity(...).dimension {dim_vec(q.dimension)} != {wd}"
    return None


def leaves_quantity():
    u = _units()
    from symplyphysics import Quantity
    x = sp.Symbol("x")
    f = sp.Function("f")
    return [S.Zero, S.One, sp.Integer(2), sp.Integer(-1), sp.Rational(1, 2), sp.Float(0.0), sp.Float(2.5), oo, -oo, nan, sp.pi,
            u.meter, u.centimeter, u.second, u.kilogram, u.radian, u.kilo, Quantity(0), Quantity(2 * u.meter), Quantity(-2 * u.meter),
            Quantity(5 * u.second), x, sp.Derivative(f(x), x), u.hertz * u.second, u.joule / (u.newton * u.meter), u.degree]


def _tree_ops(a, b):
    """constructors applied to operands a, b (most stay unevaluated when an operand is a quantity / symbol).
    Number-only operands are always combined by SymPy's evaluating constructors: an unevaluated node over plain numbers
    (Add(2, 2, oo, evaluate=False)) is not an input the library is ever given."""
    ev = bool(getattr(a, "is_number", False) and getattr(b, "is_number", False))
    # an explicit infinite / NaN literal inside an UNEVALUATED sum next to quantities (Add(oo, 3*s, 3*s, evaluate=False)) is not
    # generated: is_number() classifies such a node through complex(), which succeeds only because of the infinity -- observed
    # (DESIGN.md 10.3, "observed, outside the properties as stated"), not an input the library is given
    nonfinite = lambda v: getattr(v, "is_number", False) and (v.has(oo) or v.has(-oo) or v.has(nan) or v.has(sp.zoo))
    if not ev and (nonfinite(a) or nonfinite(b)):
        ev = True
    return _tree_ops_(a, b, ev)


def _special(f, a, b):
    """special functions of two arguments are built on finite arguments only: besselj(-oo, 1) is not a value SymPy / mpmath can
    evaluate (mpmath raises an empty ValueError from inside complex()), which says nothing about the collectors (seed sweep,
    VERIF_SEED=10)"""
    for v in (a, b):
        v = sp.sympify(v)
        if v.has(oo) or v.has(-oo) or v.has(nan) or v.has(sp.zoo):
            raise ValueError("non-finite argument of a special function")
    return f(a, b)


def _tree_ops_(a, b, ev):
    return (lambda: sp.Add(a, b), lambda: sp.Mul(a, b), lambda: sp.Pow(a, b), lambda: sp.Min(a, b), lambda: sp.Max(a, b),
            lambda: sp.Abs(a), lambda: sp.sin(a), lambda: sp.Add(a, b, -a), lambda: sp.Add(a, -a, b), lambda: sp.exp(a),
            # functions of several arguments (a dimensional argument in a non-final position), and three-term sums / extrema
            lambda: _special(sp.atan2, a, b), lambda: _special(sp.besselj, a, b), lambda: sp.Add(a, b, b, evaluate=ev), lambda: sp.Max(a, b, -b),
            lambda: sp.Add(b, a, a, evaluate=ev), lambda: sp.log(a, b))


def trees(leaves, depth, rng, budget):
    """Expression trees over the leaves, at most `budget`, in a deterministic (seeded) order that INTERLEAVES the depths: the leaves,
    then alternately a depth-1 tree (operator over two leaves) and a depth-2 tree (operator over a depth-1 tree and a leaf, in
    either position), so that nested shapes are reached within a small budget.  depth <= 2."""
    leaves = list(leaves)
    yield from leaves
    count = len(leaves)
    if count >= budget:
        return
    level1 = []
    for a, b in itertools.product(leaves, leaves):
        for k, mk in enumerate(_tree_ops(a, b)):
            level1.append((a, b, k))
    rng.shuffle(level1)
    built1 = []

    def build(a, b, k):
        try:
            return _tree_ops(a, b)[k]()
        except Exception:
            return None
    i = 0
    nops = len(_tree_ops(S.One, S.One))
    while count < budget and i < len(level1):
        t = build(*level1[i])
        i += 1
        if t is None:
            continue
        built1.append(t)
        yield t
        count += 1
        if depth >= 2 and count < budget and built1:
            inner = built1[rng.randrange(len(built1))]
            leaf = leaves[rng.randrange(len(leaves))]
            k = rng.randrange(nops)
            a, b = (inner, leaf) if rng.random() < 0.5 else (leaf, inner)
            t2 = build(a, b, k)
            if t2 is not None:
                yield t2
                count += 1


def check_recalibrated_unit():
    """Sequence scenario: the value of a unit is whatever the SI registry says WHEN the quantity is built.  A unit is collected,
    then given another scale, then (a second unit object of the same name) another dimension; after each step the contract is
    checked on expressions of that unit.  None, or the first disagreement."""
    from sympy.physics.units import Quantity as SymQuantity, meter, second, length, time
    from sympy.physics.units.systems.si import SI
    u = SymQuantity("vf_span")
    steps = [(u, length, 2 * meter, [3 * u, u**2, u + meter]),
             (u, length, 5 * meter, [3 * u, u**2, u + meter]),
             (SymQuantity("vf_span"), time, 7 * second, [3 * u, u + second, u * meter])]
    for k, (unit, dim, scale, exprs) in enumerate(steps):
        SI.set_quantity_dimension(unit, dim)
        SI.set_quantity_scale_factor(unit, scale)
        for e in exprs:
            why = check_collect_quantity(e)
            if why:
                return f"step {k} (unit vf_span := {scale}): {e}: {why}"
    return None


def search_collect_quantity(seed=0, budget=6000, depth=2):
    rng = random.Random(seed)
    n = 0
    try:
        why = check_recalibrated_unit()
    except Exception:  # noqa: BLE001
        why = None
    if why:
        return "scenario:recalibrated-unit", why, 0
    for t in trees(leaves_quantity(), depth, rng, budget):
        n += 1
        try:
            why = check_collect_quantity(t)
        except Exception:
            continue
        if why:
            return t, why, n
    return None, None, n


def nth_tree(kind, seed, n, depth=2):
    rng = random.Random(seed)
    leaves = {"collect_quantity": leaves_quantity, "collect_expression": leaves_expression}[kind]()
    for i, t in enumerate(trees(leaves, depth, rng, n + 1), 1):
        if i == n:
            return t
    raise IndexError(n)


def replay_tree(kind, seed, n):
    """re-generate the n-th tree of the deterministic enumeration and assert the contract on the real function"""
    if n < 0 and kind == "collect_expression":
        t = known_witnesses_collect_expression()[-n - 1]
        why = check_collect_expression(t)
        print("input:", t, "| srepr:", sp.srepr(t)[:300])
        assert why is None, f"{kind}({t}): {why}"
        print("contract holds on this input")
        return
    if n == 0 and kind == "collect_quantity":
        why = check_recalibrated_unit()
        print("scenario: a unit is collected, then re-scaled, then re-registered with another dimension")
        assert why is None, f"collect_quantity: {why}"
        print("contract holds in this scenario")
        return
    t = nth_tree(kind, seed, n)
    why = {"collect_quantity": check_collect_quantity, "collect_expression": check_collect_expression}[kind](t)
    print("input:", t, "| srepr:", sp.srepr(t)[:300])
    assert why is None, f"{kind}({t}): {why}"
    print("contract holds on this input")


_search_cache = {}


def concretizer(kind, seed=0, budget=8000):
    """concretize(model, obligation_name) for pyvc: find a real input violating the executable contract (cached per run)"""
    def conc(model, name):
        if kind not in _search_cache:
            fn = {"collect_quantity": search_collect_quantity, "gate": search_gate, "convert": search_convert, "approx": search_approx, "collect_expression": search_collect_expression}[kind]
            _search_cache[kind] = fn(seed, budget)
        t, why, n = _search_cache[kind]
        if t is None:
            return {"reproduced": False, "script": None, "output": f"no disagreement among {n} enumerated real inputs"}
        if kind in ("gate", "convert", "approx"):
            script = (f"from vf.contracts.refimpl import replay_{kind}\n" f"replay_{kind}({t!r})\n")
        else:
            script = ("from vf.contracts.refimpl import replay_tree\n" f"replay_tree({kind!r}, {seed}, {n})\n")
        return {"reproduced": True, "script": script, "inputs": str(t), "output": why}
    return conc


# ------------------------------------------------------------------------------------------------ C04 reference
def ref_gate(arg, expected):
    """'ok' | 'TypeError' | 'UnitsError' | 'ValueError' -- the gate's contract, from the property statement"""
    from sympy.physics.units import Dimension
    from symplyphysics.core.dimensions import any_dimension
    def info(x):
        if isinstance(x, Dimension):
            return None, dim_vec(x), False
        try:
            v, d = ref_collect_quantity(x)
        except Refuse:
            raise
        from sympy.physics.units import Quantity as SymQuantity
        wild = isinstance(x, SymQuantity) and x.dimension == any_dimension
        return v, d, wild
    try:
        xv, xd, xw = info(expected)
    except Refuse:
        return "ValueError"
    if xv is not None and (is_any_value(xv) or xw):
        return "ok"
    try:
        av, ad, aw = info(arg)
    except Refuse:
        return "ValueError"
    if av is not None and (is_any_value(av) or aw):
        return "ok"
    if dims_equiv(ad, xd, erase_angle=True):
        return "ok"
    ad2 = {k: v for k, v in ad.items() if k != "angle"}
    xd2 = {k: v for k, v in xd.items() if k != "angle"}
    return "TypeError" if (not ad2 and xd2) else "UnitsError"


def real_gate(arg, expected, name="p"):
    from symplyphysics.core.dimensions import assert_equivalent_dimension
    from symplyphysics.core.errors import UnitsError
    try:
        assert_equivalent_dimension(arg, name, "f", expected)
        return "ok", ""
    except UnitsError as e:
        return "UnitsError", str(e)
    except TypeError as e:
        return "TypeError", str(e)
    except ValueError as e:
        return "ValueError", str(e)


def gate_pool():
    u = _units()
    from symplyphysics import Quantity
    from sympy.physics.units.definitions.dimension_definitions import angle
    x = sp.Symbol("x")
    args = [0, 0.0, 1, 2.5, -3, oo, nan, sp.Float(0.0), u.meter, u.centimeter, 5 * u.kilometer, u.second, u.radian, 2 * u.radian, u.meter * u.radian,
            Quantity(0), Quantity(0 * u.meter), Quantity(3 * u.meter / u.second), u.meter + u.second, u.meter - 100 * u.centimeter, x, x * u.meter,
            u.length, u.time, angle, u.length * angle, sp.physics.units.Dimension(1), u.meter**2, sp.sqrt(u.meter), u.newton, u.kilogram * u.meter / u.second**2,
            # finite non-zero magnitudes outside the binary64 range: still NOT 0 / oo (the wildcard is decided on the exact value)
            sp.Float("1e-330") * u.coulomb, sp.Rational(1, 10**400) * u.coulomb, sp.Float("1e310") * u.coulomb, 10**400 * u.coulomb,
            sp.Float("1e-300") * u.yocto * u.coulomb if hasattr(u, "yocto") else sp.Float("1e-324") * u.coulomb, sp.Rational(1, 10**400), 10**400,
            # base dimensions that have no SI base unit (information) must not drop out of the comparison
            3 * u.byte, 8 * u.bit / u.second, 2 * u.byte * u.meter, u.bit**2, 5 / u.second, Quantity(5, dimension=u.bit.dimension)]
    exps = [u.length, u.time, angle, sp.physics.units.Dimension(1), u.length * angle, u.force, u.velocity, u.meter, u.second, u.radian, Quantity(1),
            Quantity(0), u.newton, u.area, u.length**sp.Rational(1, 2),
            # dimensionless only AFTER reduction in the dimension system (structurally not Dimension(1)); information; 1/time
            u.velocity * u.time / u.length, u.energy / (u.force * u.length), (u.length**2)**sp.Rational(1, 2) / u.length, u.bit.dimension, 1 / u.time,
            u.bit.dimension * u.length]
    return args, exps


def check_gate(arg, exp):
    try:
        want = ref_gate(arg, exp)
    except OutOfDomain:
        return None
    got, msg = real_gate(arg, exp, "the_param")
    if got != want:
        return f"gate({arg}, expected={exp}): contract says {want}, real gives {got} {msg[:80]}"
    if got in ("TypeError", "UnitsError") and "the_param" not in msg:
        return f"gate({arg}, expected={exp}): error message does not name the parameter: {msg}"
    return None


def search_gate(seed=0, budget=0):
    args, exps = gate_pool()
    n = 0
    for i, a in enumerate(args):
        for j, x in enumerate(exps):
            n += 1
            why = check_gate(a, x)
            if why:
                return (i, j), why, n
    # decorator layer
    for k, sc in enumerate(decorator_scenarios()):
        n += 1
        why = sc()
        if why:
            return ("deco", k), why, n
    # QuantityVector construction
    for key in qvector_keys():
        n += 1
        why = check_qvector(key)
        if why:
            return ("qvec",) + key, why, n
    return None, None, n


def _qvector_pool():
    u = _units()
    from symplyphysics import Quantity
    return [Quantity(2 * u.meter), Quantity(3 * u.second), Quantity(0 * u.second), Quantity(0.5 * u.radian), Quantity(4), 5, 0, Quantity(7 * u.meter / u.second)]


def qvector_keys():
    import itertools
    npool = len(_qvector_pool())
    for n in (1, 2, 3):
        for idxs in itertools.product(range(npool), repeat=n):
            if n == 3 and len(set(idxs)) == 3 and idxs[0] > 3:
                continue  # keep the enumeration small
            for system in (0, 1, 2):
                for dim in (None, "length", "time", "dimensionless"):
                    yield (idxs, system, dim)


def check_qvector(key):
    """contract (C04): QuantityVector(components, system, dimension=d) is refused iff some component -- a ready-made Quantity with
    its OWN dimension, a bare number as a quantity of dimension d (dimensionless if d is omitted) -- fails the gate against the
    vector dimension (d, or the dimension of the first component with a non-zero scale factor), angle slots against angle"""
    u = _units()
    from symplyphysics import Quantity, QuantityVector
    from symplyphysics.core.coordinate_systems.coordinate_systems import CoordinateSystem
    from symplyphysics.core.dimensions import dimensionless
    from sympy.physics.units.definitions.dimension_definitions import angle as angle_dim
    idxs, system, dimkey = key
    pool = _qvector_pool()
    comps = [pool[i] for i in idxs]
    dim = {None: None, "length": u.length, "time": u.time, "dimensionless": dimensionless}[dimkey]
    cs = CoordinateSystem([CoordinateSystem.System.CARTESIAN, CoordinateSystem.System.CYLINDRICAL, CoordinateSystem.System.SPHERICAL][system])
    qs = [c if isinstance(c, Quantity) else Quantity(c, dimension=dim) for c in comps]
    vdim = dim
    if vdim is None:
        vdim = dimensionless
        for q in qs:
            if q.scale_factor != 0:
                vdim = q.dimension
                break
    expect = "ok"
    for i, q in enumerate(qs):
        is_angle = (system == 1 and i == 1) or (system == 2 and i in (1, 2))
        r = ref_gate(q, angle_dim if is_angle else vdim)
        if r != "ok":
            expect = r
            break
    try:
        QuantityVector(comps, cs, dimension=dim)
        got = "ok"
    except Exception as e:  # noqa
        got = type(e).__name__
    if got != expect:
        return f"QuantityVector({comps}, system={system}, dimension={dimkey}): real={got}, contract={expect}"
    return None


def decorator_scenarios():
    """small scenarios for validate_input / validate_output / validate_output_same on dummy functions; each returns None or a
    description of a disagreement with the contract (every guarded element checked against its own unit, error names the
    parameter [and index], function not run on refusal, result checked)"""
    u = _units()
    from symplyphysics import validate_input, validate_output, Quantity, Symbol
    from symplyphysics.core.quantity_decorator import validate_output_same
    L, T = Quantity(2 * u.meter), Quantity(3 * u.second)
    length_sym = Symbol("l", u.length)
    out = []

    def expect_refusal(thunk, must_contain, label):
        def sc():
            ran = []
            try:
                thunk(ran)
            except Exception as e:  # noqa
                if ran:
                    return f"{label}: function body ran although an argument was refused"
                if must_contain and must_contain not in str(e):
                    return f"{label}: error {e!r} does not name {must_contain}"
                return None
            return f"{label}: accepted a wrong-dimension argument"
        return sc

    def expect_ok(thunk, label):
        def sc():
            try:
                thunk([])
            except Exception as e:
                return f"{label}: refused valid arguments: {e!r}"
            return None
        return sc

    def mk(**guards):
        def deco(ran):
            @validate_input(**guards)
            def f(a_, b_=0, c_=0):
                ran.append(1)
                return L
            return f
        return deco

    out.append(expect_ok(lambda ran: mk(a_=u.length, b_=u.time)(ran)(L, T), "two guards, positional"))
    out.append(expect_ok(lambda ran: mk(a_=u.length, b_=u.time)(ran)(b_=T, a_=L), "two guards, keyword"))
    out.append(expect_refusal(lambda ran: mk(a_=u.length, b_=u.time)(ran)(L, L), "b_", "second guarded argument wrong, positional"))
    out.append(expect_refusal(lambda ran: mk(a_=u.length, b_=u.time)(ran)(b_=L, a_=L), "b_", "second guarded argument wrong, keyword"))
    out.append(expect_refusal(lambda ran: mk(a_=u.length, b_=u.time)(ran)(T, T), "a_", "first guarded argument wrong"))
    out.append(expect_refusal(lambda ran: mk(a_=length_sym, c_=u.time)(ran)(L, T, L), "c_", "third guarded argument wrong (symbol guard)"))
    out.append(expect_refusal(lambda ran: mk(a_=u.length)(ran)([L, T, L], T), "a_[1]", "second element of a sequence wrong"))
    out.append(expect_refusal(lambda ran: mk(a_=u.length)(ran)([L, L, T], T), "a_[2]", "third element of a sequence wrong"))
    out.append(expect_ok(lambda ran: mk(a_=u.length)(ran)([L, L, L], T), "sequence all right"))
    Z, D7 = Quantity(0 * u.meter), Quantity(7)
    out.append(expect_refusal(lambda ran: mk(a_=u.length)(ran)([0, 100], T), "a_[1]", "bare zero (wildcard) before a bare non-zero number in a length-guarded sequence"))
    out.append(expect_refusal(lambda ran: mk(a_=u.length)(ran)([Z, D7], T), "a_[1]", "zero quantity (wildcard) before a dimensionless quantity in a length-guarded sequence"))
    out.append(expect_refusal(lambda ran: mk(a_=u.length)(ran)((0, 3.5, L), T), "a_[1]", "bare zero, then a bare non-zero number, then a length"))
    out.append(expect_refusal(lambda ran: mk(a_=u.length)(ran)([L, Z, T], T), "a_[2]", "a wrong element after a right one and a zero"))
    out.append(expect_refusal(lambda ran: mk(a_=u.length)(ran)([T, L], T), "a_[0]", "first element wrong, second right"))
    out.append(expect_ok(lambda ran: mk(a_=u.length)(ran)([Z, L, 0], T), "zeros are compatible with any dimension inside a sequence"))
    out.append(expect_ok(lambda ran: mk(a_=(u.length, u.time))(ran)([L, T], T), "tuple units, element-wise"))
    out.append(expect_refusal(lambda ran: mk(a_=(u.length, u.time))(ran)([L, L], T), "a_[1]", "tuple units: second element against second unit"))
    out.append(expect_refusal(lambda ran: mk(a_=(u.time, u.length))(ran)([L, L], T), "a_[0]", "tuple units: first element against first unit"))

    def mk_kwonly(ran):
        @validate_input(a_=u.length, c_=u.time)
        def f(a_, *, c_):
            ran.append(1)
            return L
        return f
    out.append(expect_refusal(lambda ran: mk(a_=u.length, c_=u.time)(ran)(L, c_=L), "c_", "guarded argument by keyword after an omitted defaulted parameter"))
    out.append(expect_ok(lambda ran: mk(a_=u.length, c_=u.time)(ran)(L, c_=T), "keyword after an omitted defaulted parameter, right dimension"))
    out.append(expect_refusal(lambda ran: mk_kwonly(ran)(L, c_=L), "c_", "keyword-only guarded parameter wrong"))
    out.append(expect_ok(lambda ran: mk_kwonly(ran)(L, c_=T), "keyword-only guarded parameter right"))

    def mk_out(unit, ret):
        def thunk(ran):
            @validate_output(unit)
            def f():
                return ret
            return f()
        return thunk
    out.append(expect_ok(mk_out(u.length, L), "output ok"))

    def mk_same(ref, ret):
        def thunk(ran):
            @validate_output_same("p")
            def f(p):
                return ret
            return f(ref)
        return thunk
    out.append(expect_ok(mk_same(L, Quantity(5 * u.kilometer)), "validate_output_same: result of the reference's dimension"))
    out.append(expect_refusal(mk_same(L, T), "return", "validate_output_same: result of another dimension"))
    out.append(expect_refusal(mk_same(Quantity(0 * u.meter), T), "return", "validate_output_same: a ZERO-valued reference must not excuse a result of another dimension"))
    out.append(expect_refusal(mk_same(Quantity(0, dimension=u.length), T), "return", "validate_output_same: zero reference with explicit dimension"))
    out.append(expect_refusal(mk_same(Quantity(sp.oo, dimension=u.length), T), "return", "validate_output_same: infinite reference"))
    out.append(expect_refusal(mk_out(u.length, [Quantity(0 * u.meter), Quantity(7)]), "return", "output sequence: zero quantity before a dimensionless quantity"))
    out.append(expect_refusal(mk_out(u.length, [L, T]), "return", "output sequence: second element of wrong dimension"))
    out.append(expect_refusal(mk_out(u.time, L), "return", "output of wrong dimension"))
    out.append(expect_refusal(mk_out(u.length, [L, T]), "return", "second element of an output sequence wrong"))

    def mk_same(ret):
        def thunk(ran):
            @validate_output_same("a_")
            def f(a_, b_):
                return ret
            return f(L, T)
        return thunk
    out.append(expect_ok(mk_same(L), "output_same ok"))
    out.append(expect_refusal(mk_same(T), "return", "output_same wrong dimension"))
    # the verdict never depends on the NUMERIC TYPE of a bare number: a non-zero built-in int / float, a SymPy Integer / Float /
    # Rational where a dimensional quantity is required is refused, as a result and as an argument; zero and infinity match anything;
    # every one of them is accepted where the declared unit is dimensionless
    bare = [("int", 6), ("float", 6.0), ("negative float", -2.5), ("big int", 10**6), ("sympy Integer", sp.Integer(6)),
            ("sympy Float", sp.Float(6.5)), ("sympy Rational", sp.Rational(1, 3))]
    for label, v in bare:
        out.append(expect_refusal(mk_out(u.length, v), "return", f"output: bare non-zero {label} where a length is declared"))
        out.append(expect_refusal(mk_out(length_sym, v), "return", f"output: bare non-zero {label} where a length symbol is declared"))
        out.append(expect_ok(mk_out(u.Dimension(1), v), f"output: bare {label} where a dimensionless result is declared"))
        out.append(expect_refusal(lambda ran, v=v: mk(a_=u.length)(ran)(v), "a_", f"input: bare non-zero {label} where a length is declared"))
        out.append(expect_refusal(lambda ran, v=v: mk(a_=u.length)(ran)([L, v]), "a_[1]", f"input sequence: bare non-zero {label} after a length"))
    for label, v in (("int zero", 0), ("float zero", 0.0), ("sympy zero", sp.Integer(0)), ("float infinity", float("inf")), ("sympy oo", sp.oo)):
        out.append(expect_ok(mk_out(u.length, v), f"output: bare {label} matches any declared dimension"))
        out.append(expect_ok(lambda ran, v=v: mk(a_=u.length)(ran)(v), f"input: bare {label} matches any declared dimension"))
    return out


def replay_gate(key):
    if key[0] == "deco":
        why = decorator_scenarios()[key[1]]()
    elif key[0] == "qvec":
        why = check_qvector(tuple(key[1:]))
    else:
        args, exps = gate_pool()
        why = check_gate(args[key[0]], exps[key[1]])
    assert why is None, why
    print("contract holds on this input")


# ------------------------------------------------------------------------------------------------ C07 reference
def convert_pool():
    u = _units()
    from symplyphysics import Quantity
    return [u.meter, u.kilometer, u.centimeter, u.second, u.millisecond, u.hour, u.gram, u.kilogram, u.newton, u.joule, u.kelvin, u.radian, u.degree,
            u.meter / u.second, u.kilometer / u.hour, u.kilogram * u.meter**2 / u.second**2, Quantity(3 * u.kilojoule if hasattr(u, "kilojoule") else 3000 * u.joule),
            Quantity(5), sp.Integer(2), Quantity(0 * u.meter), u.ampere * u.second, u.coulomb, u.mole, u.candela,
            # base dimensions without an SI base unit: conversions that would drop them must be refused
            u.byte, u.bit, Quantity(2 * u.byte * u.meter), Quantity(8 * u.bit / u.second)]


def check_convert(i, j):
    from symplyphysics.core.convert import convert_to, convert_to_si
    from symplyphysics.core.dimensions import dimension_to_si_unit
    from symplyphysics import Quantity
    pool = convert_pool()
    a, b = pool[i], pool[j]
    qa, qb = Quantity(a), Quantity(b)
    if qb.scale_factor == 0:
        return None
    same = is_any_value(qa.scale_factor) or dims_equiv(dim_vec(qa.dimension), dim_vec(qb.dimension), erase_angle=True)
    try:
        n = convert_to(a, b)
        got = "ok"
    except Exception as e:
        got, n = type(e).__name__, None
    if same and got != "ok":
        return f"convert_to({a}, {b}) refused ({got}) although dimensions are equivalent"
    if not same and got == "ok":
        return f"convert_to({a}, {b}) returned {n} although dimensions are inequivalent"
    if same and sp.simplify(n * qb.scale_factor - qa.scale_factor) != 0:
        return f"convert_to({a}, {b}) = {n}: n*unit != quantity"
    if i == j and not (set(dim_vec(qa.dimension)) - {"mass", "length", "time", "current", "temperature", "amount_of_substance", "luminous_intensity", "angle"}):
        si = dimension_to_si_unit(qa.dimension)
        qsi = Quantity(si)
        dv = dim_vec(qa.dimension)
        if not dims_equiv(dim_vec(qsi.dimension), dv, erase_angle=True):
            return f"dimension_to_si_unit({qa.dimension}) = {si} has another dimension"
        if sp.simplify(qsi.scale_factor - sp.Integer(1000) ** dv.get("mass", 0)) != 0:
            return f"dimension_to_si_unit({qa.dimension}) = {si} has scale {qsi.scale_factor}, expected 1000^{dv.get('mass', 0)}"
        if sp.simplify(convert_to_si(a) * qsi.scale_factor - qa.scale_factor) != 0:
            return f"convert_to_si({a}) * scale(SI unit) != scale"
    return None


CELSIUS_SAMPLES = [-273.15, -40, 0, 0.001, 29.7646, 36.6, 100, 961.78, 1064.18, 1e4 + 0.0625, -300.0, -273.16]  # the last two: below absolute zero (the helpers allow it)


def check_celsius(i):
    from symplyphysics.core.symbols.celsius import Celsius, to_kelvin, from_kelvin, to_kelvin_quantity, from_kelvin_quantity
    t = CELSIUS_SAMPLES[i]
    tol = 1e-9 * max(1.0, abs(t))
    if abs(to_kelvin(Celsius(t)) - (t + 273.15)) > tol:
        return f"to_kelvin({t}) = {to_kelvin(Celsius(t))}"
    if abs(from_kelvin(t + 273.15).value - t) > tol:
        return f"from_kelvin({t + 273.15}) = {from_kelvin(t + 273.15).value}, expected {t}"
    if abs(from_kelvin(to_kelvin(Celsius(t))).value - t) > tol:
        return f"from_kelvin(to_kelvin({t})) = {from_kelvin(to_kelvin(Celsius(t))).value}"
    if abs(from_kelvin_quantity(to_kelvin_quantity(Celsius(t))).value - t) > tol:
        return f"from_kelvin_quantity(to_kelvin_quantity({t})) = {from_kelvin_quantity(to_kelvin_quantity(Celsius(t))).value}"
    # the kelvin quantity has the temperature dimension and the kelvin value; other prefixes of kelvin read the same temperature
    u = _units()
    from symplyphysics import Quantity
    kq = to_kelvin_quantity(Celsius(t))
    if dim_vec(kq.dimension) != {"temperature": 1} and not (abs(t + 273.15) < 1e-12):
        return f"to_kelvin_quantity({t}) has dimension {kq.dimension}"
    if abs(float(kq.scale_factor) - (t + 273.15)) > tol:
        return f"to_kelvin_quantity({t}) has the SI value {kq.scale_factor}"
    if abs(t + 273.15) > 1e-9 and abs(from_kelvin_quantity(Quantity((t + 273.15) * 1000 * u.milli * u.kelvin)).value - t) > tol * 10:
        return f"from_kelvin_quantity({(t + 273.15) * 1000} mK) differs from {t}"
    # conversion between inequivalent dimensions is refused: a quantity that is not a temperature is not read as kelvins
    if i < len(NOT_A_TEMPERATURE()):
        q = NOT_A_TEMPERATURE()[i]
        try:
            r = from_kelvin_quantity(q)
        except Exception:
            r = None
        if r is not None:
            return f"from_kelvin_quantity({q.scale_factor} [{q.dimension}]) returned Celsius({r.value}) for a quantity that is not a temperature"
    return None


def NOT_A_TEMPERATURE():
    u = _units()
    from symplyphysics import Quantity
    return [Quantity(300 * u.joule), Quantity(300 * u.meter), Quantity(300 * u.kelvin / u.second), Quantity(300), Quantity(300 * u.kelvin**2),
            Quantity(5 * u.second), Quantity(300 * u.kelvin * u.meter)]


N_EVALUATE = 7 + 8


def _evaluate_extra():
    """quantities whose dimension is not spanned by the seven SI base units (plane angle), alone, inside functions,
    powers and sums, next to a symbol; a dimensionless quantity; a prefixed unit"""
    from symplyphysics import Quantity, angle_type
    u = _units()
    x = sp.Symbol("x")
    deg = Quantity(30 * u.degree)
    ang = Quantity(2, dimension=angle_type)
    # (no information quantity: convert_to_si refuses bytes on the unchanged tree -- there is no SI unit to convert them to)
    return [deg, Quantity(2 * u.kilometer) * sp.sin(deg), deg**2 + 1, x * ang, sp.cos(ang) + ang * x,
            Quantity(5) * x + Quantity(7), Quantity(2 * u.radian / u.second) * Quantity(3 * u.second), u.kilo * u.meter * x]


def check_evaluate(i):
    """evaluate_expression leaves no quantity atom and replaces each by its SI number"""
    from sympy.physics.units import Quantity as SymQuantity
    from symplyphysics.core.convert import evaluate_expression, convert_to_si
    from symplyphysics import Quantity
    u = _units()
    x = sp.Symbol("x")
    exprs = [5 * u.kilometer, Quantity(3 * u.kilometer) * u.kilometer + x * u.meter**2, x * u.speed_of_light**2, Quantity(2 * u.gram) * x + u.kilogram,
             sp.sqrt(Quantity(4 * u.meter**2)) * x, u.newton * x / Quantity(2 * u.second), sp.sin(x) * Quantity(3 * u.joule) - u.joule]
    exprs += _evaluate_extra()
    e = exprs[i]
    r = evaluate_expression(e)
    if r.atoms(SymQuantity):
        return f"evaluate_expression({e}) = {r} still contains quantities"
    want = e.subs({q: convert_to_si(q) for q in e.atoms(SymQuantity)})
    if sp.simplify(r - want) != 0:
        return f"evaluate_expression({e}) = {r}, expected {want}"
    return None


def search_convert(seed=0, budget=0):
    n = 0
    for i in range(len(CELSIUS_SAMPLES)):
        n += 1
        why = check_celsius(i)
        if why:
            return ("celsius", i), why, n
    for i in range(N_EVALUATE):
        n += 1
        try:
            why = check_evaluate(i)
        except Exception as e:
            why = f"evaluate_expression check crashed: {type(e).__name__}: {e}"
        if why:
            return ("evaluate", i), why, n
    for i in range(len(float_pool())):
        n += 1
        try:
            why = check_float(i)
        except Exception as e:
            why = f"convert_to_float check crashed: {type(e).__name__}: {e}"
        if why:
            return ("float", i), why, n
    m = len(convert_pool())
    for i in range(m):
        for j in range(m):
            n += 1
            try:
                why = check_convert(i, j)
            except Exception as e:
                why = f"check crashed: {type(e).__name__}: {e}"
            if why:
                return (i, j), why, n
    return None, None, n


def float_pool():
    u = _units()
    from symplyphysics import Quantity
    I = sp.I
    return [Quantity(5), Quantity(-2.5), Quantity(sp.Rational(7, 3)), Quantity(0), Quantity(3 * u.kilometer) / Quantity(2 * u.meter), Quantity(u.degree),
            Quantity((3 + 4 * I) * u.ohm) / Quantity(u.ohm), Quantity(sp.sqrt(-4)), Quantity(-2.5 * I), Quantity(2 + sp.Float("1e-30") * I), Quantity(sp.oo), Quantity(-sp.oo),
            Quantity(3 * u.meter), Quantity(2 * u.second / u.meter), Quantity(0 * u.meter), Quantity(sp.pi), Quantity(1 + 0 * I)]


def check_float(i):
    """contract (C07): convert_to_float(q) returns the float n with n * 1 == q for a dimensionless q with a real scale factor;
    a dimensional q is refused (UnitsError); a dimensionless q whose scale factor is not real has no such float (TypeError)"""
    import math
    from symplyphysics.core.convert import convert_to_float
    q = float_pool()[i]
    s, d = ref_collect_quantity(q)
    dimless = is_any_value(s) or not {k: v for k, v in d.items() if k != "angle" and v != 0}
    try:
        got = convert_to_float(q)
        exc = None
    except Exception as e:  # noqa
        got, exc = None, type(e).__name__
    if not dimless:
        return None if exc is not None else f"convert_to_float({q.scale_factor} [{q.dimension}]) returned {got!r} for a dimensional quantity"
    sv = sp.sympify(s)
    if sv.is_real or sv in (sp.oo, -sp.oo):
        if exc is not None:
            return f"convert_to_float({sv}) raised {exc} for a real dimensionless quantity"
        ok = (math.isinf(got) and sv in (sp.oo, -sp.oo) and (got > 0) == (sv == sp.oo)) or (not math.isinf(got) and abs(got - float(sv)) <= 1e-12 * max(1.0, abs(float(sv))))
        return None if ok else f"convert_to_float({sv}) returned {got!r}: n * 1 != value"
    if exc is None:
        return f"convert_to_float({sv}) returned {got!r} although the value is not real: n * 1 != value"
    return None


def replay_convert(key):
    why = check_celsius(key[1]) if key[0] == "celsius" else check_evaluate(key[1]) if key[0] == "evaluate" else check_float(key[1]) if key[0] == "float" else check_convert(*key)
    assert why is None, why
    print("contract holds on this input")


def generation_fallback(report, kind, unit, err, seed=0, budget=8000):
    """VC generation failed (the code left the modelled Python/SymPy subset): that is a checker fault (exit 3) -- unless the
    executable contract finds a REAL input on which the function violates its contract, which is reported as a violation
    with that input (bounded search; a clean search decides nothing)."""
    from ..core import Ob, REFUTED
    report.fault(f"VC generation failed: {err}")
    fn = {"collect_quantity": search_collect_quantity, "gate": search_gate, "convert": search_convert, "approx": search_approx,
          "collect_expression": search_collect_expression}[kind]
    t, why, n = fn(seed, budget)
    if t is None:
        report.add_bounded(f"fallback search of the executable {kind} contract after a generation failure", f"{n} enumerated real inputs", n, True)
        return
    if kind in ("gate", "convert", "approx"):
        script = f"from vf.contracts.refimpl import replay_{kind}\nreplay_{kind}({t!r})\n"
    else:
        script = f"from vf.contracts.refimpl import replay_tree\nreplay_tree({kind!r}, {seed}, {n})\n"
    report.add(Ob(f"{unit}/executable-contract/{kind}/first-disagreement", REFUTED, "exec-search", 0.0, f"{why} (found after a VC generation failure: {err})", str(t),
                  {"reproduced": True, "script": script, "inputs": str(t)}))


# ------------------------------------------------------------------------------------------------ C06 reference
class RefUnits(Exception):
    pass


class RefValue(Exception):
    pass


def lit_any(v):
    v = sp.sympify(v)
    return v in (S.Infinity, S.NegativeInfinity, S.NaN) or v.is_zero is True and v.is_number


def ref_collect_expression(e):
    return _ref_ce(e)[1]


def _ref_ce(e):
    """(collected value, dimension vector) of e by combining declared leaf dimensions (C06); raises RefUnits / RefValue as the
    statement says.  The value is only used to recognise terms that are literally 0 / +-oo / NaN."""
    from sympy.functions.elementary.miscellaneous import MinMaxBase
    from sympy.physics.units import Quantity as SymQ
    e = sp.sympify(e)
    def anyval(v):
        return lit_any(v.scale_factor) if isinstance(v, SymQ) else lit_any(v)

    def num(v):
        return v.scale_factor if isinstance(v, SymQ) else v
    if hasattr(e, "dimension"):
        return e, dim_vec(e.dimension)
    if isinstance(e, sp.Mul):
        parts = [_ref_ce(a) for a in e.args]  # errors of sub-terms are reported even when a factor makes the product 0/oo/NaN
        numq = S.One
        for a, (v, d) in zip(e.args, parts):
            if isinstance(v, SymQ) or (a.is_number and not hasattr(a, "dimension")):
                numq = numq * num(v)
        if lit_any(numq):
            return numq, {}
        dim = {}
        val = S.One
        for a, (v, d) in zip(e.args, parts):
            val = val * num(v)
            if isinstance(v, SymQ) and anyval(v):
                continue
            if d is None:
                return val, None
            for k, x in d.items():
                dim[k] = dim.get(k, 0) + x
        if lit_any(val):
            return val, None  # the product is literally 0/oo/NaN: any dimension is acceptable
        return val, {k: x for k, x in dim.items() if x != 0}
    if isinstance(e, sp.Pow):
        xv, xd = _ref_ce(e.exp)
        if xd:
            raise RefValue("dimensional exponent")
        if xd is None:
            raise OutOfDomain("exponent of undetermined dimension")
        if sp.sympify(xv) in (S.Infinity, S.NegativeInfinity, S.NaN):
            raise OutOfDomain("infinite exponent")
        bv, bd = _ref_ce(e.base)
        xv = num(xv)
        if bd is None:
            return bv ** xv, None
        return bv ** xv, {k: x * xv for k, x in bd.items() if x * xv != 0}
    if isinstance(e, (sp.Add, MinMaxBase)):
        parts = [_ref_ce(a) for a in e.args]
        first = None
        nums = [(a, p) for a, p in zip(e.args, parts) if a.is_number and not hasattr(a, "dimension") and not isinstance(a, SymQ)]
        if not all(anyval(p[0]) for a, p in nums):
            first = {}
        numset = [a for a, _ in nums]
        # the code looks at numbers, then quantities, then the rest; equivalence is transitive, so the order does not change the verdict
        rest = [(a, p) for a, p in zip(e.args, parts) if a not in numset]
        rest.sort(key=lambda ap: 0 if isinstance(ap[1][0], SymQ) else 1)
        for a, (v, d) in rest:
            if anyval(v) or d is None:
                continue
            if first is None:
                first = d
            elif not dims_equiv(first, d):
                raise RefUnits("inequivalent terms")
        # every term is 0/oo/NaN: any dimension is acceptable (None = unconstrained)
        return e.func(*[num(v) for v, _ in parts]), first
    if isinstance(e, sp.Abs):
        v, d = _ref_ce(e.args[0])
        return sp.Abs(v), d
    if isinstance(e, sp.Derivative):
        f = e.expr
        d = dict(dim_vec(f.func.dimension)) if hasattr(f.func, "dimension") else {}
        for v, n in e.variable_count:
            for k, x in _ref_ce(v)[1].items():
                d[k] = d.get(k, 0) - x * n
        return e, {k: x for k, x in d.items() if x != 0}
    if isinstance(e, sp.Function):
        vals = [_ref_ce(a)[0] for a in e.args]
        return e.func(*vals), (dim_vec(e.func.dimension) if hasattr(e.func, "dimension") else {})
    return e, {}


def check_collect_expression(e):
    from symplyphysics.core.dimensions import collect_expression_and_dimension as real
    from symplyphysics.core.errors import UnitsError
    try:
        want = ref_collect_expression(e)
    except (RefUnits, RefValue) as r:
        want = r
    except Exception:
        return None
    try:
        got = real(e)
    except UnitsError as x:
        got = RefUnits(str(x))
    except ValueError as x:
        got = RefValue(str(x))
    except Exception as x:
        return f"real raised {type(x).__name__}: {x}"
    if isinstance(want, Exception):
        if not isinstance(got, Exception):
            return f"contract reports {type(want).__name__} ({want}) but real returned {got}"
        return None
    if isinstance(got, Exception):
        return f"contract infers {want} but real raised {type(got).__name__}: {got}"
    ge, gd = got
    if want is not None and not dims_equiv(dim_vec(gd), want):
        return f"dimension {dim_vec(gd)} != {want}"
    # value-equal: compare input and returned expression with quantities replaced by scale factors at a random valuation
    from sympy.physics.units import Quantity as SymQuantity
    rng = random.Random(str(e))
    from sympy.core.function import AppliedUndef
    from symplyphysics.core.operations.symbolic import Symbolic

    def concrete(app):
        # a fixed smooth stand-in for an applied undefined function (so that derivatives can be evaluated): chosen by the function's name
        r2 = random.Random(str(app.func))
        args = list(app.args) or [sp.Integer(1)]
        return sum((r2.randint(1, 5) * a_**2 + sp.Rational(r2.randint(1, 7), 3) * a_ for a_ in args), sp.Integer(r2.randint(1, 4)))

    def numeric(x):
        x = sp.sympify(x)
        x = x.xreplace({q: q.scale_factor for q in x.atoms(SymQuantity)})
        x = x.replace(lambda e_: isinstance(e_, AppliedUndef), concrete).doit()  # derivatives are evaluated before numbers go in
        # Symbolic wrappers (Average, FiniteDifference, ...) are opaque: the wrapper of the same argument gets the same number
        opaque = sorted((w for w in x.atoms(Symbolic)), key=str)
        x = x.xreplace({w: sp.Symbol("opaque_" + str(w).replace(" ", "")) for w in opaque})
        syms = sorted(x.free_symbols, key=str)
        return x, syms
    a, sa = numeric(e)
    b, sb = numeric(ge)
    syms = sorted(set(sa) | set(sb), key=str)
    pt = {s_: sp.Rational(rng.randint(2, 9), rng.randint(1, 5)) for s_ in syms}
    try:
        va, vb = complex(sp.N(a.xreplace(pt).doit())), complex(sp.N(b.xreplace(pt).doit()))
    except Exception:
        return None
    if va != va or vb != vb:
        return None
    if abs(va - vb) > 1e-9 * max(1.0, abs(va)):
        return f"returned expression {ge} has value {vb} where the input has {va}"
    return None


def leaves_expression():
    u = _units()
    from symplyphysics import Quantity, Symbol, Function
    x = Symbol("x", u.length)
    t = Symbol("t", u.time)
    m = Symbol("m", u.mass)
    k = Symbol("k")  # dimensionless
    f = Function("f", [t], u.length)
    plain = sp.Symbol("p")
    from symplyphysics.core.operations.symbolic import Average, FiniteDifference
    symbolic = [Average(x), FiniteDifference(t)]  # declare a dimension without being a Quantity or a DimensionSymbol
    i2 = Function("I", [x, t], u.current)
    # derivatives whose variable list repeats a variable NON-adjacently (SymPy merges only adjacent repeats), and a second-order one
    symbolic += [sp.Derivative(i2(x, t), x, t, x), sp.Derivative(i2(x, t), (x, 2), t), sp.Derivative(f(t), (t, 2))]
    # the angle dimension: a base dimension of its own for inference (only the argument gate reads it as dimensionless)
    from symplyphysics import angle_type
    ang = Symbol("phi", angle_type)
    symbolic += [ang, Quantity(2, dimension=angle_type), ang / t]
    return symbolic + [S.Zero, S.One, sp.Integer(2), sp.Integer(-1), sp.Rational(1, 2), sp.Float(2.5), oo, x, t, m, k, f(t), plain,
            Quantity(0), Quantity(0, dimension=u.length), Quantity(2 * u.meter), Quantity(3 * u.second), Quantity(5), u.meter, u.second,
            sp.Derivative(f(t), t), x / t, x * Quantity(2 * u.meter)]


def known_cause_collect_expression(tr, why):
    """root-cause key of a disagreement that known_findings.json may list (None: not a recognised cause).
    D23: SymPy deduces that a zero-valued Quantity is NEGATIVE (sympy's Quantity is declared real and non-zero at class level,
    symplyphysics' _eval_is_positive says 'not positive'), so 0**q / oo**q with a zero-valued quantity q evaluate to zoo / 0."""
    from sympy.physics.units import Quantity as SymQuantity
    if "returned expression" in why or "value" in why:
        for pw in sp.sympify(tr).atoms(sp.Pow):
            ex = pw.exp
            if isinstance(ex, SymQuantity) and sp.sympify(ex.scale_factor).is_zero:
                return "power-whose-exponent-is-a-zero-valued-quantity"
    # D31: _collect_mul returns the bare numeric factor as soon as that factor is 0 / +-oo / NaN and DROPS the symbolic factors; for
    # an infinite factor the sign of the dropped factor decides the value (oo * s is -oo where s < 0)
    if "returned expression" in why:
        for m in sp.preorder_traversal(sp.sympify(tr)):
            if m.is_Mul and any(a in (S.Infinity, S.NegativeInfinity) for a in m.args) and \
                    any(getattr(a, "free_symbols", None) for a in m.args):
                return "infinite-numeric-factor-times-a-symbolic-factor-of-unknown-sign"
    # D30: the real is_number() answers True for a sub-expression that still contains symbols: complex((-1)**(x + oo)) does not
    # raise (SymPy evaluates it to nan + nan*I), so the operand is filed under "numbers" and never inspected
    from symplyphysics.core.dimensions.miscellaneous import is_number as real_is_number
    for sub in sp.preorder_traversal(sp.sympify(tr)):
        if getattr(sub, "free_symbols", None) and not isinstance(sub, SymQuantity):
            try:
                if real_is_number(sub):
                    return "symbolic-subexpression-classified-as-a-number"
            except Exception:  # noqa: BLE001
                pass
    return None


def known_witnesses_collect_expression():
    """the recorded inputs of the listed C06 findings (D23, D30): checked on EVERY run, whatever the seed and the budget, so that a listed
    finding is reported by its KNOWN-FINDING line each time (and stops being reported the day the defect is repaired)"""
    u = _units()
    from symplyphysics import Quantity, Symbol, Function
    p = sp.Symbol("p")
    x = Symbol("x", u.length)
    t = Symbol("t", u.time)
    f = Function("f", [t], u.length)
    return [(oo * p) ** Quantity(0), (-1) ** (2 * sp.Derivative(f(t), t) + oo) * x, sp.Max(2, oo / sp.log(x / t))]


def search_collect_expression(seed=0, budget=6000, depth=2, known=None):
    """first disagreement that is not a listed known cause; `known` (a dict) collects cause -> (tree, why, index) of the listed ones"""
    rng = random.Random(seed)
    n = 0
    if known is not None:
        for k, w in enumerate(known_witnesses_collect_expression()):
            try:
                why = check_collect_expression(w)
            except Exception:  # noqa: BLE001
                continue
            cause = known_cause_collect_expression(w, why) if why else None
            if cause is not None:
                known.setdefault(cause, (w, why, -(k + 1)))
    for tr in trees(leaves_expression(), depth, rng, budget):
        n += 1
        try:
            why = check_collect_expression(tr)
        except Exception:
            continue
        if why:
            cause = known_cause_collect_expression(tr, why)
            if known is not None and cause is not None:
                known.setdefault(cause, (tr, why, n))
                continue
            return tr, why, n
    return None, None, n


# ------------------------------------------------------------------------------------------------ C08 reference
def approx_pool():
    u = _units()
    from symplyphysics import Quantity
    ops = [Quantity(5 * u.meter), Quantity(5 * u.second), 5, Quantity(5.004 * u.meter), Quantity(5.006 * u.meter), Quantity(1000.5 * u.meter), Quantity(1 * u.kilometer),
           Quantity(0), Quantity((1 + 2 * sp.I) * u.meter), Quantity((1 + 2.001 * sp.I) * u.meter), Quantity((1 + 2.1 * sp.I) * u.meter), 1000.5, Quantity(500 * u.centimeter),
           # pairs straddling the boundary rho*|smaller| < |difference| <= rho*|larger| (symmetry), and complex pairs whose parts differ in size
           Quantity(1000 * u.meter), Quantity(1001.0005 * u.meter), Quantity((1000 + 1 * sp.I) * u.meter), Quantity((1000 + 1.5 * sp.I) * u.meter),
           Quantity((2 + 5000 * sp.I) * u.meter), Quantity((0.0005 + 5 * sp.I) * u.kilometer),
           # magnitudes far below pytest.approx's own default absolute tolerance (1e-12): the verdict must not depend on it
           Quantity(sp.Float("1.602e-19") * u.meter), Quantity(sp.Float("3.204e-19") * u.meter), Quantity(sp.Float("1.0000e-19") * u.meter),
           Quantity(sp.Float("1.0011e-19") * u.meter), Quantity(sp.Float("5e-13") * u.meter), Quantity(sp.Float("-4e-13") * u.meter),
           # a base dimension without an SI base unit must not drop out of the dimension comparison
           Quantity(8 * u.bit / u.second), Quantity(8 / u.second), Quantity(2 * u.byte * u.meter), Quantity(16 * u.meter)]
    tols = [(None, None), (0, 1e-6), (0.01, None), (None, 1.0), (0.0, None), (None, 0.01)]
    dims = [None, u.length, u.time]
    return ops, tols, dims


def ref_assert_equal(l, r, rt, at, dim):
    """True (passes) / False (raises), from the statement of C08"""
    from symplyphysics import Quantity
    rq = r if isinstance(r, Quantity) else Quantity(r, dimension=dim)
    lq = l if isinstance(l, Quantity) else Quantity(l)
    if ref_gate(lq, rq) != "ok":
        return False
    rho = 0.001 if rt is None else rt
    for part in (sp.re, sp.im):
        a, b = float(part(lq.scale_factor)), float(part(rq.scale_factor))
        alpha = abs(a * rho) if at is None else at
        if not abs(a - b) <= max(rho * abs(b), alpha):
            return False
    return True


def check_approx(i, j, k, m):
    from symplyphysics.core.approx import assert_equal
    ops, tols, dims = approx_pool()
    l, r, (rt, at), dim = ops[i], ops[j], tols[k], dims[m]
    try:
        want = ref_assert_equal(l, r, rt, at, dim)
    except Exception:
        return None
    try:
        assert_equal(l, r, relative_tolerance=rt, absolute_tolerance=at, dimension=dim)
        got = True
    except Exception:
        got = False
    if got != want:
        return f"assert_equal({l}, {r}, relative_tolerance={rt}, absolute_tolerance={at}, dimension={dim}) {'passed' if got else 'raised'}; the contract says it must {'pass' if want else 'fail'}"
    # the oracle underneath, called directly (a bare number on the right is compared under the supplied dimension)
    from symplyphysics import Quantity
    from symplyphysics.core.approx import approx_equal_quantities
    if isinstance(l, Quantity):
        try:
            got2 = bool(approx_equal_quantities(l, r, relative_tolerance=rt, absolute_tolerance=at, dimension=dim))
        except Exception as ex:  # noqa
            got2 = type(ex).__name__
        if want and got2 is not True:
            return f"approx_equal_quantities({l}, {r}, relative_tolerance={rt}, absolute_tolerance={at}, dimension={dim}) gave {got2}; the contract says True"
        if not want and got2 is True:
            return f"approx_equal_quantities({l}, {r}, relative_tolerance={rt}, absolute_tolerance={at}, dimension={dim}) gave True; the contract says it must not accept"
    return None


def search_approx(seed=0, budget=0, reduced=False):
    """reduced: default tolerances and the dimensions None / length only (quick-tier audit); otherwise the whole pool"""
    ops, tols, dims = approx_pool()
    n = 0
    for i in range(len(approx_vector_scenarios())):
        n += 1
        why = check_approx_vectors(i)
        if why:
            return ("vectors", i), why, n
    for i in range(len(ops)):
        for j in range(len(ops)):
            for k in range(len(tols) if not reduced else 1):
                for m in range(len(dims) if not reduced else 2):
                    n += 1
                    why = check_approx(i, j, k, m)
                    if why:
                        return (i, j, k, m), why, n
    return None, None, n


def approx_vector_scenarios():
    """(label, lhs components, rhs components, tolerance kwargs, must pass?) for assert_equal_vectors: component by component,
    EQUAL lengths"""
    u = _units()
    from symplyphysics import Quantity
    m = lambda v: Quantity(v * u.meter)
    s_ = lambda v: Quantity(v * u.second)
    return [
        ("equal vectors", [m(1), m(2)], [m(1), m(2)], {}, True),
        ("within the relative tolerance", [m(1), m(2)], [m(1), m(2.0001)], {}, True),
        ("second component outside the tolerance", [m(1), m(2)], [m(1), m(2.1)], {}, False),
        ("first component outside the tolerance", [m(1.1), m(2)], [m(1), m(2)], {}, False),
        ("a component of another dimension", [m(1), m(2)], [m(1), s_(2)], {}, False),
        ("rhs longer by a zero component", [m(1), m(2)], [m(1), m(2), m(0)], {}, False),
        ("lhs longer by a zero component", [m(1), m(2), m(0)], [m(1), m(2)], {}, False),
        ("rhs longer by a component below the absolute tolerance", [m(1), m(2)], [m(1), m(2), m(1e-9)], {"absolute_tolerance": 1e-6}, False),
        ("empty against one component", [], [m(0)], {}, False),
        # the tolerance is relative to EACH component pair, not to the largest component of the vector
        ("small component off by 50 % next to a large one", [m(1000), m(1)], [m(1000), m(1.5)], {}, False),
        ("first component off by 0.2 % next to a large third one", [m(1.002), m(2), m(300)], [m(1), m(2), m(300)], {}, False),
        ("zero against ten next to a million", [m(0), m(0), m(1e6)], [m(0), m(10), m(1e6)], {}, False),
        ("mixed magnitudes, every pair within 0.1 %", [m(1000), m(1)], [m(1000.5), m(1.0005)], {}, True),
        ("three equal components, other unit prefix", [m(1), m(2), m(3)], [Quantity(100 * u.centimeter), Quantity(0.002 * u.kilometer), m(3)], {}, True),
    ]


def check_approx_vectors(i):
    from symplyphysics import QuantityVector
    from symplyphysics.core.approx import assert_equal_vectors
    label, l, r, kw, want = approx_vector_scenarios()[i]
    try:
        lv, rv = QuantityVector(l), QuantityVector(r)
    except Exception:
        return None
    try:
        assert_equal_vectors(lv, rv, **kw)
        got = True
    except Exception:
        got = False
    if got != want:
        return f"assert_equal_vectors [{label}] {'passed' if got else 'raised'}; the contract says it must {'pass' if want else 'fail'}"
    return None


def replay_approx(key):
    if key and key[0] == "vectors":
        why = check_approx_vectors(key[1])
        assert why is None, why
        print("contract holds on this input")
        return
    why = check_approx(*key)
    assert why is None, why
    print("contract holds on this input")
