"""Front end shared by the pyvc sidecars: executor construction, Python builtins, SymPy/unit-library models (ASSUMED).

Assumed contracts are collected in ASSUMED (name -> statement) and reported in evidence; vf/contracts/audit.py probes
each of them against the real library.
"""
from __future__ import annotations

import ast
from fractions import Fraction
from pathlib import Path

import z3

from ..core import PKG
from ..pyvc import (Exec, Ctx, Obj, Seq, Builtin, TypeRef, ExcVal, NONE, NoneVal, Opt, Closure, GenError, module_constants)
from . import model as M

ASSUMED: dict[str, str] = {}


def assumed(name, text):
    ASSUMED[name] = text


# ------------------------------------------------------------------------------------------------ class facts
class ClassFacts(dict):
    """class name -> kinds whose representative class is a subclass of it (REAL issubclass).  A class that the code under
    contract names but the table does not list is looked up in the real modules on demand."""
    reps: dict = {}
    modules: tuple = ()

    def get(self, name, default=None):
        if name in self:
            return self[name]
        import importlib
        for m in self.modules:
            try:
                cls = getattr(importlib.import_module(m), name)
            except Exception:
                continue
            if isinstance(cls, type):
                self[name] = sorted(k for k, rep in self.reps.items() if issubclass(rep, cls))
                return self[name]
        return default


def class_facts(extended: bool = False):
    """kind sets for the classes the dispatch tables and isinstance tests name, from REAL issubclass() calls.
    extended: also the kinds K_DIMSYM (symplyphysics Symbol) and K_SYMBOLIC (Symbolic wrappers), used by the C06 dispatcher."""
    import sympy
    from sympy.functions.elementary.miscellaneous import MinMaxBase
    from sympy.physics.units import Quantity as SymQuantity, Dimension
    from sympy.physics.units.prefixes import Prefix
    from symplyphysics.core.symbols.quantities import Quantity
    reps = {  # representative class per kind
        M.K_QTY: Quantity, M.K_PREFIX: Prefix, M.K_MUL: sympy.Mul, M.K_POW: sympy.Pow, M.K_ADD: sympy.Add, M.K_ABS: sympy.Abs,
        M.K_MIN: sympy.Min, M.K_MAX: sympy.Max, M.K_DERIV: sympy.Derivative, M.K_FUNC: sympy.sin, M.K_NUM: sympy.Integer,
        M.K_SYM: sympy.Symbol,
    }
    if extended:
        from symplyphysics.core.symbols.symbols import Symbol as DimSymbol
        from symplyphysics.core.operations.symbolic import Average
        reps[M.K_DIMSYM] = DimSymbol
        reps[M.K_SYMBOLIC] = Average
    named = {"SymQuantity": SymQuantity, "Quantity": Quantity, "Prefix": Prefix, "Mul": sympy.Mul, "Pow": sympy.Pow, "Add": sympy.Add,
             "Abs": sympy.Abs, "MinMaxBase": MinMaxBase, "Min": sympy.Min, "Max": sympy.Max, "Derivative": sympy.Derivative,
             "SymFunction": sympy.Function, "Dimension": Dimension, "Expr": sympy.Expr}
    facts = ClassFacts()
    facts.reps = reps
    facts.modules = ("symplyphysics.core.symbols.symbols", "symplyphysics.core.symbols.quantities", "symplyphysics.core.operations.symbolic",
                     "symplyphysics.core.dimensions.collect_expression", "symplyphysics.core.dimensions.collect_quantity", "sympy",
                     "sympy.physics.units")
    for nm, cls in named.items():
        facts[nm] = sorted(k for k, rep in reps.items() if issubclass(rep, cls))
    return facts


# ------------------------------------------------------------------------------------------------ builtins
def _b_abs(ex, ctx, args, kw):
    x = ex.unopt(args[0], ctx)
    if isinstance(x, (int, Fraction)):
        return [(ctx, abs(x))]
    if z3.is_expr(x) and x.sort() == M.Val:
        return [(ctx, M.v_abs(x))]
    x = ex.znum(x)
    return [(ctx, z3.If(x >= 0, x, -x))]


def _b_len(ex, ctx, args, kw):
    x = args[0]
    if isinstance(x, (list, tuple, dict, str)):
        return [(ctx, len(x))]
    if isinstance(x, Seq):
        return [(ctx, x.length)]
    raise GenError(f"len of {x!r}")


def _b_isinstance(ex, ctx, args, kw):
    v, t = args
    ts = t if isinstance(t, tuple) else (t,)
    parts = []
    for tt in ts:
        if not isinstance(tt, TypeRef):
            raise GenError(f"isinstance against {tt!r}")
        parts.append(ex.isinstance_model(ex, ctx, v, tt.name))
    if all(isinstance(p, bool) for p in parts):
        return [(ctx, any(parts))]
    return [(ctx, z3.Or([ex.zbool(p) for p in parts]))]


def _b_str(ex, ctx, args, kw):
    return [(ctx, ("__str__", args[0]))]


def _b_zip(ex, ctx, args, kw):
    strict = kw.get("strict", False)
    if all(isinstance(a, (list, tuple)) for a in args):
        if strict and len({len(a) for a in args}) > 1:
            return [(ctx, ExcVal("ValueError", ("zip() argument lengths differ",)))]
        return [(ctx, list(zip(*args)))]
    if all(isinstance(a, Seq) for a in args) and len(args) == 2:
        a, b = args
        if strict is True:
            res = []
            if ex.feasible(ctx, a.length != b.length):
                # zip(strict=True) raises when exhausting the shorter one; modelled as raising up front: the loop body's
                # effects before the raise are not observable in the functions under contract (asserts only)
                res.append((ctx.fork(a.length != b.length), ExcVal("ValueError", ("zip() argument lengths differ",))))
            if ex.feasible(ctx, a.length == b.length):
                res.append((ctx.fork(a.length == b.length), Seq(a.length, lambda i: (a.at(i), b.at(i)), "zip")))
            return res
        n = z3.If(a.length <= b.length, a.length, b.length)
        return [(ctx, Seq(n, lambda i: (a.at(i), b.at(i)), "zip"))]
    raise GenError(f"zip of {args!r}")


def _b_enumerate(ex, ctx, args, kw):
    x = args[0]
    if isinstance(x, (list, tuple)):
        return [(ctx, list(enumerate(x)))]
    if isinstance(x, Seq):
        return [(ctx, Seq(x.length, lambda i: (i, x.at(i)), "enumerate"))]
    raise GenError("enumerate")


def _b_range(ex, ctx, args, kw):
    if all(isinstance(a, int) for a in args):
        return [(ctx, list(range(*args)))]
    if len(args) == 1:
        return [(ctx, Seq(args[0], lambda i: i, "range"))]
    raise GenError("range")


def _b_list(ex, ctx, args, kw):
    if not args:
        return [(ctx, [])]
    x = args[0]
    if isinstance(x, (list, tuple)):
        return [(ctx, list(x))]
    if isinstance(x, dict):
        return [(ctx, list(x.keys()))]
    if isinstance(x, Seq):
        return [(ctx, x)]
    raise GenError(f"list({x!r})")


def _b_tuple(ex, ctx, args, kw):
    r = _b_list(ex, ctx, args, kw)
    return [(c, tuple(v) if isinstance(v, list) else v) for c, v in r]


def _b_float(ex, ctx, args, kw):
    x = ex.unopt(args[0], ctx)
    if isinstance(x, (int, Fraction)):
        return [(ctx, Fraction(x))]
    if z3.is_expr(x) and (z3.is_real(x) or z3.is_int(x)):
        return [(ctx, z3.ToReal(x) if z3.is_int(x) else x)]
    if z3.is_expr(x) and x.sort() == M.Val:
        assumed("float(Val)", "float(x) of a finite real SymPy number is its value as a real (IEEE rounding ignored); of +-oo / NaN it is the float inf / nan; of a complex or symbolic value it raises TypeError")
        res = []
        ok = M.v_real(x)
        ext = z3.Or(M.v_kind(x) == M.PINF, M.v_kind(x) == M.NINF, M.v_kind(x) == M.NAN)  # float(oo) is inf, float(nan) is nan
        bad = z3.And(z3.Not(ok), z3.Not(ext))
        if ex.feasible(ctx, ok):
            res.append((ctx.fork(ok), M.Val.re(x)))
        if ex.feasible(ctx, ext):
            res.append((ctx.fork(ext), x))  # the extended value itself stands for the float inf/-inf/nan
        if ex.feasible(ctx, bad):
            res.append((ctx.fork(bad), ExcVal("TypeError", ("float of a complex or symbolic value",))))
        return res
    raise GenError(f"float({x!r})")


def _sympy_re_im(which):
    def f(ex, ctx, args, kw):
        x = ex.unopt(args[0], ctx)
        if not (z3.is_expr(x) and x.sort() == M.Val):
            raise GenError(f"sympy.{which}({x!r})")
        assumed("sympy.re/im", "re(a+bi) = a and im(a+bi) = b for a finite number; re of an infinite/NaN/symbolic value is a value of the same kind")
        if which == "re":
            return [(ctx, z3.If(M.v_kind(x) == M.FIN, M.v_mk(M.FIN, M.Val.re(x), 0), x))]
        return [(ctx, z3.If(M.v_kind(x) == M.FIN, M.v_mk(M.FIN, M.Val.im(x), 0), x))]
    return Builtin(f"sympy.{which}", f)


def val_assumption(v, name):
    """SymPy's three-valued assumption attribute `name` of a NUMERIC value v (Val sort) as a pyvc Tri; None if not in the table.
    Audited against the real library (contracts/audit.py, probe 'assumption attributes')."""
    from ..pyvc import Tri
    k, re_, im_ = M.v_kind(v), M.Val.re(v), M.Val.im(v)
    fin, inf, nanv = k == M.FIN, z3.Or(k == M.PINF, k == M.NINF), k == M.NAN
    zero = z3.And(fin, re_ == 0, im_ == 0)
    real = z3.And(fin, im_ == 0)
    table = {
        "is_zero": (zero, z3.Or(z3.And(fin, z3.Not(zero)), inf)),
        "is_finite": (fin, inf),
        "is_infinite": (inf, fin),
        "is_real": (real, z3.Or(z3.And(fin, im_ != 0), inf)),
        "is_positive": (z3.And(real, re_ > 0), z3.Or(z3.And(real, re_ <= 0), z3.And(fin, im_ != 0), inf)),
        "is_negative": (z3.And(real, re_ < 0), z3.Or(z3.And(real, re_ >= 0), z3.And(fin, im_ != 0), inf)),
        "is_nonzero": (z3.And(real, re_ != 0), z3.Or(zero, z3.And(fin, im_ != 0), inf)),
    }
    if name not in table:
        return None
    assumed("assumption attributes", "x.is_zero / is_finite / is_infinite / is_real / is_positive / is_negative / is_nonzero of a numeric SymPy value are "
            "three-valued (True / False / None): None for NaN and for values with free symbols, decided by the value otherwise")
    t, f = table[name]
    sym = k == M.SYMB
    return Tri(z3.And(t, z3.Not(sym), z3.Not(nanv)), z3.And(f, z3.Not(sym), z3.Not(nanv)))


# names a module may import from sympy: the model is bound only when the module's own import statements bind that name
SYMPY_NAMES = {"re": _sympy_re_im("re"), "im": _sympy_re_im("im")}


def _b_complex(ex, ctx, args, kw):
    x = ex.unopt(args[0], ctx)
    if z3.is_expr(x) and x.sort() == M.Val:
        assumed("complex(x)", "complex(x) of a finite SymPy number is that number; of a symbolic value it raises TypeError (known exception: (-1)**(x + oo), finding D30)")
        res = []
        ok = M.v_kind(x) != M.SYMB
        if ex.feasible(ctx, ok):
            res.append((ctx.fork(ok), x))
        if ex.feasible(ctx, z3.Not(ok)):
            res.append((ctx.fork(z3.Not(ok)), ExcVal("TypeError", ("complex of a symbolic value",))))
        return res
    if isinstance(x, (int, Fraction)) or (z3.is_expr(x) and (z3.is_real(x) or z3.is_int(x))):
        return [(ctx, x)]
    raise GenError(f"complex({x!r})")


def _b_hasattr(ex, ctx, args, kw):
    h = ex.models.get("__hasattr__")
    if h is None:
        raise GenError("hasattr without model")
    return [(ctx, h(ex, ctx, args[0], args[1]))]


def _b_getattr(ex, ctx, args, kw):
    base, name = args[0], args[1]
    if not isinstance(name, str):
        raise GenError("getattr with symbolic name")
    if len(args) == 3:
        h = ex.models.get("__getattr_default__")
        if h is not None:
            out = h(ex, ctx, base, name, args[2])
            if out is not None:
                return out
    return ex.getattr(base, name, ctx)


def _b_type(ex, ctx, args, kw):
    return [(ctx, ("__type__", args[0]))]


def _b_all_any(which):
    def fn(ex, ctx, args, kw):
        x = args[0]
        if isinstance(x, (list, tuple)):
            ts = [ex.truth(v) for v in x]
            if all(isinstance(t, bool) for t in ts):
                return [(ctx, all(ts) if which == "all" else any(ts))]
            zs = [ex.zbool(t) for t in ts]
            return [(ctx, z3.And(zs) if which == "all" else z3.Or(zs))]
        h = ex.models.get("__all_any__")
        if h is not None:
            out = h(ex, ctx, which, x)
            if out is not None:
                return out
        raise GenError(f"{which}() over {x!r}")
    return fn


def _b_round(ex, ctx, args, kw):
    x = ex.znum(ex.unopt(args[0], ctx))
    n = args[1] if len(args) > 1 else 0
    if not isinstance(n, int):
        raise GenError("round with symbolic digits")
    r = ex.fresh("rounded", z3.RealSort())
    half = z3.Q(5, 10 ** (n + 1)) if n >= 0 else z3.RealVal(5 * 10 ** (-n - 1))
    xr = z3.ToReal(x) if z3.is_int(x) else x
    ctx.assume(r - xr <= half, xr - r <= half)
    return [(ctx, r)]


def _b_minmax(which):
    def fn(ex, ctx, args, kw):
        xs = list(args[0]) if len(args) == 1 and isinstance(args[0], (list, tuple)) else list(args)
        if "key" in kw or not xs:
            raise GenError(f"{which} with key / empty")
        xs = [ex.znum(ex.unopt(x, ctx)) for x in xs]
        r = xs[0]
        for x in xs[1:]:
            r = z3.If((x < r) if which == "min" else (x > r), x, r)
        return [(ctx, r)]
    return fn


def _b_int(ex, ctx, args, kw):
    x = ex.znum(ex.unopt(args[0], ctx))
    if z3.is_expr(x) and z3.is_int(x):
        return [(ctx, x)]
    if isinstance(x, int):
        return [(ctx, x)]
    if z3.is_expr(x) and z3.is_real(x):
        return [(ctx, z3.If(x >= 0, z3.ToInt(x), -z3.ToInt(-x)))]
    raise GenError("int()")


def _b_bool(ex, ctx, args, kw):
    return [(ctx, ex.truth(args[0]))]


def _b_sympify(ex, ctx, args, kw):
    assumed("sympify", "sympify(x) is the identity on SymPy expressions and maps Python numbers to the equal SymPy number")
    return [(ctx, args[0])]


PY_BUILTINS = {
    "abs": Builtin("abs", _b_abs), "len": Builtin("len", _b_len), "isinstance": Builtin("isinstance", _b_isinstance),
    "str": Builtin("str", _b_str), "zip": Builtin("zip", _b_zip), "enumerate": Builtin("enumerate", _b_enumerate),
    "range": Builtin("range", _b_range), "list": Builtin("list", _b_list), "tuple": Builtin("tuple", _b_tuple),
    "float": Builtin("float", _b_float), "complex": Builtin("complex", _b_complex), "hasattr": Builtin("hasattr", _b_hasattr), "getattr": Builtin("getattr", _b_getattr),
    "type": Builtin("type", _b_type), "all": Builtin("all", _b_all_any("all")), "any": Builtin("any", _b_all_any("any")),
    "sympify": Builtin("sympify", _b_sympify), "round": Builtin("round", _b_round), "min": Builtin("min", _b_minmax("min")),
    "max": Builtin("max", _b_minmax("max")), "int": Builtin("int", _b_int), "bool": Builtin("bool", _b_bool),
    "True": True, "False": False, "None": NONE,
}
for _e in ("ValueError", "TypeError", "KeyError", "UnitsError", "AssertionError", "Exception", "NotImplementedError", "IndexError"):
    PY_BUILTINS[_e] = TypeRef(_e)


def exc_subclass(a, b):
    """exception hierarchy used by the code under contract (real classes: UnitsError derives from ValueError? checked in audit)"""
    if a == b or b in ("Exception", "BaseException"):
        return True
    return (a, b) in EXC_SUB


EXC_SUB = set()


def load_exc_hierarchy():
    import symplyphysics.core.errors as E
    EXC_SUB.clear()
    names = {"UnitsError": E.UnitsError, "ValueError": ValueError, "TypeError": TypeError, "KeyError": KeyError,
             "AssertionError": AssertionError, "IndexError": IndexError, "LookupError": LookupError}
    for a, ca in names.items():
        for b, cb in names.items():
            if a != b and issubclass(ca, cb):
                EXC_SUB.add((a, b))


def dim_subs_method(ex, ctx, base, attr, args, kw):
    """Dimension.subs("angle", 1) on a modelled dimension (the idiom of assert_equivalent_dimension, wherever a maintainer
    copies it to); None for anything else"""
    if z3.is_expr(base) and base.sort() == M.Dim and attr == "subs":
        if args and args[0] == "angle":
            assumed("Dimension.subs('angle', 1)", "erases the angle exponent of a dimension and nothing else")
            return [(ctx, M.d_erase_angle(base))]
        raise GenError(f"Dimension.subs({args!r})")
    return None


def make_exec(rel_path: str, unit: str, *, globals_extra=None, contracts=None, models=None, loop_specs=None,
              isinstance_model=None, attr_model=None) -> Exec:
    path = PKG / rel_path
    load_exc_hierarchy()
    tree = ast.parse(path.read_text())
    g = dict(PY_BUILTINS)
    g.update(module_constants(tree))
    for st in tree.body:
        if isinstance(st, ast.ImportFrom) and st.module == "sympy":
            for al in st.names:
                if al.name in SYMPY_NAMES:
                    g[al.asname or al.name] = SYMPY_NAMES[al.name]
    g.update(globals_extra or {})
    # a name that the module imports and that is a class in the real module is a type reference (so that a maintainer's
    # isinstance() test against a newly imported class is evaluated with the real subclass relation, not a checker fault)
    try:
        import importlib
        real = importlib.import_module("symplyphysics." + rel_path[:-3].replace("/", "."))
    except Exception:
        real = None
    if real is not None:
        for st in tree.body:
            if isinstance(st, ast.ImportFrom):
                for al in st.names:
                    nm = al.asname or al.name
                    if nm not in g and isinstance(getattr(real, nm, None), type):
                        g[nm] = TypeRef(nm)
    m = {"__exc_subclass__": exc_subclass}

    def import_hook(ex, name, _real=real):
        """value of an imported module-level name, mapped into the model: a Dimension constant -> its exponent vector, a number -> a
        Fraction; anything else stays unresolved"""
        obj = getattr(_real, name, None) if _real is not None else None
        if obj is None:
            return None
        from sympy.physics.units import Dimension as _Dim
        import sympy as _sp
        if isinstance(obj, _Dim):
            from .refimpl import dim_vec
            vec = dim_vec(obj)
            order = ["mass", "length", "time", "current", "temperature", "amount_of_substance", "luminous_intensity", "angle"]
            if set(vec) - set(order):
                return None
            return M.d_mk([Fraction(str(vec.get(k, 0))) for k in order] + [Fraction(0)], False)
        if isinstance(obj, (int, float)) and not isinstance(obj, bool):
            return Fraction(repr(obj)) if isinstance(obj, float) else obj
        if isinstance(obj, (_sp.Integer, _sp.Rational)):
            return Fraction(int(obj.p), int(obj.q))
        return None
    m["__import__"] = import_hook
    m["__structural_eq_sorts__"] = (M.Dim,)
    m.update(models or {})
    return Exec(source_file=path, globals_=g, contracts=contracts or {}, models=m, loop_specs=loop_specs or {},
                isinstance_model=isinstance_model, attr_model=attr_model, unit=unit)
