"""Model audit (DESIGN.md section 9): every ASSUMED library contract used by the pyvc sidecars has a probe that is evaluated
against the REAL library on a fixed sample.  A disagreement means the model -- not the repository -- is wrong: it is reported
as a checker fault (exit 3), never as a violation.
"""
from __future__ import annotations

import inspect
import itertools
from fractions import Fraction


def probes():
    import sympy as sp
    from sympy import S, oo, nan, Float, I
    from sympy.physics import units as U
    from sympy.physics.units import Dimension, Quantity as SymQuantity
    from sympy.physics.units.systems.si import dimsys_SI, SI
    from sympy.physics.units.definitions.dimension_definitions import angle
    import pytest
    out = []

    def probe(name, fn):
        out.append((name, fn))

    nums = [S.Zero, S.One, sp.Integer(-3), sp.Rational(2, 7), Float(0.0), Float(2.5), oo, -oo, nan, 1 + 2 * I, sp.pi]
    x = sp.Symbol("x")
    dims = [U.length, U.time, U.mass, angle, Dimension(1), U.length * angle, U.length**2 / U.time, U.force, U.energy / U.temperature, U.length**sp.Rational(1, 2)]

    probe("sympify", lambda: all(sp.sympify(n) == n for n in nums) and sp.sympify(3) == sp.Integer(3) and sp.sympify(x) is x)
    probe("complex(x)", lambda: all(_ok(lambda: complex(n)) for n in nums) and not _ok(lambda: complex(x)) and not _ok(lambda: complex(x + 1)))
    probe("float(Val)", lambda: float(sp.Rational(1, 4)) == 0.25 and float(oo) == float("inf") and not _ok(lambda: float(1 + 2 * I)) and not _ok(lambda: float(x)))
    probe("sympy.re/im", lambda: sp.re(3 + 4 * I) == 3 and sp.im(3 + 4 * I) == 4 and sp.im(sp.Rational(5, 2)) == 0)
    def assumption_probe():
        import z3 as _z3
        from . import frontend as FE_, model as M_
        samples = [(S.Zero, (M_.FIN, 0, 0)), (Float(0.0), (M_.FIN, 0, 0)), (sp.Integer(3), (M_.FIN, 3, 0)), (sp.Rational(-2, 7), (M_.FIN, sp.Rational(-2, 7), 0)),
                   (Float(2.5), (M_.FIN, sp.Rational(5, 2), 0)), (oo, (M_.PINF, 0, 0)), (-oo, (M_.NINF, 0, 0)), (nan, (M_.NAN, 0, 0)),
                   (1 + 2 * I, (M_.FIN, 1, 2)), (3 * I, (M_.FIN, 0, 3)), (x, (M_.SYMB, 0, 0)), (x + 1, (M_.SYMB, 0, 0))]
        for val, (k, re_, im_) in samples:
            v = M_.v_mk(k, _z3.RealVal(str(re_)), _z3.RealVal(str(im_)))
            for name in ("is_zero", "is_finite", "is_infinite", "is_real", "is_positive", "is_negative", "is_nonzero"):
                tri = FE_.val_assumption(v, name)
                real = getattr(val, name)
                mt, mf = _z3.is_true(_z3.simplify(tri.t)), _z3.is_true(_z3.simplify(tri.f))
                model = True if mt else False if mf else None
                if model != real:
                    raise AssertionError(f"{name} of {val}: model {model}, SymPy {real}")
        return True
    probe("assumption attributes (three-valued) of numeric values", assumption_probe)
    probe("Expr.is_zero", lambda: Float(0.0).is_zero is True and S.Zero.is_zero is True and S.One.is_zero is False and x.is_zero is None and oo.is_zero is False)
    probe("Dimension.subs('angle', 1)", lambda: all(_vec(d.subs("angle", S.One)) == {k: v for k, v in _vec(d).items() if k != "angle"} for d in dims))
    probe("dimsys_SI.equivalent_dims == equality of dependency vectors", lambda: all(dimsys_SI.equivalent_dims(a, b) == (_vec(a) == _vec(b)) for a, b in itertools.product(dims, dims)))
    probe("dimsys_SI.is_dimensionless == empty dependency vector (angle is a base dimension)", lambda: all(dimsys_SI.is_dimensionless(d) == (not _vec(d)) for d in dims))
    probe("Dimension product / power act on dependency vectors", lambda: all(
        _vec(a * b) == _addv(_vec(a), _vec(b)) and _vec(a**sp.Rational(3, 2)) == {k: v * sp.Rational(3, 2) for k, v in _vec(a).items()} for a, b in itertools.product(dims[:6], dims[:6])))
    probe("bool(Dimension)", lambda: all(bool(d) for d in dims))
    probe("A-ABS", lambda: all(_any(sp.Abs(n)) == _any(n) for n in nums if n.is_real is not False or n.is_number))
    probe("A-POW", lambda: all(_any(b**e_) or e_ == 0 for b in (S.Zero, oo, nan) for e_ in (sp.Integer(2), sp.Rational(1, 2), S.Zero, sp.Integer(3)) if not (b == 0 and e_ < 0)))
    probe("A-PROD", lambda: all(_any(a * b) == (_any(a) or _any(b)) for a, b in itertools.product([n for n in nums if n.is_real], repeat=2)))
    probe("A-LIST", lambda: all(_any(sp.Add(*c)) for c in itertools.product([S.Zero, oo, -oo, nan], repeat=2)) and
          all(_any(sp.Min(*c)) and _any(sp.Max(*c)) for c in itertools.product([S.Zero, oo, -oo], repeat=2)))  # Min/Max refuse NaN arguments
    probe("v_mul/v_add model on extended reals", lambda: (0 * oo is nan or sp.sympify(0 * oo) is S.NaN) and oo + (-oo) is S.NaN and oo * -2 == -oo and oo + 5 == oo)
    probe("pytest.approx", lambda: (1001 == pytest.approx(1000, rel=0.001, abs=0)) and not (1001.01 == pytest.approx(1000, rel=0.001, abs=0)) and
          (5.4 == pytest.approx(5, rel=0, abs=0.5)) and not (5.6 == pytest.approx(5, rel=0, abs=0.5)) and not (float("nan") == pytest.approx(float("nan"))) and
          _raises(lambda: 2 == pytest.approx(1, rel=-1), ValueError) and
          # rel=None with abs given: only the absolute tolerance counts; both None: 1e-6 relative, 1e-12 absolute
          (1000.4 == pytest.approx(1000, rel=None, abs=0.5)) and not (1000.6 == pytest.approx(1000, rel=None, abs=0.5)) and
          not (1000.002 == pytest.approx(1000, rel=None, abs=0.001)) and (1000.0005 == pytest.approx(1000)) and not (1000.002 == pytest.approx(1000)) and
          (1e-13 == pytest.approx(0)) and (1000.5 == pytest.approx(1000, rel=0.001, abs=None)))
    probe("str(int)", lambda: len({str(i) for i in range(2000)}) == 2000 and all(str(i).isdigit() for i in range(2000)))

    def bind_probe():
        def f(a, b=0, *, c=1):
            pass
        sig = inspect.signature(f)
        b1 = sig.bind(1, c=3)
        return list(sig.parameters) == ["a", "b", "c"] and dict(b1.arguments) == {"a": 1, "c": 3} and b1.args == (1,) and b1.kwargs == {"c": 3} and \
            dict(sig.bind(b=2, a=1).arguments) == {"a": 1, "b": 2}
    probe("inspect.signature/bind", bind_probe)

    def si_probe():
        from symplyphysics import Quantity
        q = Quantity(3 * U.kilometer)
        return q.scale_factor == 3000 and dimsys_SI.equivalent_dims(q.dimension, U.length) and U.kilogram.scale_factor == 1000 and U.meter.scale_factor == 1
    probe("SI.set_quantity_* / unit table", si_probe)

    def exc_probe():
        import symplyphysics.core.errors as E
        return issubclass(E.UnitsError, Exception) and not issubclass(E.UnitsError, TypeError)
    probe("exception hierarchy", exc_probe)
    probe("Add/Min/Max/func(*numbers)", lambda: sp.Add(2, 3, 4) == 9 and sp.Min(2, 3, 1) == 1 and sp.Max(2, sp.Rational(7, 2)) == sp.Rational(7, 2) and sp.Add(sp.Integer(5), 0) == 5)
    probe("isinstance facts (the dispatch model reads the real subclass relation; these are the ones the sidecars rely on)",
          lambda: issubclass(sp.Abs, sp.Function) and not issubclass(sp.Derivative, sp.Function) and issubclass(SymQuantity, sp.Expr) and not issubclass(sp.Add, sp.Function))
    return out


def _ok(thunk):
    try:
        thunk()
        return True
    except (TypeError, ValueError):
        return False


def _raises(thunk, cls):
    try:
        thunk()
    except cls:
        return True
    except Exception:
        return False
    return False


def _vec(d):
    from sympy.physics.units.systems.si import dimsys_SI
    return {str(getattr(k, "name", k)): v for k, v in dimsys_SI.get_dimensional_dependencies(d).items() if v != 0}


def _addv(a, b):
    out = dict(a)
    for k, v in b.items():
        out[k] = out.get(k, 0) + v
    return {k: v for k, v in out.items() if v != 0}


def _any(v):
    import sympy as sp
    from sympy import S
    v = sp.sympify(v)
    return v in (S.Infinity, S.NegativeInfinity, S.NaN) or v.is_zero is True


def run(report):
    """evaluate every probe; a failing or crashing probe is a checker fault"""
    results = {}
    for name, fn in probes():
        try:
            ok = bool(fn())
        except Exception as e:  # a probe that cannot even run is a fault of the audit
            ok = False
            name = f"{name} (probe raised {type(e).__name__}: {e})"
        results[name] = ok
        if not ok:
            report.fault(f"model audit: the real library disagrees with the assumed contract '{name}'")
    report.extra["model_audit"] = {"probes": len(results), "passed": sum(results.values()), "names": sorted(results)}
