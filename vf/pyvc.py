"""Engine A (`pyvc`): verification-condition generation from the Python AST of the REAL functions.

The source file under VERIF_REPO is parsed with `ast` on every run; the named function (or nested def) is executed
symbolically, path by path, one z3 term (or a Python container of z3 terms) per Python value.  Calls are resolved, in
this order, to
  * a *contract* (sidecar, vf/contracts): precondition asserted (obligation), frame havocked, postcondition assumed,
    exceptional postconditions forked -- the callee's body is NOT inlined;
  * a *model* of a library / builtin function (assumed contract, listed in evidence);
  * a nested def / lambda of the function under verification (closure, inlined: it is part of the same text).
A call with no contract and no model is a generation error (GenError -> exit 3), never skipped.
Loops over symbolic sequences are cut by a sidecar invariant (LoopSpec); loops over concrete containers are unrolled.

What the extraction drops, exactly: comments, docstrings, type annotations, and the text of f-string messages except
for the names interpolated into them (kept as a tuple of parts so that "the error names that parameter" is checkable).

Python semantics assumed: left-to-right evaluation, mathematical ints, floats as reals, insertion-ordered dicts,
truthiness per sort, no exceptions other than those of modelled callees.
"""
from __future__ import annotations

import ast
import copy
import hashlib
import itertools
import time
from dataclasses import dataclass, field
from fractions import Fraction
from pathlib import Path
from typing import Any, Callable, Optional

import z3

from .core import Ob, PROVED, REFUTED, UNKNOWN, FAULT, REPO
from . import smt


class GenError(Exception):
    """VC generation failed (unsupported construct, missing contract/model): a checker fault, never a violation."""


# ------------------------------------------------------------------------------------------ values
class NoneVal:
    def __repr__(self):
        return "None"


NONE = NoneVal()


@dataclass
class Opt:
    """Optional[T]: `is_none` z3 Bool, `val` the value when present"""
    is_none: Any
    val: Any


@dataclass
class Obj:
    """abstract object with symbolic fields; `cls` is a class tag understood by the model's isinstance"""
    cls: str
    fields: dict

    def get(self, name):
        return self.fields[name]


@dataclass
class ExcVal:
    cls: str
    parts: tuple = ()  # interpolated values of the message (strings / symbolic), for "names that parameter"
    cause: Any = None


@dataclass
class Closure:
    node: Any  # ast.FunctionDef | ast.Lambda
    env: dict
    name: str = "<lambda>"


@dataclass
class Seq:
    """symbolic sequence: z3 length + element access function (idx z3 Int -> value); `tag` for diagnostics"""
    length: Any
    at: Callable
    tag: str = "seq"
    offset: Any = 0

    def slice_from(self, k):
        return Seq(self.length - k, lambda i, _a=self.at, _k=k: _a(i + _k), self.tag, self.offset + k)


@dataclass
class Builtin:
    name: str
    fn: Callable  # (ex, ctx, args, kwargs) -> list[(ctx, value)]


@dataclass(frozen=True)
class TypeRef:
    """a class / type object named in the source (used by isinstance, raise, except, calls to constructors)"""
    name: str


def _clone(v, memo):
    """per-path copy of mutable python-level containers (Obj fields, lists, dicts); z3 terms are immutable. Aliasing between
    names of one environment is preserved through `memo`."""
    if isinstance(v, (Obj, list, dict)):
        if id(v) in memo:
            return memo[id(v)]
        if isinstance(v, Obj):
            n = Obj(v.cls, {})
            memo[id(v)] = n
            n.fields.update({k: _clone(x, memo) for k, x in v.fields.items()})
            return n
        if isinstance(v, list):
            n = []
            memo[id(v)] = n
            n.extend(_clone(x, memo) for x in v)
            return n
        n = {}
        memo[id(v)] = n
        n.update({k: _clone(x, memo) for k, x in v.items()})
        return n
    if isinstance(v, tuple) and any(isinstance(x, (Obj, list, dict)) for x in v):
        return tuple(_clone(x, memo) for x in v)
    return v


class Ctx:
    __slots__ = ("env", "pc", "heap", "ghost", "trace")

    def __init__(self, env=None, pc=None, heap=None, ghost=None, trace=None):
        self.env = env if env is not None else {}
        self.pc = pc if pc is not None else []
        self.heap = heap if heap is not None else {}
        self.ghost = ghost if ghost is not None else {}
        self.trace = trace if trace is not None else []

    def fork(self, *conds):
        memo: dict = {}
        c = Ctx({k: _clone(v, memo) for k, v in self.env.items()}, list(self.pc) + [x for x in conds if x is not None],
                dict(self.heap), dict(self.ghost), list(self.trace))
        return c

    def assume(self, *conds):
        self.pc.extend(conds)
        return self


@dataclass
class LoopSpec:
    """Invariant for a loop over a symbolic sequence, in fold-simulation form.

    init(ex, ctx)            -> ghost state before the loop (python dict of z3 terms); may add obligations
    inv(ex, ctx, ghost, k)   -> z3 Bool: relation between code variables (ctx.env) and ghost after k elements
    step(ex, ctx, ghost, elem, k) -> (ghost', extra assumptions)  : one step of the SPEC fold on element `elem`
    """
    inv: Callable
    step: Callable
    init: Callable
    modifies: tuple = ()


@dataclass(frozen=True)
class Tri:
    """a three-valued Python value that is True, False or None (SymPy assumption attributes): t = "is True", f = "is False" """
    t: Any
    f: Any


# ------------------------------------------------------------------------------------------ front-end normalisation
class _Rename(ast.NodeTransformer):
    def __init__(self, mapping):
        self.mapping = mapping

    def visit_Name(self, node):
        if node.id in self.mapping:
            return ast.copy_location(ast.Name(id=self.mapping[node.id], ctx=node.ctx), node)
        return node


def desugar_list_comprehensions(tree: ast.Module) -> ast.Module:
    """`X = [elt for T in IT]` (statement level, one generator, no conditions) is rewritten, inside function bodies, to

        __lcN = [];  for T' in IT: __lcN.append(elt');  X = __lcN

    which is the definition of the comprehension in the language reference (T is renamed to a fresh name T' when T is used
    anywhere else in the function, because a comprehension has its own scope).  The loop then takes part in the loop numbering
    of the function (`loop@k`), so that a sidecar invariant stated for a `for` loop that appends still applies when a maintainer
    rewrites that loop as a comprehension, and vice versa.  Nothing else is rewritten."""
    counter = itertools.count()

    def rewrite_body(fn, body):
        out = []
        for st in body:
            for field in ("body", "orelse", "finalbody"):
                if hasattr(st, field) and isinstance(getattr(st, field), list) and not isinstance(st, (ast.FunctionDef, ast.ClassDef, ast.AsyncFunctionDef)):
                    setattr(st, field, rewrite_body(fn, getattr(st, field)))
            if isinstance(st, ast.Try):
                for h in st.handlers:
                    h.body = rewrite_body(fn, h.body)
            val = st.value if isinstance(st, (ast.Assign, ast.AnnAssign)) else None
            tgt = (st.targets[0] if isinstance(st, ast.Assign) and len(st.targets) == 1 else st.target if isinstance(st, ast.AnnAssign) else None)
            if isinstance(val, ast.ListComp) and isinstance(tgt, ast.Name) and len(val.generators) == 1 and not val.generators[0].ifs \
                    and not val.generators[0].is_async:
                gen = val.generators[0]
                k = next(counter)
                acc = f"__lc{k}"
                bound = {n.id for n in ast.walk(gen.target) if isinstance(n, ast.Name)}
                inside = {id(n) for n in ast.walk(val)}
                elsewhere = {n.id for n in ast.walk(fn) if isinstance(n, ast.Name) and id(n) not in inside} | {a.arg for a in ast.walk(fn) if isinstance(a, ast.arg)}
                mapping = {b: f"__lc{k}_{b}" for b in bound if b in elsewhere}
                target, elt = gen.target, val.elt
                if mapping:
                    target, elt = _Rename(mapping).visit(target), _Rename(mapping).visit(elt)
                ln, col = st.lineno, st.col_offset
                init = ast.Assign(targets=[ast.Name(id=acc, ctx=ast.Store())], value=ast.List(elts=[], ctx=ast.Load()))
                loop = ast.For(target=target, iter=gen.iter, orelse=[], body=[ast.Expr(value=ast.Call(
                    func=ast.Attribute(value=ast.Name(id=acc, ctx=ast.Load()), attr="append", ctx=ast.Load()), args=[elt], keywords=[]))])
                fin = ast.Assign(targets=[ast.Name(id=tgt.id, ctx=ast.Store())], value=ast.Name(id=acc, ctx=ast.Load()))
                for off, node in enumerate((init, loop, fin)):
                    for n in ast.walk(node):
                        if not hasattr(n, "lineno"):
                            n.lineno, n.col_offset, n.end_lineno, n.end_col_offset = ln, col, ln, col
                    # distinct, increasing positions for the three statements (positions are only used to order statements)
                    node.lineno, node.col_offset = ln, col + off
                for n in ast.walk(loop.body[0]):
                    n.lineno, n.col_offset = ln, col + 2
                loop.col_offset = col + 1
                init.targets[0].col_offset = col
                out.extend([init, loop, fin])
            else:
                out.append(st)
        return out

    for fn in [n for n in ast.walk(tree) if isinstance(n, ast.FunctionDef)]:
        fn.body = rewrite_body(fn, fn.body)
    return tree


# ------------------------------------------------------------------------------------------ executor
class Exec:
    def __init__(self, *, source_file: Path, globals_: dict, contracts: dict, models: dict, loop_specs: dict | None = None,
                 isinstance_model: Callable | None = None, attr_model: Callable | None = None, unit: str = "",
                 branch_timeout_s: float = 3.0):
        self.source_file = Path(source_file)
        self.src = self.source_file.read_text()
        self.tree = desugar_list_comprehensions(ast.parse(self.src))
        self.sha256 = hashlib.sha256(self.src.encode()).hexdigest()
        self.globals = globals_  # name -> value (TypeRef / Builtin / constants / Closure) for module-level names
        self.contracts = contracts  # name -> callable(ex, ctx, args, kwargs) -> list[(ctx, value|ExcVal)]
        self.models = models
        self.loop_specs = loop_specs or {}
        self.isinstance_model = isinstance_model
        self.attr_model = attr_model
        self.unit = unit
        self.obligations: list = []  # (name, hyps, goal, signature, concretize | None)
        self.fresh_id = itertools.count()
        self.loop_counter = 0
        self.branch_timeout_s = branch_timeout_s
        self.inlined: set[str] = set()
        self.used_contracts: set[str] = set()
        self.used_models: set[str] = set()
        self.current_fn = ""
        self._resolving: set[str] = set()
        # module-level names that some function of the module rebinds through a `global` statement: they are STATE (read from the heap,
        # with an arbitrary value at function entry), not constants
        self.mutable_globals = {n for st in ast.walk(self.tree) if isinstance(st, ast.Global) for n in st.names}

    # ---------------------------------------------------------------- helpers
    def fresh(self, prefix, sort):
        return z3.Const(f"{prefix}!{next(self.fresh_id)}", sort)

    def oblige(self, name, ctx: Ctx, goal, signature="", concretize=None):
        # a conjunction is split into one obligation per conjunct, so that a failure names the clause
        if z3.is_expr(goal) and z3.is_and(goal) and goal.num_args() > 1:
            for i, g in enumerate(goal.children()):
                self.oblige(f"{name}#{i}", ctx, g, signature, concretize)
            return
        self.obligations.append((name, list(ctx.pc), goal, signature, concretize or self.default_concretize))

    default_concretize = None

    def find_def(self, qual: str):
        """locate a (possibly nested) def by dotted path 'outer.inner' or 'Class.method'"""
        node = self.tree
        for part in qual.split("."):
            found = None
            # Python binds a name to its LAST definition in a body: a later `def` of the same name replaces an earlier one
            direct = [n for n in getattr(node, "body", []) if isinstance(n, (ast.FunctionDef, ast.ClassDef)) and n.name == part]
            if direct:
                found = direct[-1]
            else:
                for n in ast.walk(node) if node is self.tree else ast.iter_child_nodes(node):
                    if isinstance(n, (ast.FunctionDef, ast.ClassDef)) and n.name == part:
                        found = n
                        break
            if found is None:  # search deeper (decorated / nested under statements)
                for n in ast.walk(node):
                    if isinstance(n, (ast.FunctionDef, ast.ClassDef)) and n.name == part and n is not node:
                        found = n
                        break
            if found is None:
                raise GenError(f"{self.source_file}: def {qual!r} not found")
            node = found
        return node

    def pc_implies(self, ctx: Ctx, cond) -> bool:
        if not ctx.pc:
            return False
        s = z3.Solver()
        s.set("timeout", int(self.branch_timeout_s * 1000))
        for c in ctx.pc:
            s.add(c)
        s.add(z3.Not(cond))
        return s.check() == z3.unsat

    def feasible(self, ctx: Ctx, cond=None) -> bool:
        cs = list(ctx.pc) + ([cond] if cond is not None else [])
        s = z3.Solver()
        s.set("timeout", int(self.branch_timeout_s * 1000))
        for c in cs:
            s.add(c)
        return s.check() != z3.unsat

    # ---------------------------------------------------------------- truthiness
    def truth(self, v):
        if isinstance(v, bool):
            return v
        if isinstance(v, NoneVal):
            return False
        if isinstance(v, Tri):
            return v.t
        if isinstance(v, (int, Fraction)):
            return v != 0
        if isinstance(v, str):
            return v != ""
        if isinstance(v, (list, tuple, dict)):
            return len(v) > 0
        if isinstance(v, Opt):
            inner = self.truth(v.val)
            return z3.And(z3.Not(v.is_none), inner if not isinstance(inner, bool) else z3.BoolVal(inner))
        if isinstance(v, Seq):
            return v.length > 0
        if z3.is_expr(v):
            if z3.is_bool(v):
                return v
            if z3.is_int(v) or z3.is_real(v):
                return v != 0
            if v.sort() == z3.StringSort():
                return z3.Length(v) > 0
        if isinstance(v, (Obj, Closure, Builtin, TypeRef)):
            t = self.models.get("__truth__")
            if t is not None:
                r = t(self, v)
                if r is not None:
                    return r
            return True
        t = self.models.get("__truth__")
        if t is not None:
            r = t(self, v)
            if r is not None:
                return r
        raise GenError(f"truthiness of {v!r}")

    @staticmethod
    def zbool(b):
        return z3.BoolVal(b) if isinstance(b, bool) else b

    # ---------------------------------------------------------------- run a function
    def run_function(self, fnode, ctx: Ctx, args: list, kwargs: dict, name=""):
        """bind parameters and execute the body; returns list[(ctx, outcome)] with outcome ('return', v) | ('raise', ExcVal)"""
        a = fnode.args
        env = dict(ctx.env)
        params = [p.arg for p in a.posonlyargs + a.args]
        defaults = [None] * (len(params) - len(a.defaults)) + list(a.defaults)
        results = [(ctx, None)]
        bound = {}
        pos = list(args)
        for p, d in zip(params, defaults):
            if pos:
                bound[p] = pos.pop(0)
            elif p in kwargs:
                bound[p] = kwargs[p]
            elif d is not None:
                bound[p] = ("__default__", d)
            else:
                raise GenError(f"missing argument {p} calling {name}")
        if a.vararg is not None:
            bound[a.vararg.arg] = tuple(pos)
            pos = []
        if pos:
            raise GenError(f"too many positional arguments calling {name}")
        for p, d in zip(a.kwonlyargs, a.kw_defaults):
            if p.arg in kwargs:
                bound[p.arg] = kwargs[p.arg]
            elif d is not None:
                bound[p.arg] = ("__default__", d)
            else:
                raise GenError(f"missing keyword argument {p.arg} calling {name}")
        if a.kwarg is not None:
            known = set(params) | {p.arg for p in a.kwonlyargs}
            bound[a.kwarg.arg] = {k: v for k, v in kwargs.items() if k not in known}
        c = ctx.fork()
        c.env = env
        outs = [(c, None)]
        for p, v in bound.items():
            if isinstance(v, tuple) and len(v) == 2 and v[0] == "__default__":
                new = []
                for cc, _ in outs:
                    for c2, val in self.eval(v[1], cc):
                        c2.env[p] = val
                        new.append((c2, None))
                outs = new
            else:
                for cc, _ in outs:
                    cc.env[p] = v
        final = []
        for cc, _ in outs:
            body = fnode.body if isinstance(fnode, ast.FunctionDef) else None
            if body is None:  # lambda
                for c2, v in self.eval(fnode.body, cc):
                    final.append((c2, ("raise", v) if isinstance(v, ExcVal) else ("return", v)))
                continue
            for c2, out in self.block(body, cc):
                if out is None:
                    out = ("return", NONE)
                if out[0] in ("break", "continue"):
                    raise GenError("break/continue outside loop")
                final.append((c2, out))
        return final

    # ---------------------------------------------------------------- statements
    def block(self, stmts, ctx: Ctx):
        """returns list[(ctx, outcome|None)]"""
        outs = [(ctx, None)]
        for st in stmts:
            new = []
            for c, o in outs:
                if o is not None:
                    new.append((c, o))
                else:
                    new.extend(self.stmt(st, c))
            outs = new
        return outs

    def stmt(self, st, ctx: Ctx):
        if isinstance(st, ast.Expr):
            if isinstance(st.value, ast.Constant):
                return [(ctx, None)]  # docstring
            return [(c, ("raise", v) if isinstance(v, ExcVal) else None) for c, v in self.eval(st.value, ctx)]
        if isinstance(st, ast.Pass):
            return [(ctx, None)]
        if isinstance(st, (ast.Import, ast.ImportFrom)):
            return [(ctx, None)]
        if isinstance(st, ast.Assign):
            res = []
            for c, v in self.eval(st.value, ctx):
                if isinstance(v, ExcVal):
                    res.append((c, ("raise", v)))
                    continue
                outs = [(c, None)]
                for tgt in st.targets:
                    outs = [x for cc, _ in outs for x in self.assign(tgt, v, cc)]
                res.extend(outs)
            return res
        if isinstance(st, ast.AnnAssign):
            if st.value is None:
                return [(ctx, None)]
            res = []
            for c, v in self.eval(st.value, ctx):
                if isinstance(v, ExcVal):
                    res.append((c, ("raise", v)))
                else:
                    res.extend(self.assign(st.target, v, c))
            return res
        if isinstance(st, ast.AugAssign):
            load = copy.copy(st.target)
            load.ctx = ast.Load()
            node = ast.BinOp(left=load, op=st.op, right=st.value)
            ast.copy_location(node, st)
            ast.fix_missing_locations(node)
            res = []
            for c, v in self.eval(node, ctx):
                if isinstance(v, ExcVal):
                    res.append((c, ("raise", v)))
                else:
                    res.extend(self.assign(st.target, v, c))
            return res
        if isinstance(st, ast.Return):
            if st.value is None:
                return [(ctx, ("return", NONE))]
            return [(c, ("raise", v) if isinstance(v, ExcVal) else ("return", v)) for c, v in self.eval(st.value, ctx)]
        if isinstance(st, ast.Raise):
            res = []
            for c, v in self.eval(st.exc, ctx):
                if isinstance(v, TypeRef):
                    v = ExcVal(v.name)
                if not isinstance(v, ExcVal):
                    raise GenError(f"raise of non-exception {v!r}")
                if st.cause is not None:
                    v = ExcVal(v.cls, v.parts, "chained")
                res.append((c, ("raise", v)))
            return res
        if isinstance(st, ast.If):
            res = []
            for c, v in self.eval(st.test, ctx):
                if isinstance(v, ExcVal):
                    res.append((c, ("raise", v)))
                    continue
                t = self.truth(v)
                if isinstance(t, bool):
                    res.extend(self.block(st.body if t else st.orelse, c))
                    continue
                t = z3.simplify(t)
                if z3.is_true(t):
                    res.extend(self.block(st.body, c))
                    continue
                if z3.is_false(t):
                    res.extend(self.block(st.orelse, c))
                    continue
                if self.feasible(c, t):
                    res.extend(self.block(st.body, c.fork(t)))
                if self.feasible(c, z3.Not(t)):
                    res.extend(self.block(st.orelse, c.fork(z3.Not(t))))
            return res
        if isinstance(st, ast.Assert):
            res = []
            for c, v in self.eval(st.test, ctx):
                if isinstance(v, ExcVal):
                    res.append((c, ("raise", v)))
                    continue
                t = self.truth(v)
                if isinstance(t, bool):
                    res.append((c, None) if t else (c, ("raise", ExcVal("AssertionError"))))
                    continue
                if self.feasible(c, t):
                    res.append((c.fork(t), None))
                if self.feasible(c, z3.Not(t)):
                    res.append((c.fork(z3.Not(t)), ("raise", ExcVal("AssertionError"))))
            return res
        if isinstance(st, ast.FunctionDef):
            ctx.env[st.name] = Closure(st, ctx.env, st.name)
            # decorators on nested defs: apply (models/contracts decide)
            for dec in reversed(st.decorator_list):
                outs = self.eval(dec, ctx)
                if len(outs) != 1:
                    raise GenError("forking decorator expression")
                c, d = outs[0]
                r = self.call_value(d, c, [c.env[st.name]], {}, node=st)
                if len(r) != 1:
                    raise GenError("forking decorator application")
                ctx = r[0][0]
                ctx.env[st.name] = r[0][1]
            return [(ctx, None)]
        if isinstance(st, ast.For):
            return self.for_loop(st, ctx)
        if isinstance(st, ast.Continue):
            return [(ctx, ("continue",))]
        if isinstance(st, ast.Break):
            return [(ctx, ("break",))]
        if isinstance(st, ast.Try):
            return self.try_stmt(st, ctx)
        if isinstance(st, ast.Match):
            return self.match_stmt(st, ctx)
        if isinstance(st, ast.Global):
            ctx.env["__globals_decl__"] = set(ctx.env.get("__globals_decl__", ())) | set(st.names)
            return [(ctx, None)]
        if isinstance(st, ast.Nonlocal):
            return [(ctx, None)]
        raise GenError(f"unsupported statement {type(st).__name__} at line {st.lineno}")

    def global_value(self, name, ctx: Ctx):
        key = "__global__:" + name
        if key not in ctx.heap:
            init = self.globals.get(name)
            if isinstance(init, bool):
                ctx.heap[key] = self.fresh(f"global_{name}", z3.BoolSort())
            elif isinstance(init, int):
                ctx.heap[key] = self.fresh(f"global_{name}", z3.IntSort())
            elif isinstance(init, Fraction):
                ctx.heap[key] = self.fresh(f"global_{name}", z3.RealSort())
            elif isinstance(init, str):
                ctx.heap[key] = self.fresh(f"global_{name}", z3.StringSort())
            else:
                raise GenError(f"module-level name {name!r} is rebound through `global`; its type is not modelled")
        return ctx.heap[key]

    def assign(self, tgt, v, ctx: Ctx):
        if isinstance(tgt, ast.Name):
            if tgt.id in ctx.env.get("__globals_decl__", ()):
                self.global_value(tgt.id, ctx)  # type check of the state variable
                ctx.heap["__global__:" + tgt.id] = v
                return [(ctx, None)]
            ctx.env[tgt.id] = v
            return [(ctx, None)]
        if isinstance(tgt, (ast.Tuple, ast.List)):
            vs = self.unpack(v, len(tgt.elts), ctx)
            outs = [(ctx, None)]
            for t, x in zip(tgt.elts, vs):
                outs = [y for c, _ in outs for y in self.assign(t, x, c)]
            return outs
        if isinstance(tgt, ast.Subscript):
            res = []
            for c, base in self.eval(tgt.value, ctx):
                for c2, idx in self.eval(tgt.slice, c):
                    h = self.models.get("__setitem__")
                    if isinstance(base, list) and isinstance(idx, int):
                        base[idx] = v
                        res.append((c2, None))
                    elif isinstance(base, dict) and isinstance(idx, (str, int)):
                        base[idx] = v
                        res.append((c2, None))
                    elif h is not None:
                        res.extend((c3, None) for c3 in h(self, c2, tgt.value, base, idx, v))
                    else:
                        raise GenError(f"subscript store on {base!r}")
            return res
        if isinstance(tgt, ast.Attribute):
            res = []
            for c, base in self.eval(tgt.value, ctx):
                if isinstance(base, Obj):
                    base.fields[tgt.attr] = v
                    res.append((c, None))
                else:
                    raise GenError(f"attribute store on {base!r}")
            return res
        raise GenError(f"assignment target {type(tgt).__name__}")

    def unpack(self, v, n, ctx):
        if isinstance(v, (tuple, list)):
            if len(v) != n:
                raise GenError(f"unpack {len(v)} values into {n}")
            return list(v)
        h = self.models.get("__unpack__")
        if h is not None:
            r = h(self, ctx, v, n)
            if r is not None:
                return r
        raise GenError(f"cannot unpack {v!r}")

    # ---------------------------------------------------------------- loops
    def iter_items(self, it, ctx):
        """concrete iteration: returns python list of element values, or None if symbolic"""
        if isinstance(it, (list, tuple)):
            return list(it)
        if isinstance(it, dict):
            return list(it.keys())
        return None

    def for_loop(self, st, ctx: Ctx):
        res = []
        self.loop_counter += 1
        for c, it in self.eval(st.iter, ctx):
            if isinstance(it, ExcVal):
                res.append((c, ("raise", it)))
                continue
            items = self.iter_items(it, c)
            if items is not None:
                outs = [(c, None)]
                for x in items:
                    new = []
                    for cc, o in outs:
                        if o is not None:
                            new.append((cc, o))
                            continue
                        for c2, _ in self.assign(st.target, x, cc):
                            for c3, o3 in self.block(st.body, c2):
                                if o3 is not None and o3[0] == "continue":
                                    o3 = None
                                new.append((c3, o3))
                    outs = new
                fin = []
                for cc, o in outs:
                    if o is not None and o[0] == "break":
                        fin.append((cc, None))
                    elif o is None:
                        fin.extend(self.block(st.orelse, cc) if st.orelse else [(cc, None)])
                    else:
                        fin.append((cc, o))
                res.extend(fin)
                continue
            if isinstance(it, Seq):
                res.extend(self.for_symbolic(st, c, it))
                continue
            raise GenError(f"loop over {it!r} at line {st.lineno}")
        return res

    def assigned_names(self, stmts):
        names = set()
        for n in ast.walk(ast.Module(body=list(stmts), type_ignores=[])):
            if isinstance(n, ast.Name) and isinstance(n.ctx, ast.Store):
                names.add(n.id)
        return names

    def for_symbolic(self, st, ctx: Ctx, seq: Seq):
        key = (self.current_fn, st.lineno - self.fn_lineno)
        spec = self.loop_specs.get(self.current_fn)
        if isinstance(spec, dict):
            spec = spec.get(self.loop_ordinal_of(st))
        if spec is None:
            raise GenError(f"loop over symbolic sequence at line {st.lineno} of {self.current_fn} needs a LoopSpec")
        name = f"{self.unit}/{self.current_fn}/loop@{self.loop_ordinal_of(st)}"
        res = []
        mod = sorted(self.assigned_names(st.body) | set(spec.modifies))
        # concrete python lists that the body mutates become abstract lists (model hook), so that they can be havocked
        h_abs = self.models.get("__abstract_list__")
        for n in mod:
            if isinstance(ctx.env.get(n), list):
                if h_abs is None:
                    raise GenError(f"list '{n}' is mutated in a symbolic loop and no abstract-list model is installed")
                ctx.env[n] = h_abs(self, ctx, n, ctx.env[n])
        # (1) establishment
        ghost0 = spec.init(self, ctx, seq)
        self.oblige(f"{name}/invariant-established", ctx, spec.inv(self, ctx, ghost0, z3.IntVal(0), seq))
        # (2) preservation: arbitrary iteration k from a havocked state
        hav = ctx.fork()
        k = self.fresh("k", z3.IntSort())
        for n in mod:
            if n in hav.env:
                hav.env[n] = self.havoc_like(hav.env[n], n)
        ghost_k = {g: self.havoc_like(v, f"ghost_{g}") for g, v in ghost0.items()}
        hav.assume(k >= 0, k < seq.length, spec.inv(self, hav, ghost_k, k, seq))
        elem = seq.at(k)
        for c2, _ in self.assign(st.target, elem, hav):
            ghost_n, assumptions = spec.step(self, c2, ghost_k, elem, k, seq)
            for pi, (c3, o3) in enumerate(self.block(st.body, c2)):
                if o3 is None or o3[0] == "continue":
                    c4 = c3.fork(*assumptions)
                    self.oblige(f"{name}/invariant-preserved/path{pi}", c4, spec.inv(self, c4, ghost_n, k + 1, seq))
                elif o3[0] == "break":
                    # early exit in iteration k: execution continues after the loop (the else-branch is skipped) from the state of
                    # this path; the ghost state of the loop is the invariant's state at index k, NOT the fold over the whole
                    # sequence -- a postcondition that needs the whole fold can only hold if the contract accounts for the exit
                    c4 = c3.fork(*assumptions)
                    c4.ghost["loop_end"] = ghost_k
                    c4.ghost.setdefault("loops", {})[self.loop_ordinal_of(st)] = ghost_k
                    c4.ghost["loop_exit_index"] = k
                    res.append((c4, None))
                else:
                    c3.ghost["in_loop"] = (ghost_k, ghost_n, k, elem, assumptions)
                    c3.assume(*assumptions)
                    res.append((c3, o3))  # return / raise from inside the loop: judged by the function's contract
        # (3) after the loop
        after = ctx.fork()
        for n in mod:
            if n in after.env:
                after.env[n] = self.havoc_like(after.env[n], n)
        ghost_end = {g: self.havoc_like(v, f"ghost_{g}") for g, v in ghost0.items()}
        after.assume(seq.length >= 0, spec.inv(self, after, ghost_end, seq.length, seq))
        after.ghost["loop_end"] = ghost_end
        after.ghost.setdefault("loops", {})[self.loop_ordinal_of(st)] = ghost_end
        if st.orelse:
            res.extend(self.block(st.orelse, after))
        else:
            res.append((after, None))
        return res

    def loop_ordinal_of(self, st):
        fn = self.fn_node
        loops = [n for n in ast.walk(fn) if isinstance(n, ast.For)]
        loops.sort(key=lambda n: (n.lineno, n.col_offset))
        return loops.index(st)

    def havoc_like(self, v, name):
        if z3.is_expr(v):
            return self.fresh(name, v.sort())
        if isinstance(v, tuple):
            return tuple(self.havoc_like(x, name) for x in v)
        if isinstance(v, list):
            raise GenError(f"cannot havoc a concrete list '{name}' across a symbolic loop; model it as ghost state")
        if isinstance(v, Obj):
            return Obj(v.cls, {f: self.havoc_like(x, f"{name}.{f}") for f, x in v.fields.items()})
        if isinstance(v, Opt):
            return Opt(self.fresh(name + "_none", z3.BoolSort()), self.havoc_like(v.val, name))
        h = self.models.get("__havoc__")
        if h is not None:
            r = h(self, v, name)
            if r is not None:
                return r
        if isinstance(v, (int, str, bool, Fraction, NoneVal, Closure, Builtin, TypeRef)):
            return v
        raise GenError(f"cannot havoc {v!r}")

    def try_stmt(self, st, ctx: Ctx):
        res = []
        for c, o in self.block(st.body, ctx):
            if o is not None and o[0] == "raise":
                handled = False
                exc = o[1]
                for h in st.handlers:
                    if h.type is None or self.exc_matches(exc, h.type, c):
                        c2 = c.fork()
                        if h.name:
                            c2.env[h.name] = exc
                        res.extend(self.block(h.body, c2))
                        handled = True
                        break
                if not handled:
                    res.append((c, o))
            elif o is None and st.orelse:
                res.extend(self.block(st.orelse, c))
            else:
                res.append((c, o))
        if st.finalbody:
            out = []
            for c, o in res:
                for c2, o2 in self.block(st.finalbody, c):
                    out.append((c2, o2 if o2 is not None else o))
            res = out
        return res

    def exc_matches(self, exc: ExcVal, typenode, ctx):
        names = []
        for c, t in self.eval(typenode, ctx):
            ts = t if isinstance(t, tuple) else (t,)
            for x in ts:
                if isinstance(x, TypeRef):
                    names.append(x.name)
        sub = self.models.get("__exc_subclass__", lambda a, b: a == b or b in ("Exception", "BaseException"))
        return any(sub(exc.cls, n) for n in names)

    def match_stmt(self, st, ctx: Ctx):
        res = []
        for c, subj in self.eval(st.subject, ctx):
            remaining = [(c, None)]
            for case in st.cases:
                new_remaining = []
                for cc, _ in remaining:
                    pat = case.pattern
                    if isinstance(pat, ast.MatchValue):
                        for c2, v in self.eval(pat.value, cc):
                            eq = self.py_eq(subj, v)
                            if isinstance(eq, bool):
                                if eq:
                                    res.extend(self.block(case.body, c2))
                                else:
                                    new_remaining.append((c2, None))
                            else:
                                if self.feasible(c2, eq):
                                    res.extend(self.block(case.body, c2.fork(eq)))
                                if self.feasible(c2, z3.Not(eq)):
                                    new_remaining.append((c2.fork(z3.Not(eq)), None))
                    elif isinstance(pat, ast.MatchAs) and pat.pattern is None:
                        c2 = cc.fork()
                        if pat.name:
                            c2.env[pat.name] = subj
                        res.extend(self.block(case.body, c2))
                    else:
                        raise GenError(f"match pattern {type(pat).__name__}")
                remaining = new_remaining
            res.extend(remaining)
        return res

    # ---------------------------------------------------------------- expressions
    def eval(self, e, ctx: Ctx):
        """returns list[(ctx, value)]; a value may be an ExcVal (exception raised while evaluating)"""
        m = getattr(self, "e_" + type(e).__name__, None)
        if m is None:
            raise GenError(f"unsupported expression {type(e).__name__} at line {getattr(e, 'lineno', '?')}")
        return m(e, ctx)

    def eval_list(self, nodes, ctx):
        """evaluate nodes left to right; returns list[(ctx, [values])] or (ctx, ExcVal)"""
        outs = [(ctx, [])]
        for n in nodes:
            new = []
            for c, vs in outs:
                if isinstance(vs, ExcVal):
                    new.append((c, vs))
                    continue
                if isinstance(n, ast.Starred):
                    for c2, v in self.eval(n.value, c):
                        if isinstance(v, ExcVal):
                            new.append((c2, v))
                        elif isinstance(v, (list, tuple)):
                            new.append((c2, vs + list(v)))
                        else:
                            new.append((c2, vs + [("__star__", v)]))
                    continue
                for c2, v in self.eval(n, c):
                    new.append((c2, v if isinstance(v, ExcVal) else vs + [v]))
            outs = new
        return outs

    def e_Constant(self, e, ctx):
        v = e.value
        if v is None:
            return [(ctx, NONE)]
        if isinstance(v, float):
            v = Fraction(repr(v))
        return [(ctx, v)]

    def e_Name(self, e, ctx):
        if e.id in ctx.env:
            v = ctx.env[e.id]
            if isinstance(v, Opt) and self.pc_implies(ctx, z3.Not(v.is_none)):
                return [(ctx, v.val)]  # an Optional known not to be None on this path is its value
            return [(ctx, v)]
        if e.id in ctx.heap:
            return [(ctx, ("__heap__", e.id))]
        if e.id in self.mutable_globals:
            return [(ctx, self.global_value(e.id, ctx))]
        if e.id in self.globals:
            return [(ctx, self.globals[e.id])]
        # a module-level constant NAME = <expression>, assigned exactly once at module level: evaluate its defining expression
        # (in the module's global scope; it must evaluate without branching) and remember it
        defs = [st for st in self.tree.body if isinstance(st, (ast.Assign, ast.AnnAssign)) and st.value is not None and
                any(isinstance(t, ast.Name) and t.id == e.id for t in (st.targets if isinstance(st, ast.Assign) else [st.target]))]
        if len(defs) == 1 and e.id not in self._resolving:
            self._resolving.add(e.id)
            try:
                outs = self.eval(defs[0].value, Ctx(env={}))
            finally:
                self._resolving.discard(e.id)
            if len(outs) == 1 and not isinstance(outs[0][1], ExcVal) and not outs[0][0].pc:
                self.globals[e.id] = outs[0][1]
                return [(ctx, outs[0][1])]
        # a function defined at module level in the SAME module and not given a contract: its body is executed (inlined), so that a
        # maintainer who extracts a private helper does not leave the modelled subset
        fdefs = [n for n in self.tree.body if isinstance(n, ast.FunctionDef) and n.name == e.id]
        if fdefs:
            return [(ctx, Closure(fdefs[-1], {}, e.id))]
        # a name imported from elsewhere: resolved through the `__import__` model hook (real value of the real module -> model value)
        h = self.models.get("__import__")
        if h is not None:
            v = h(self, e.id)
            if v is not None:
                self.globals[e.id] = v
                return [(ctx, v)]
        raise GenError(f"unresolved name {e.id!r} at line {e.lineno} of {self.current_fn}")

    def e_Tuple(self, e, ctx):
        return [(c, v if isinstance(v, ExcVal) else tuple(v)) for c, v in self.eval_list(e.elts, ctx)]

    def e_List(self, e, ctx):
        return [(c, v if isinstance(v, ExcVal) else list(v)) for c, v in self.eval_list(e.elts, ctx)]

    def e_Dict(self, e, ctx):
        res = []
        for c, ks in self.eval_list(e.keys, ctx):
            for c2, vs in self.eval_list(e.values, c):
                res.append((c2, dict(zip(ks, vs))))
        return res

    def e_JoinedStr(self, e, ctx):
        nodes = [v.value for v in e.values if isinstance(v, ast.FormattedValue)]
        lits = tuple(v.value for v in e.values if isinstance(v, ast.Constant))
        res = []
        for c, vs in self.eval_list(nodes, ctx):
            if isinstance(vs, ExcVal):
                res.append((c, vs))
                continue
            # an Optional that cannot be None on this path is interpolated as its value
            vs = [v.val if isinstance(v, Opt) and not self.feasible(c, v.is_none) else v for v in vs]
            # an f-string whose interpolated values are all strings is the z3 concatenation; otherwise the message text is dropped
            # and only (literal pieces, interpolated values) are kept
            if vs and all(isinstance(v, str) or (z3.is_expr(v) and v.sort() == z3.StringSort()) for v in vs) and not any(
                    v.format_spec is not None or v.conversion != -1 for v in e.values if isinstance(v, ast.FormattedValue)):
                pieces = []
                it = iter(vs)
                for v in e.values:
                    if isinstance(v, ast.Constant):
                        pieces.append(z3.StringVal(v.value))
                    else:
                        x = next(it)
                        pieces.append(z3.StringVal(x) if isinstance(x, str) else x)
                res.append((c, z3.Concat(*pieces) if len(pieces) > 1 else pieces[0]))
            else:
                res.append((c, ("__fstr__", lits, tuple(vs))))
        return res

    def e_IfExp(self, e, ctx):
        res = []
        for c, t in self.eval(e.test, ctx):
            if isinstance(t, ExcVal):
                res.append((c, t))
                continue
            tv = self.truth(t)
            if isinstance(tv, bool):
                res.extend(self.eval(e.body if tv else e.orelse, c))
                continue
            if self.feasible(c, tv):
                res.extend(self.eval(e.body, c.fork(tv)))
            if self.feasible(c, z3.Not(tv)):
                res.extend(self.eval(e.orelse, c.fork(z3.Not(tv))))
        return res

    def e_BoolOp(self, e, ctx):
        # short-circuit: fork on each operand's truth (operands may raise / call contracts)
        is_and = isinstance(e.op, ast.And)
        outs = []
        pending = [(ctx, None)]
        for i, node in enumerate(e.values):
            last = i == len(e.values) - 1
            new_pending = []
            for c, _ in pending:
                for c2, v in self.eval(node, c):
                    if isinstance(v, ExcVal):
                        outs.append((c2, v))
                        continue
                    if last:
                        outs.append((c2, v))
                        continue
                    t = self.truth(v)
                    if isinstance(t, bool):
                        if t == is_and:
                            new_pending.append((c2, None))
                        else:
                            outs.append((c2, v))
                        continue
                    go, stop = (t, z3.Not(t)) if is_and else (z3.Not(t), t)
                    if self.feasible(c2, stop):
                        sv = v if not z3.is_bool(v) else z3.BoolVal(not is_and)
                        if isinstance(v, Opt) and not is_and:
                            sv = v.val  # `x or y` with x truthy: x is not None on this path
                        outs.append((c2.fork(stop), sv))
                    if self.feasible(c2, go):
                        new_pending.append((c2.fork(go), None))
            pending = new_pending
        return outs

    def e_UnaryOp(self, e, ctx):
        res = []
        for c, v in self.eval(e.operand, ctx):
            if isinstance(v, ExcVal):
                res.append((c, v))
            elif isinstance(e.op, ast.Not):
                t = self.truth(v)
                res.append((c, (not t) if isinstance(t, bool) else z3.Not(t)))
            elif isinstance(e.op, ast.USub):
                res.extend(self.binop("neg", v, None, c, e))
            else:
                raise GenError("unary op")
        return res

    def e_BinOp(self, e, ctx):
        res = []
        for c, l in self.eval(e.left, ctx):
            if isinstance(l, ExcVal):
                res.append((c, l))
                continue
            for c2, r in self.eval(e.right, c):
                if isinstance(r, ExcVal):
                    res.append((c2, r))
                    continue
                res.extend(self.binop(type(e.op).__name__, l, r, c2, e))
        return res

    def unopt(self, v, ctx, what="arithmetic"):
        """use of an Optional value as a number: Python would raise TypeError on None -> obligation 'is not None'"""
        if isinstance(v, Opt):
            self.oblige(f"{self.unit}/{self.current_fn}/no-None-in-{what}", ctx, z3.Not(v.is_none))
            return v.val
        return v

    def binop(self, op, l, r, ctx, node):
        l, r = self.unopt(l, ctx), self.unopt(r, ctx)
        h = self.models.get("__binop__")
        if h is not None:
            out = h(self, ctx, op, l, r)
            if out is not None:
                return out
        num = lambda x: isinstance(x, (int, Fraction)) and not isinstance(x, bool) or (z3.is_expr(x) and (z3.is_int(x) or z3.is_real(x)))
        if op == "neg" and num(l):
            return [(ctx, -l)]
        if num(l) and num(r):
            l2, r2 = self.znum(l), self.znum(r)
            if isinstance(l, (int, Fraction)) and isinstance(r, (int, Fraction)):
                py = {"Add": lambda: l + r, "Sub": lambda: l - r, "Mult": lambda: l * r,
                      "Div": lambda: Fraction(l) / Fraction(r), "Pow": lambda: Fraction(l) ** r if isinstance(r, int) else None,
                      "FloorDiv": lambda: l // r, "Mod": lambda: l % r}.get(op)
                if py is not None and py() is not None:
                    return [(ctx, py())]
            if op == "Add":
                return [(ctx, l2 + r2)]
            if op == "Sub":
                return [(ctx, l2 - r2)]
            if op == "Mult":
                return [(ctx, l2 * r2)]
            if op == "Div":
                return [(ctx, z3.ToReal(l2) / z3.ToReal(r2) if z3.is_int(l2) else l2 / (z3.ToReal(r2) if z3.is_int(r2) else r2))]
            if op in ("Mod", "FloorDiv") and z3.is_int(l2) and z3.is_int(r2):
                # Python floor semantics for a positive divisor (the only use in the code base); z3 div/mod are Euclidean, equal for r > 0
                self.oblige(f"{self.unit}/{self.current_fn}/positive-divisor", ctx, r2 > 0)
                return [(ctx, l2 % r2 if op == "Mod" else l2 / r2)]
        if op == "Add" and isinstance(l, list) and isinstance(r, list):
            return [(ctx, l + r)]
        if op == "Add" and isinstance(l, tuple) and isinstance(r, tuple):
            return [(ctx, l + r)]
        if op == "Mult" and isinstance(l, list) and isinstance(r, int):
            return [(ctx, l * r)]
        if op == "Add" and isinstance(l, str) and isinstance(r, str):
            return [(ctx, l + r)]
        isstr = lambda x: isinstance(x, str) or (z3.is_expr(x) and x.sort() == z3.StringSort())
        if op == "Add" and isstr(l) and isstr(r):
            return [(ctx, z3.Concat(z3.StringVal(l) if isinstance(l, str) else l, z3.StringVal(r) if isinstance(r, str) else r))]
        raise GenError(f"binary op {op} on {l!r}, {r!r} at line {getattr(node, 'lineno', '?')}")

    @staticmethod
    def znum(x):
        if isinstance(x, bool):
            return z3.IntVal(int(x))
        if isinstance(x, int):
            return z3.IntVal(x)
        if isinstance(x, Fraction):
            return z3.Q(x.numerator, x.denominator)
        return x

    def py_eq(self, l, r):
        h = self.models.get("__eq__")
        if h is not None:
            out = h(self, l, r)
            if out is not None:
                return out
        if isinstance(l, NoneVal) or isinstance(r, NoneVal):
            o = r if isinstance(l, NoneVal) else l
            if isinstance(o, NoneVal):
                return True
            if isinstance(o, Opt):
                return o.is_none
            return False
        if isinstance(l, (int, str, bool, Fraction)) and isinstance(r, (int, str, bool, Fraction)):
            return l == r
        if z3.is_expr(l) and z3.is_bool(l) and isinstance(r, bool):
            return l if r else z3.Not(l)
        if z3.is_expr(r) and z3.is_bool(r) and isinstance(l, bool):
            return r if l else z3.Not(r)
        if isinstance(l, TypeRef) and isinstance(r, TypeRef):
            return l.name == r.name
        sd = self.models.get("__structural_eq_sorts__", ())
        if z3.is_expr(l) and z3.is_expr(r) and l.sort() == r.sort() and any(l.sort() == srt for srt in sd):
            # `==` on objects whose model identifies EQUIVALENT values (dimensions: one exponent vector for `velocity*time/length` and
            # `Dimension(1)`): Python's == is structural there -- true only if equivalent, but not whenever equivalent
            if l.eq(r):
                return True
            us = z3.Function("structurally_equal_" + str(l.sort()), l.sort(), l.sort(), z3.BoolSort())
            return z3.And(l == r, us(l, r))
        if z3.is_expr(l) or z3.is_expr(r):
            l2 = self.znum(l) if not isinstance(l, str) else z3.StringVal(l)
            r2 = self.znum(r) if not isinstance(r, str) else z3.StringVal(r)
            if z3.is_expr(l2) and z3.is_expr(r2):
                if l2.sort() != r2.sort():
                    if z3.is_int(l2) and z3.is_real(r2):
                        l2 = z3.ToReal(l2)
                    elif z3.is_real(l2) and z3.is_int(r2):
                        r2 = z3.ToReal(r2)
                    else:
                        return False
                return l2 == r2
        if isinstance(l, tuple) and isinstance(r, tuple):
            if len(l) != len(r):
                return False
            parts = [self.py_eq(a, b) for a, b in zip(l, r)]
            if all(isinstance(p, bool) for p in parts):
                return all(parts)
            return z3.And([self.zbool(p) for p in parts])
        raise GenError(f"== on {l!r}, {r!r}")

    def e_Compare(self, e, ctx):
        res = []
        for c, vs in self.eval_list([e.left] + list(e.comparators), ctx):
            if isinstance(vs, ExcVal):
                res.append((c, vs))
                continue
            conds = []
            for op, l, r in zip(e.ops, vs, vs[1:]):
                conds.append(self.compare(op, l, r, c))
            if all(isinstance(x, bool) for x in conds):
                res.append((c, all(conds)))
            else:
                res.append((c, z3.And([self.zbool(x) for x in conds]) if len(conds) > 1 else conds[0]))
        return res

    def compare(self, op, l, r, ctx):
        h = self.models.get("__compare__")
        if h is not None:
            out = h(self, ctx, type(op).__name__, l, r)
            if out is not None:
                return out
        if isinstance(op, (ast.Is, ast.Eq)) and (isinstance(l, Tri) or isinstance(r, Tri)):
            tri, other = (l, r) if isinstance(l, Tri) else (r, l)
            if other is True:
                return tri.t
            if other is False:
                return tri.f
            if isinstance(other, NoneVal):
                return z3.And(z3.Not(tri.t), z3.Not(tri.f))
            raise GenError(f"comparison of a three-valued attribute with {other!r}")
        if isinstance(op, (ast.Is, ast.Eq)):
            if isinstance(op, ast.Is) and not (isinstance(l, NoneVal) or isinstance(r, NoneVal) or isinstance(l, (TypeRef, bool)) or isinstance(r, (TypeRef, bool))):
                idm = self.models.get("__is__")
                if idm is None:
                    raise GenError(f"`is` on {l!r}, {r!r}")
                return idm(self, l, r)
            return self.py_eq(l, r)
        if isinstance(op, (ast.IsNot, ast.NotEq)):
            x = self.compare(ast.Is() if isinstance(op, ast.IsNot) else ast.Eq(), l, r, ctx)
            return (not x) if isinstance(x, bool) else z3.Not(x)
        if isinstance(op, (ast.In, ast.NotIn)):
            if isinstance(r, (tuple, list)):
                parts = [self.py_eq(l, x) for x in r]
                x = any(parts) if all(isinstance(p, bool) for p in parts) else z3.Or([self.zbool(p) for p in parts])
            elif isinstance(r, dict):
                parts = [self.py_eq(l, x) for x in r.keys()]
                x = any(parts) if all(isinstance(p, bool) for p in parts) else z3.Or([self.zbool(p) for p in parts])
            else:
                raise GenError(f"`in` on {r!r}")
            if isinstance(op, ast.NotIn):
                x = (not x) if isinstance(x, bool) else z3.Not(x)
            return x
        l2, r2 = self.znum(l), self.znum(r)
        if isinstance(l2, (int, Fraction)) and isinstance(r2, (int, Fraction)):
            return {ast.Lt: l2 < r2, ast.LtE: l2 <= r2, ast.Gt: l2 > r2, ast.GtE: l2 >= r2}[type(op)]
        if z3.is_expr(l2) and z3.is_expr(r2):
            return {ast.Lt: l2 < r2, ast.LtE: l2 <= r2, ast.Gt: l2 > r2, ast.GtE: l2 >= r2}[type(op)]
        raise GenError(f"comparison {type(op).__name__} on {l!r}, {r!r}")

    def e_Attribute(self, e, ctx):
        res = []
        for c, base in self.eval(e.value, ctx):
            if isinstance(base, ExcVal):
                res.append((c, base))
                continue
            res.extend(self.getattr(base, e.attr, c, e))
        return res

    def getattr(self, base, attr, ctx, node=None):
        if self.attr_model is not None:
            out = self.attr_model(self, ctx, base, attr)
            if out is not None:
                return out
        if isinstance(base, Obj) and attr in base.fields:
            return [(ctx, base.fields[attr])]
        if isinstance(base, TypeRef):
            key = f"{base.name}.{attr}"
            if key in self.globals:
                return [(ctx, self.globals[key])]
        # bound methods of python containers
        if isinstance(base, (list, dict, tuple, str)) or (isinstance(base, tuple) and base and base[0] == "__heap__"):
            return [(ctx, ("__method__", base, attr))]
        if isinstance(base, (Obj, Seq, Opt)) or z3.is_expr(base):
            return [(ctx, ("__method__", base, attr))]
        raise GenError(f"attribute {attr!r} of {base!r} at line {getattr(node, 'lineno', '?')}")

    def e_Subscript(self, e, ctx):
        res = []
        for c, base in self.eval(e.value, ctx):
            if isinstance(base, ExcVal):
                res.append((c, base))
                continue
            if isinstance(e.slice, ast.Slice):
                lo = e.slice.lower
                hi = e.slice.upper
                los = self.eval(lo, c) if lo is not None else [(c, None)]
                for c2, l in los:
                    his = self.eval(hi, c2) if hi is not None else [(c2, None)]
                    for c3, h in his:
                        res.append((c3, self.do_slice(base, l, h, c3)))
                continue
            for c2, idx in self.eval(e.slice, c):
                if isinstance(idx, ExcVal):
                    res.append((c2, idx))
                    continue
                res.extend(self.getitem(base, idx, c2))
        return res

    def do_slice(self, base, lo, hi, ctx):
        if isinstance(base, (list, tuple)) and (lo is None or isinstance(lo, int)) and (hi is None or isinstance(hi, int)):
            return base[lo:hi]
        if isinstance(base, Seq) and hi is None and isinstance(lo, int):
            return base.slice_from(lo)
        raise GenError(f"slice of {base!r}")

    def getitem(self, base, idx, ctx):
        if isinstance(base, (list, tuple)) and isinstance(idx, int):
            return [(ctx, base[idx])]
        if isinstance(base, dict) and isinstance(idx, (str, int, TypeRef)):
            if idx in base:
                return [(ctx, base[idx])]
            return [(ctx, ExcVal("KeyError", (idx,)))]
        if isinstance(base, Seq):
            return [(ctx, base.at(self.znum(idx)))]
        h = self.models.get("__getitem__")
        if h is not None:
            out = h(self, ctx, base, idx)
            if out is not None:
                return out
        raise GenError(f"subscript {base!r}[{idx!r}]")

    def e_Lambda(self, e, ctx):
        return [(ctx, Closure(e, ctx.env))]

    def e_Starred(self, e, ctx):
        return self.eval(e.value, ctx)

    def e_ListComp(self, e, ctx):
        return self.comprehension(e, ctx, list)

    def e_GeneratorExp(self, e, ctx):
        return self.comprehension(e, ctx, list)

    def e_DictComp(self, e, ctx):
        # {k: v for ... in <concrete container> if ...}: evaluated as a list comprehension of (k, v) pairs
        pair = ast.Tuple(elts=[e.key, e.value], ctx=ast.Load())
        lc = ast.ListComp(elt=pair, generators=e.generators)
        ast.copy_location(lc, e)
        ast.fix_missing_locations(lc)
        return [(c, v if isinstance(v, ExcVal) else dict(v)) for c, v in self.comprehension(lc, ctx, list)]

    def comprehension(self, e, ctx, kind):
        if len(e.generators) != 1:
            raise GenError("nested comprehension")
        gen = e.generators[0]
        res = []
        for c, it in self.eval(gen.iter, ctx):
            items = self.iter_items(it, c)
            if items is None:
                h = self.models.get("__comprehension__")
                if h is not None:
                    out = h(self, c, e, it)
                    if out is not None:
                        res.extend(out)
                        continue
                raise GenError(f"comprehension over symbolic {it!r} at line {e.lineno}")
            outs = [(c, [])]
            for x in items:
                new = []
                for cc, acc in outs:
                    if isinstance(acc, ExcVal):
                        new.append((cc, acc))
                        continue
                    saved = dict(cc.env)
                    for c2, _ in self.assign(gen.target, x, cc):
                        conds = [(c2, True)]
                        for cond in gen.ifs:
                            nxt = []
                            for c3, keep in conds:
                                if keep is False:
                                    nxt.append((c3, False))
                                    continue
                                for c4, t in self.eval(cond, c3):
                                    tv = self.truth(t)
                                    if isinstance(tv, bool):
                                        nxt.append((c4, tv))
                                    else:
                                        if self.feasible(c4, tv):
                                            nxt.append((c4.fork(tv), True))
                                        if self.feasible(c4, z3.Not(tv)):
                                            nxt.append((c4.fork(z3.Not(tv)), False))
                            conds = nxt
                        for c3, keep in conds:
                            if not keep:
                                new.append((c3, acc))
                                continue
                            for c4, v in self.eval(e.elt, c3):
                                new.append((c4, v if isinstance(v, ExcVal) else acc + [v]))
                outs = new
            res.extend(outs)
        return res

    # ---------------------------------------------------------------- calls
    def e_Call(self, e, ctx):
        res = []
        for c, f in self.eval(e.func, ctx):
            if isinstance(f, ExcVal):
                res.append((c, f))
                continue
            for c2, args in self.eval_list(e.args, c):
                if isinstance(args, ExcVal):
                    res.append((c2, args))
                    continue
                kwnodes = [k for k in e.keywords]
                outs = [(c2, {})]
                for k in kwnodes:
                    new = []
                    for c3, kw in outs:
                        if isinstance(kw, ExcVal):
                            new.append((c3, kw))
                            continue
                        for c4, v in self.eval(k.value, c3):
                            if isinstance(v, ExcVal):
                                new.append((c4, v))
                            elif k.arg is None:
                                if not isinstance(v, dict):
                                    new.append((c4, dict(kw, **{"__starstar__": v})))
                                else:
                                    new.append((c4, dict(kw, **v)))
                            else:
                                new.append((c4, dict(kw, **{k.arg: v})))
                    outs = new
                for c3, kw in outs:
                    if isinstance(kw, ExcVal):
                        res.append((c3, kw))
                    else:
                        res.extend(self.call_value(f, c3, args, kw, node=e))
        return res

    def call_value(self, f, ctx, args, kwargs, node=None):
        if isinstance(f, Builtin):
            self.used_models.add(f.name)
            return f.fn(self, ctx, args, kwargs)
        if isinstance(f, Closure):
            self.inlined.add(f.name)
            saved_fn = (self.current_fn,)
            inner = ctx.fork()
            inner.env = dict(f.env)
            out = []
            for c, o in self.run_function(f.node, inner, args, kwargs, f.name):
                c.env = dict(ctx.env)  # restore caller locals (closures here do not rebind outer names)
                out.append((c, o[1]))
            return out
        if isinstance(f, tuple) and f and f[0] == "__method__":
            _, base, attr = f
            h = self.models.get("__method__")
            if h is not None:
                out = h(self, ctx, base, attr, args, kwargs)
                if out is not None:
                    return out
            return self.container_method(base, attr, ctx, args, kwargs)
        if isinstance(f, tuple) and f and f[0] == "__contract__":
            name = f[1]
            self.used_contracts.add(name)
            return self.contracts[name](self, ctx, args, kwargs)
        if isinstance(f, TypeRef):
            key = f.name
            if key in self.contracts:
                self.used_contracts.add(key)
                return self.contracts[key](self, ctx, args, kwargs)
            if key in self.models:
                self.used_models.add(key)
                return self.models[key](self, ctx, args, kwargs)
            if key.endswith("Error") or key in ("Exception", "StopIteration"):
                return [(ctx, ExcVal(key, tuple(args)))]
            raise GenError(f"call of {key}: no contract and no model (line {getattr(node, 'lineno', '?')} of {self.current_fn})")
        raise GenError(f"call of {f!r} at line {getattr(node, 'lineno', '?')}")

    def container_method(self, base, attr, ctx, args, kwargs):
        if isinstance(base, list):
            if attr == "append":
                base.append(args[0])
                return [(ctx, NONE)]
            if attr == "extend" and isinstance(args[0], (list, tuple)):
                base.extend(args[0])
                return [(ctx, NONE)]
            if attr == "insert" and isinstance(args[0], int):
                base.insert(args[0], args[1])
                return [(ctx, NONE)]
            if attr == "index":
                for i, x in enumerate(base):
                    eq = self.py_eq(x, args[0])
                    if eq is True:
                        return [(ctx, i)]
                    if eq is not False:
                        raise GenError("symbolic list.index")
                return [(ctx, ExcVal("ValueError"))]
        if isinstance(base, dict):
            if attr == "items":
                return [(ctx, [(k, v) for k, v in base.items()])]
            if attr == "keys":
                return [(ctx, list(base.keys()))]
            if attr == "values":
                return [(ctx, list(base.values()))]
            if attr == "get":
                k = args[0]
                d = args[1] if len(args) > 1 else NONE
                if isinstance(k, (str, int, TypeRef)):
                    return [(ctx, base.get(k, d))]
        raise GenError(f"method {attr} of {type(base).__name__}")


# ------------------------------------------------------------------------------------------ discharge
def discharge(ex: Exec, unit: str, timeout_s=20.0) -> list[Ob]:
    obs = []
    for name, hyps, goal, sig, conc in ex.obligations:
        if isinstance(goal, bool):
            goal = z3.BoolVal(goal)
        ob, m = smt.prove(name, hyps, goal, timeout_s=timeout_s, signature=sig)
        if ob.verdict == REFUTED and conc is not None:
            try:
                ob.replay = conc(m, name)
            except Exception as e:  # a failing concretiser never hides the refutation
                ob.replay = {"reproduced": False, "script": None, "output": f"concretiser error: {type(e).__name__}: {e}"}
        obs.append(ob)
    return obs


# ------------------------------------------------------------------------------------------ front end
def module_constants(tree: ast.Module) -> dict:
    """module-level NAME = <literal> (numbers, strings, tuples of them): read from the source AST"""
    out = {}
    for st in tree.body:
        if isinstance(st, (ast.Assign, ast.AnnAssign)):
            tgt = st.targets[0] if isinstance(st, ast.Assign) else st.target
            val = st.value
            if isinstance(tgt, ast.Name) and val is not None:
                try:
                    v = ast.literal_eval(val)
                except Exception:
                    continue
                if isinstance(v, float):
                    v = Fraction(repr(v))
                if isinstance(v, (int, str, Fraction, bool)):
                    out[tgt.id] = v
    return out


# decorators that do not change what a call of the decorated function computes (or whose effect the sidecars model explicitly)
ALLOWED_DECORATORS = {"staticmethod", "classmethod", "property", "wraps", "abstractmethod", "override", "dispatch"}


def verify_function(ex: Exec, qual: str, setup: Callable, post: Callable, *, closure_env: dict | None = None,
                    concretize: Callable | None = None):
    """Generate the obligations of one function against its sidecar contract.

    setup(ex, ctx) -> (args, kwargs, info): creates symbolic inputs, puts the precondition on ctx.pc
    post(ex, ctx, outcome, info) -> iterable of (clause_name, z3 goal): the postcondition for this path's outcome
    Returns the number of paths explored (vacuity guard: must be >= 1)."""
    node = ex.find_def(qual)
    # decorators wrap the function that actually runs: only those whose effect is modelled (or none) may sit on a function under contract
    for d in getattr(node, "decorator_list", []):
        dn = ast.unparse(d.func if isinstance(d, ast.Call) else d)
        if dn.split(".")[-1] not in ALLOWED_DECORATORS:
            raise GenError(f"{qual} is decorated with @{ast.unparse(d)}: the body alone is no longer what runs (decorator not modelled)")
    top = qual.split(".")[0]
    for st in ex.tree.body:
        tg = st.targets if isinstance(st, ast.Assign) else [st.target] if isinstance(st, (ast.AnnAssign, ast.AugAssign)) else []
        if any(isinstance(t, ast.Name) and t.id == top for t in tg):
            raise GenError(f"module-level name {top!r} is re-bound by an assignment at line {st.lineno}: the `def` under contract is not what the name refers to")
    ex.fn_node, ex.fn_lineno, ex.current_fn = node, node.lineno, qual
    ctx = Ctx(env=dict(closure_env or {}))
    ex.default_concretize = concretize
    args, kwargs, info = setup(ex, ctx)
    if not ex.feasible(ctx):
        raise GenError(f"{qual}: precondition is unsatisfiable (vacuous contract)")
    outs = ex.run_function(node, ctx, args, kwargs, qual)
    if not outs:
        raise GenError(f"{qual}: no feasible path")
    for i, (c, o) in enumerate(outs):
        for clause, goal in post(ex, c, o, info):
            ex.oblige(f"{ex.unit}/{qual}/{clause}/path{i}", c, goal)
    ex.default_concretize = None
    return len(outs)


def accumulators(fnode, ordinal: int):
    """Names of a loop's accumulators by ROLE, so that sidecar invariants survive a renaming of locals:
    `carried`  : names assigned inside the loop body that were already assigned before the loop (in order of first assignment
                 before the loop) -- the loop-carried state;
    `appended` : names X with `X.append(..)` in the body, in order of their first assignment before the loop."""
    loops = sorted([n for n in ast.walk(fnode) if isinstance(n, ast.For)], key=lambda n: (n.lineno, n.col_offset))
    if ordinal >= len(loops):
        raise GenError(f"the sidecar contract states an invariant for loop@{ordinal} of {getattr(fnode, 'name', '?')}, which now has {len(loops)} loop(s): "
                       "the function was restructured and its loop invariants have to be re-stated")
    loop = loops[ordinal]
    pre = []
    for n in ast.walk(fnode):
        if isinstance(n, ast.Name) and isinstance(n.ctx, ast.Store) and (n.lineno, n.col_offset) < (loop.lineno, loop.col_offset) and n.id not in pre:
            pre.append((n.lineno, n.col_offset, n.id))
    pre_names = []
    for _, _, nm in sorted(pre):
        if nm not in pre_names:
            pre_names.append(nm)
    body = ast.Module(body=list(loop.body), type_ignores=[])
    assigned = {n.id for n in ast.walk(body) if isinstance(n, ast.Name) and isinstance(n.ctx, ast.Store)}
    appended = {n.func.value.id for n in ast.walk(body) if isinstance(n, ast.Call) and isinstance(n.func, ast.Attribute)
                and n.func.attr == "append" and isinstance(n.func.value, ast.Name)}
    return {"carried": [n for n in pre_names if n in assigned], "appended": [n for n in pre_names if n in appended]}
