"""C07 -- unit conversion is exact, invertible and scale-consistent.

pyvc on core/convert.py (convert_to, convert_to_float, convert_to_si), core/dimensions/dimensions.py
(dimension_to_si_unit, with the real _si_conversions table), core/symbols/celsius.py; ground obligations on the
prefixes table; lemmas (composition, inverse, linearity, own-SI-unit) over the contracts in real arithmetic.
evaluate_expression / evaluate_quantity: bounded stand-in (executed on enumerated expressions), labelled.
"""
from __future__ import annotations

import ast
import itertools
import random
from fractions import Fraction

import z3

from ..core import seed, PKG, Ob, PROVED, REFUTED, FAULT, try_replay
from ..pyvc import (Exec, Ctx, Obj, Opt, NONE, ExcVal, Builtin, TypeRef, GenError, verify_function, discharge)
from ..contracts import frontend as FE
from ..contracts import model as M
from .. import smt
from . import c05 as C

LEVEL = "proof"
UNIT = "C07"
OFFSET = Fraction("273.15")  # from the property statement
SI_PREFIX_EXPONENTS = {"yotta": 24, "zetta": 21, "exa": 18, "peta": 15, "tera": 12, "giga": 9, "mega": 6, "kilo": 3, "hecto": 2, "deca": 1,
                       "deci": -1, "centi": -2, "milli": -3, "micro": -6, "nano": -9, "pico": -12, "femto": -15, "atto": -18, "zepto": -21, "yocto": -24}


def qobj(name):
    s, d = z3.Const(name + "_scale", M.Val), z3.Const(name + "_dim", M.Dim)
    return Obj("Quantity", {"scale_factor": s, "dimension": d}), s, d


def gate_dim_contract(ex, ctx, args, kw):
    """assert_equivalent_dimension(quantity, name, fn, expected: Dimension) -- contract proved in C04"""
    q, _, _, xd = args
    ls, ld = q.fields["scale_factor"], q.fields["dimension"]
    ok = z3.Or(M.v_is_any(ls), M.d_anycls(ld), M.d_equiv(M.d_erase_angle(ld), M.d_erase_angle(xd)))
    typ = z3.And(M.d_is_dimensionless(M.d_erase_angle(ld)), z3.Not(M.d_is_dimensionless(M.d_erase_angle(xd))))
    res = []
    for cond, val in ((ok, NONE), (z3.And(z3.Not(ok), typ), ExcVal("TypeError")), (z3.And(z3.Not(ok), z3.Not(typ)), ExcVal("UnitsError"))):
        if ex.feasible(ctx, cond):
            res.append((ctx.fork(cond), val))
    return res


def quantity_of_expr(ex, ctx, args, kw):
    """Quantity(expr) -- contract proved in C05: refused iff SR(expr); scale = SV, dimension ~ SD (unless the value is 0/oo/NaN)"""
    e = args[0]
    if isinstance(e, Obj) and e.cls == "Quantity":
        raise GenError("Quantity(Quantity)")
    if z3.is_expr(e) and e.sort() == M.Val:
        return [(ctx, Obj("Quantity", {"scale_factor": e, "dimension": M.DIMENSIONLESS}))]
    res = []
    d = ex.fresh("qdim", M.Dim)
    ok = ctx.fork(*C.spec_axioms(e), z3.Not(C.SR(e)), z3.Or(M.v_is_any(C.SV(e)), M.d_equiv(d, C.SD(e))), M.d_wf(d))
    if ex.feasible(ok):
        res.append((ok, Obj("Quantity", {"scale_factor": C.SV(e), "dimension": d})))
    bad = ctx.fork(*C.spec_axioms(e), C.SR(e))
    if ex.feasible(bad):
        res.append((bad, ExcVal("ValueError")))
    return res


def isinstance_model(ex, ctx, v, clsname):
    if clsname in ("SymQuantity", "Quantity"):
        return isinstance(v, Obj) and v.cls == "Quantity"
    raise GenError(f"isinstance(_, {clsname})")


def binop_model(ex, ctx, op, l, r):
    isv = lambda x: z3.is_expr(x) and x.sort() == M.Val
    if isv(l) and isv(r) and op == "Div":
        FE.assumed("number / number", "SymPy division of a finite number by a finite non-zero real number is exact division")
        return [(ctx, M.v_div(l, r))]
    return C.binop_model(ex, ctx, op, l, r)


def attr_model(ex, ctx, base, attr):
    if z3.is_expr(base) and base.sort() == M.Dim and attr == "name":
        return [(ctx, ("__dimname__", base))]
    if isinstance(base, TypeRef) and base.name == "S" and attr == "One":
        return [(ctx, M.v_fin(1))]
    return None


def convert_exec(contracts=None, extra=None):
    g = {"Quantity": TypeRef("Quantity"), "SymQuantity": TypeRef("SymQuantity"), "S": TypeRef("S"),
         "assert_equivalent_dimension": ("__contract__", "gate")}
    g.update(extra or {})
    c = {"gate": gate_dim_contract, "Quantity": quantity_of_expr}
    c.update(contracts or {})
    return FE.make_exec("core/convert.py", UNIT, globals_extra=g, contracts=c, models={"__binop__": binop_model},
                        isinstance_model=isinstance_model, attr_model=attr_model)


def unit_ok(s):
    """a target unit has a finite, real, non-zero scale factor"""
    return z3.And(M.v_kind(s) == M.FIN, M.Val.im(s) == 0, M.Val.re(s) != 0)


def obligations():
    obs, execs = [], []
    # ---------------- convert_to: four operand shapes
    for vk in ("quantity", "expression"):
        for uk in ("quantity", "expression"):
            ex = convert_exec()
            if vk == "quantity":
                v, vs, vd = qobj("value")
                v_ref, pre_v = z3.BoolVal(False), [M.d_wf(vd), M.v_wf(vs)]
            else:
                v = z3.Const("value_expr", M.ExprS)
                vs, vd, v_ref, pre_v = C.SV(v), C.SD(v), C.SR(v), C.spec_axioms(v) + [M.d_wf(C.SD(v))]
            if uk == "quantity":
                u, us, ud = qobj("unit")
                u_ref, pre_u = z3.BoolVal(False), [M.d_wf(ud), M.v_wf(us)]
            else:
                u = z3.Const("unit_expr", M.ExprS)
                us, ud, u_ref, pre_u = C.SV(u), C.SD(u), C.SR(u), C.spec_axioms(u) + [M.d_wf(C.SD(u))]

            def setup(ex, ctx, v=v, u=u, pre=pre_v + pre_u, us=us, u_ref=u_ref):
                ctx.assume(*pre, z3.Implies(z3.Not(u_ref), unit_ok(us)))
                return [v, u], {}, None

            def post(ex, ctx, out, info, vs=vs, vd=vd, us=us, ud=ud, v_ref=v_ref, u_ref=u_ref):
                compatible = z3.Or(M.v_is_any(vs), M.d_anycls(vd), M.d_equiv(M.d_erase_angle(vd), M.d_erase_angle(ud)))
                if out[0] == "return":
                    n = out[1]
                    yield "returns=>n*scale(unit)==scale(value)", z3.And(M.Val.re(n) * M.Val.re(us) == M.Val.re(vs), M.Val.im(n) * M.Val.re(us) == M.Val.im(vs))
                    # the dimension seen by the gate is the constructed quantity's: equivalent to the specified one unless the value is 0/oo/NaN
                    yield "returns=>dimensions-equivalent(or-value-is-0/oo/NaN)", z3.Or(compatible, M.v_is_any(us))
                    yield "returns=>operands-not-refused", z3.And(z3.Not(v_ref), z3.Not(u_ref))
                else:
                    yield "raises=>refused-operand-or-inequivalent-dimensions", z3.Or(v_ref, u_ref, z3.Not(compatible), M.v_is_any(us))

            verify_function(ex, "convert_to", setup, post)
            ex.obligations = [(n.replace("/convert_to/", f"/convert_to[value={vk},unit={uk}]/"), h, g_, s_, c_) for n, h, g_, s_, c_ in ex.obligations]
            execs.append(ex)

    # convert_to as a callee
    def convert_contract(ex, ctx, args, kw):
        v, u = args
        if not (isinstance(v, Obj) and v.cls == "Quantity"):
            raise GenError("convert_to callee: value must be a quantity here")
        vs, vd = v.fields["scale_factor"], v.fields["dimension"]
        if isinstance(u, Obj):
            us, ud, extra = u.fields["scale_factor"], u.fields["dimension"], []
        elif z3.is_expr(u) and u.sort() == M.Val:
            us, ud, extra = u, M.DIMENSIONLESS, []
        else:
            us, ud, extra = C.SV(u), C.SD(u), C.spec_axioms(u) + [z3.Not(C.SR(u))]
        ex.oblige(f"{UNIT}/{ex.current_fn}/callee-pre:convert_to-unit-scale-finite-nonzero", ctx.fork(*extra), unit_ok(us))
        compatible = z3.Or(M.v_is_any(vs), M.d_anycls(vd), M.d_equiv(M.d_erase_angle(vd), M.d_erase_angle(ud)))
        res = []
        n = ex.fresh("converted", M.Val)
        ok = ctx.fork(*extra, compatible, M.v_kind(n) == M.v_kind(vs), M.Val.re(n) * M.Val.re(us) == M.Val.re(vs), M.Val.im(n) * M.Val.re(us) == M.Val.im(vs))
        if ex.feasible(ok):
            res.append((ok, n))
        bad = ctx.fork(*extra, z3.Not(compatible))
        if ex.feasible(bad):
            res.append((bad, ExcVal("UnitsError|TypeError")))
        return res

    # ---------------- convert_to_float
    ex = convert_exec({"convert_to": convert_contract}, {"convert_to": ("__contract__", "convert_to")})
    v, vs, vd = qobj("value")

    def setup(ex, ctx):
        # no restriction on the value: complex, infinite, NaN and symbolic scale factors are all in scope
        ctx.assume(M.d_wf(vd), M.v_wf(vs))
        return [v], {}, None

    def post(ex, ctx, out, info):
        dimless = z3.Or(M.v_is_any(vs), M.d_anycls(vd), M.d_is_dimensionless(M.d_erase_angle(vd)))
        if out[0] == "return":
            r = out[1]
            if z3.is_expr(r) and r.sort() == M.Val:  # float inf/-inf/nan, represented by the extended value
                yield "returns-non-finite=>it-is-the-(non-finite)-scale-factor", z3.And(r == vs, M.v_kind(vs) != M.FIN, M.v_kind(vs) != M.SYMB)
            else:
                yield "returns=>the-value-is-real-and-the-result-is-the-scale-factor(n*1==value)", z3.And(M.v_real(vs), ex.znum(r) == M.Val.re(vs))
            yield "returns=>the-quantity-is-dimensionless", dimless
        else:
            yield "raises=>value-is-dimensional-or-has-no-float(complex/symbolic)", z3.Or(z3.Not(dimless), z3.And(M.v_kind(vs) == M.FIN, M.Val.im(vs) != 0), M.v_kind(vs) == M.SYMB)

    verify_function(ex, "convert_to_float", setup, post)
    execs.append(ex)

    # ---------------- dimension_to_si_unit with the REAL _si_conversions table
    obs_d, ex_d, si_contract = si_unit_obligations()
    obs += obs_d
    execs.append(ex_d)

    # ---------------- convert_to_si
    ex = convert_exec({"convert_to": convert_contract, "dimension_to_si_unit": si_contract},
                      {"convert_to": ("__contract__", "convert_to"), "dimension_to_si_unit": ("__contract__", "dimension_to_si_unit")})
    v, vs, vd = qobj("value")

    def setup(ex, ctx):
        ctx.assume(M.d_wf(vd), M.v_wf(vs), M.v_kind(vs) == M.FIN, z3.Not(M.d_anycls(vd)), M.dvec(vd)[8] == 0)
        return [v], {}, None

    def post(ex, ctx, out, info):
        if out[0] == "return":
            n = out[1]
            k = POW1000(M.dvec(vd)[0])
            yield "returns=>n*scale(SI-unit)==scale(value);SI-unit-scale-is-1000^mass-exponent", z3.And(M.Val.re(n) * k == M.Val.re(vs), M.Val.im(n) * k == M.Val.im(vs))
        else:
            yield "never-refuses-its-own-SI-unit", z3.BoolVal(False)

    verify_function(ex, "convert_to_si", setup, post)
    execs.append(ex)

    # ---------------- Celsius helpers
    cex = FE.make_exec("core/symbols/celsius.py", UNIT, globals_extra={"Celsius": TypeRef("Celsius")},
                       contracts={"Celsius": lambda ex, ctx, args, kw: [(ctx, Obj("Celsius", {"value": args[0] if args else 0}))]})
    cls = next(n for n in cex.tree.body if isinstance(n, ast.ClassDef) and n.name == "Celsius")
    for st in cls.body:
        if isinstance(st, ast.Assign) and isinstance(st.targets[0], ast.Name):
            try:
                val = ast.literal_eval(st.value)
                cex.globals[f"Celsius.{st.targets[0].id}"] = Fraction(repr(val)) if isinstance(val, float) else val
            except Exception:
                pass
    t = z3.Real("t")
    verify_function(cex, "to_kelvin", lambda ex, ctx: ([Obj("Celsius", {"value": t})], {}, None),
                    lambda ex, ctx, out, info: iter([("celsius-to-kelvin-adds-273.15", ex.znum(out[1]) == t + z3.RealVal(str(OFFSET)) if out[0] == "return" else z3.BoolVal(False))]))
    verify_function(cex, "from_kelvin", lambda ex, ctx: ([t], {}, None),
                    lambda ex, ctx, out, info: iter([("kelvin-to-celsius-subtracts-273.15", ex.znum(out[1].fields["value"]) == t - z3.RealVal(str(OFFSET))
                                                      if out[0] == "return" and isinstance(out[1], Obj) else z3.BoolVal(False))]))
    execs.append(cex)
    from ..contracts import refimpl
    conc = refimpl.concretizer("convert", seed())
    for ex in execs:
        ex.obligations = [(n, h, g_, s_, c_ or conc) for n, h, g_, s_, c_ in ex.obligations]
        obs.extend(discharge(ex, UNIT))

    # ---------------- lemmas over the contracts
    a, b, c_ = z3.Reals("scale_a scale_b scale_c")
    conv = lambda x, y: x / y
    lem = [("composition:a->b->c==a->c", [b != 0, c_ != 0], conv(a, b) * conv(b, c_) == conv(a, c_)),
           ("inverse:a->b->a", [a != 0, b != 0], conv(a, b) * conv(b, a) == 1),
           ("n-times-unit-equals-quantity", [b != 0], conv(a, b) * b == a),
           ("linear-in-the-quantity", [b != 0], conv(a * c_, b) == c_ * conv(a, b)),
           ("celsius-kelvin-round-trip", [], (t + z3.RealVal(str(OFFSET))) - z3.RealVal(str(OFFSET)) == t),
           ("kelvin-celsius-round-trip", [], (t - z3.RealVal(str(OFFSET))) + z3.RealVal(str(OFFSET)) == t)]
    for nm, hyps, goal in lem:
        ob, _ = smt.prove(f"{UNIT}/lemma/{nm}", hyps, goal)
        obs.append(ob)
    obs += prefix_obligations()
    obs += atoms_class_obligation()
    return execs, obs


POW1000 = z3.Function("pow1000", z3.RealSort(), z3.RealSort())  # 1000**x


def si_unit_obligations():
    """dimension_to_si_unit: loop over the dimensional dependencies with the real `_si_conversions` literal"""
    import sympy
    from sympy.physics import units as U
    from sympy.physics.units.systems.si import dimsys_SI
    base = [U.mass, U.length, U.time, U.current, U.temperature, U.amount_of_substance, U.luminous_intensity]
    base_names = ["mass", "length", "time", "current", "temperature", "amount_of_substance", "luminous_intensity"]
    unit_consts = {}
    for nm in ("meter", "kilogram", "second", "ampere", "kelvin", "mole", "candela", "gram", "centimeter", "kilometer", "millisecond", "radian"):
        q = getattr(U, nm)
        deps = dimsys_SI.get_dimensional_dependencies(q.dimension)
        vec = [Fraction(str(sympy.nsimplify(deps.get(b, 0)))) for b in base] + [Fraction(str(sympy.nsimplify(deps.get(U.definitions.dimension_definitions.angle, 0)))), Fraction(0)]
        unit_consts[nm] = (Fraction(str(sympy.nsimplify(q.scale_factor))), vec)
    FE.assumed("unit table", "scale factors and dimensions of sympy.physics.units meter/kilogram/second/ampere/kelvin/mole/candela (kilogram.scale_factor == 1000: gram-referenced)")

    class UQ:  # abstract accumulated unit expression: (scale as z3 Real product term, dimension vector)
        def __init__(self, scale, vec):
            self.scale, self.vec = scale, vec

    n = [z3.Real(f"n_{b}") for b in base_names] + [z3.Real("n_angle")]
    dimkeys = [TypeRef(f"units.{b}") for b in base_names] + [TypeRef("units.angle_dim")]

    def attr(ex, ctx, base_, attr_):
        if isinstance(base_, TypeRef) and base_.name == "units":
            if attr_ in base_names:
                return [(ctx, TypeRef(f"units.{attr_}"))]
            if attr_ in unit_consts:
                s, vec = unit_consts[attr_]
                return [(ctx, UQ(z3.RealVal(str(s)), [z3.RealVal(str(x)) for x in vec]))]
        if isinstance(base_, TypeRef) and base_.name == "S" and attr_ == "One":
            return [(ctx, UQ(z3.RealVal(1), [z3.RealVal(0)] * 9))]
        if isinstance(base_, TypeRef) and base_.name == "dimsys_SI" and attr_ == "get_dimensional_dependencies":
            FE.assumed("dimsys_SI.get_dimensional_dependencies", "returns the base-dimension exponents of a dimension (non-zero entries; zero entries would contribute unit**0 = 1)")
            return [(ctx, Builtin("get_dimensional_dependencies", lambda ex, c, a, k: [(c, dict(zip(dimkeys, n)))]))]
        return None

    PW = z3.Function("rpow", z3.RealSort(), z3.RealSort(), z3.RealSort())

    def binop(ex, ctx, op, l, r):
        if isinstance(l, UQ) and op == "Pow":
            r = ex.znum(r)
            s = z3.RealVal(1) if z3.is_rational_value(l.scale) and l.scale.as_fraction() == 1 else (POW1000(r) if z3.is_rational_value(l.scale) and l.scale.as_fraction() == 1000 else PW(l.scale, r))
            return [(ctx, UQ(s, [x * r for x in l.vec]))]
        if isinstance(l, UQ) and isinstance(r, UQ) and op == "Mult":
            return [(ctx, UQ(l.scale * r.scale, [x + y for x, y in zip(l.vec, r.vec)]))]
        return None

    def havoc(ex, v, name):
        return None

    ex = FE.make_exec("core/dimensions/dimensions.py", UNIT, globals_extra={"units": TypeRef("units"), "S": TypeRef("S"), "dimsys_SI": TypeRef("dimsys_SI")},
                      models={"__binop__": binop}, attr_model=attr)
    # the real `_si_conversions = {...}` literal, evaluated from the module AST
    node = next(st.value for st in ex.tree.body if isinstance(st, ast.Assign) and isinstance(st.targets[0], ast.Name) and st.targets[0].id == "_si_conversions")
    (c0, table), = ex.eval(node, Ctx())
    ex.globals["_si_conversions"] = table
    d = z3.Const("dimension", M.Dim)

    def setup(ex, ctx):
        return [d], {}, None

    def post(ex, ctx, out, info):
        if out[0] != "return" or not isinstance(out[1], UQ):
            yield "returns-a-unit-expression", z3.BoolVal(False)
            return
        u = out[1]
        for i, b in enumerate(base_names):
            yield f"unit-has-the-dimension:{b}-exponent", u.vec[i] == n[i]
        yield "unit-has-no-angle-dimension", u.vec[7] == 0
        yield "unit-scale-is-1000^mass-exponent(SI:kilogram)", u.scale == POW1000(n[0])

    verify_function(ex, "dimension_to_si_unit", setup, post)

    def si_contract(ex2, ctx, args, kw):
        dd = args[0]
        u = ex2.fresh("si_unit", M.ExprS)
        c = ctx.fork(*C.spec_axioms(u), z3.Not(C.SR(u)), M.v_kind(C.SV(u)) == M.FIN, M.Val.im(C.SV(u)) == 0, M.Val.re(C.SV(u)) == POW1000(M.dvec(dd)[0]),
                     POW1000(M.dvec(dd)[0]) > 0, M.d_equiv(M.d_erase_angle(C.SD(u)), M.d_erase_angle(dd)), M.d_wf(C.SD(u)))
        return [(c, u)]

    return [], ex, si_contract


def atoms_class_obligation():
    """evaluate_expression iterates expr.atoms(<cls>): the class must cover every quantity atom (SymPy's Quantity base class),
    otherwise raw unit quantities stay unevaluated.  Resolved from the AST + the real module namespace."""
    import importlib
    import sympy.physics.units as U
    mod = importlib.import_module("symplyphysics.core.convert")
    tree = ast.parse((PKG / "core/convert.py").read_text())
    fn = next(n for n in ast.walk(tree) if isinstance(n, ast.FunctionDef) and n.name == "evaluate_expression")
    calls = [n for n in ast.walk(fn) if isinstance(n, ast.Call) and isinstance(n.func, ast.Attribute) and n.func.attr == "atoms"]
    ok, detail = bool(calls), "no .atoms(...) call found"
    for c in calls:
        names = [a.id for a in c.args if isinstance(a, ast.Name)]
        for nm in names:
            cls = getattr(mod, nm, None)
            if not (isinstance(cls, type) and issubclass(U.Quantity, cls)):
                ok, detail = False, f"atoms({nm}) does not cover sympy.physics.units.Quantity"
        if not names:
            ok, detail = False, "atoms() called without a quantity class"
    ob = Ob(f"{UNIT}/evaluate_expression/callee-pre:atoms-class-covers-every-quantity-atom", PROVED if ok else REFUTED, "ast-scan", 0.0, "" if ok else detail, "")
    if not ok:
        ob.replay = try_replay("from vf.contracts.refimpl import replay_convert\nreplay_convert(('evaluate', 0))\n")
    return [ob]


def prefix_obligations():
    obs = []
    tree = ast.parse((PKG / "core/symbols/prefixes.py").read_text())
    call = next(n for n in ast.walk(tree) if isinstance(n, ast.Call) and isinstance(n.func, ast.Name) and n.func.id == "Prefixes")
    found = {}
    for k in call.keywords:
        try:
            v = eval(compile(ast.Expression(k.value), "prefixes", "eval"), {"__builtins__": {}})
            found[k.arg] = Fraction(v) if not isinstance(v, float) else Fraction(repr(v))
        except Exception:
            found[k.arg] = None
    for name, exp in SI_PREFIX_EXPONENTS.items():
        got = found.get(name)
        want = Fraction(10) ** exp
        x = z3.Real("x")
        if got is None:
            obs.append(Ob(f"{UNIT}/prefixes.{name}/equals-10^{exp}", REFUTED, "ground", 0.0, "entry missing or not a literal", name, {"reproduced": False, "script": None}))
            continue
        ob, _ = smt.prove(f"{UNIT}/prefixes.{name}/equals-10^{exp}", [x == z3.Q(got.numerator, got.denominator)], x == z3.Q(want.numerator, want.denominator), signature=name)
        if ob.verdict == REFUTED:
            ob.replay = try_replay(f"from symplyphysics.core.symbols.prefixes import prefixes\nfrom fractions import Fraction\n"
                                   f"assert Fraction(prefixes.{name}).limit_denominator(10**30) == Fraction(10)**{exp}, ('prefixes.{name}', prefixes.{name})\n")
        obs.append(ob)
    extra = set(found) - set(SI_PREFIX_EXPONENTS)
    obs.append(Ob(f"{UNIT}/prefixes/table-has-exactly-the-20-SI-prefixes", PROVED if not extra and len(found) == 20 else REFUTED, "ground", 0.0, f"extra: {sorted(extra)}", "",
                  None if not extra else {"reproduced": False, "script": None}))
    return obs


def bounded_evaluate(report):
    """evaluate_expression / evaluate_quantity / *_kelvin_quantity on enumerated expressions (bounded stand-in, executed)"""
    import sympy as sp
    from sympy.physics import units as U
    from sympy.physics.units import Quantity as SymQuantity
    from symplyphysics import Quantity
    from symplyphysics.core.convert import evaluate_expression, evaluate_quantity, convert_to_si, convert_to
    from symplyphysics.core.symbols.celsius import Celsius, to_kelvin_quantity, from_kelvin_quantity
    rng = random.Random(seed())
    qs = [Quantity(sp.Rational(rng.randint(1, 40), rng.randint(1, 9)) * u) for u in (U.meter, U.kilometer, U.gram, U.kilogram, U.second, U.newton, U.joule / U.kelvin, U.ampere)]
    x = sp.Symbol("x")
    failures, count = [], 0
    exprs = [a + b * x for a, b in itertools.combinations(qs, 2)] + [a * b / (x + a) for a, b in itertools.combinations(qs[:5], 2)] + [sp.sqrt(a) * x**2 for a in qs] + [sp.sin(x) * a - b for a, b in zip(qs, qs[1:])]
    for e in exprs:
        count += 1
        r = evaluate_expression(e)
        want = e.subs({q: convert_to_si(q) for q in e.atoms(SymQuantity)})
        bad = bool(r.atoms(SymQuantity)) or sp.simplify(r - want) != 0
        if bad:
            failures.append({"name": f"{UNIT}/bounded/evaluate_expression({e})", "detail": f"result {r}", "replay": {"reproduced": True, "script": None}})
    for q in qs:
        count += 1
        r = evaluate_quantity(q)
        if abs(complex(r.scale_factor) - complex(q.scale_factor)) > 1e-9 * abs(complex(q.scale_factor)) or r.dimension != q.dimension:
            failures.append({"name": f"{UNIT}/bounded/evaluate_quantity({q.scale_factor})", "detail": f"{r.scale_factor}", "replay": {"reproduced": True, "script": None}})
    for tval in [-273.15, -40, 0, 36.6, 100, 1e4]:
        count += 1
        k = to_kelvin_quantity(Celsius(tval))
        back = from_kelvin_quantity(k).value
        if abs(float(convert_to(k, U.kelvin)) - (tval + 273.15)) > 1e-9 or abs(back - tval) > 1e-9:
            failures.append({"name": f"{UNIT}/bounded/kelvin_quantity({tval})", "detail": f"{k.scale_factor}, {back}", "replay": {"reproduced": True, "script":
                             "from symplyphysics.core.symbols.celsius import Celsius, to_kelvin_quantity, from_kelvin_quantity\nfrom symplyphysics.core.convert import convert_to\nfrom sympy.physics import units as U\n"
                             f"k = to_kelvin_quantity(Celsius({tval}))\nassert abs(float(convert_to(k, U.kelvin)) - ({tval} + 273.15)) < 1e-9 and abs(from_kelvin_quantity(k).value - ({tval})) < 1e-9, (k.scale_factor, k.dimension)\n"}})
    from ..contracts import refimpl
    t, why, n = refimpl.search_convert()
    count += n
    if t is not None:
        failures.append({"name": f"{UNIT}/audit/{t}", "detail": why, "replay": {"reproduced": True, "script": f"from vf.contracts.refimpl import replay_convert\nreplay_convert({t!r})\n"}})
    report.add_bounded("evaluate_expression / evaluate_quantity / to_kelvin_quantity / from_kelvin_quantity executed on enumerated inputs",
                       f"{len(exprs)} expressions over 8 seeded quantities, 8 quantities, 6 temperatures", count, not failures, failures)


def run(report):
    from ..pyvc import GenError as _GenError
    from ..contracts import refimpl as _refimpl
    try:
        _run(report)
    except Exception as e:  # left the modelled subset: fault + executable-contract search
        _refimpl.generation_fallback(report, 'convert', UNIT, f"{type(e).__name__}: {e}", seed())


def _run(report):
    execs, obs = obligations()
    report.extend(obs)
    for f, rel in (("convert.convert_to", "core/convert.py"), ("convert.convert_to_float", "core/convert.py"), ("convert.convert_to_si", "core/convert.py"),
                   ("dimensions.dimensions.dimension_to_si_unit", "core/dimensions/dimensions.py"), ("symbols.celsius.to_kelvin", "core/symbols/celsius.py"),
                   ("symbols.celsius.from_kelvin", "core/symbols/celsius.py"), ("symbols.prefixes.prefixes", "core/symbols/prefixes.py")):
        report.function("symplyphysics.core." + f, PKG / rel)
    bounded_evaluate(report)
    report.add_out_of_reach("evaluate_expression / evaluate_quantity / *_kelvin_quantity as for-all proofs",
                            "they go through Expr.atoms / Expr.subs / evalf / sympy's own convert_to; only a bounded executed stand-in is given")
    report.extra["callee_contracts_used"] = sorted(set().union(*[x.used_contracts for x in execs]))
    from . import c04 as _c04
    _c04.shared_callee_obligations(report, UNIT)
    from ..contracts import audit
    audit.run(report)
    report.trust("CPython 3.12 (subset of DESIGN 3.A)", "z3 5.1 / cvc5 1.4", "contracts of assert_equivalent_dimension (C04) and Quantity(expr) (C05)",
                 "sympy.physics.units scale table (kilogram.scale_factor == 1000)")
    report.assume(*[f"{k}: {v}" for k, v in FE.ASSUMED.items()])
    report.assume("'SI unit / scale factor' is read in SymPy's gram-referenced SI scale: scale(SI unit of d) = 1000^(mass exponent of d)",
                  "target units have a finite, real, non-zero scale factor", "floats are mathematical reals")
