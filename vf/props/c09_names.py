def run(report):
    pass
