"""C09, names / clones / printing half.

pyvc: next_name, _process_subscript_and_names, DimensionSymbol.__init__, Symbol.__new__/__init__, clone_as_symbol,
clone_as_function, clone_as_indexed, SymbolPrinter._print_Symbol; ground obligations on the set of name prefixes used in
the tree; bounded stand-in for SymPy-level non-aliasing (assumed structural equality).
"""
from __future__ import annotations

import ast
import itertools
import re

import z3

from ..core import PKG, Ob, PROVED, REFUTED, FAULT, try_replay
from ..pyvc import Exec, Ctx, Obj, Opt, NONE, NoneVal, ExcVal, Builtin, TypeRef, GenError, verify_function, discharge
from ..contracts import frontend as FE
from ..contracts import model as M

UNIT = "C09"
S = z3.StringSort()
DEC = z3.Function("decimal", z3.IntSort(), S)  # str(int): ASSUMED injective, digits only


def opt_str(name):
    return Opt(z3.Bool(name + "_is_none"), z3.String(name))


def str_builtin(ex, ctx, args, kw):
    x = args[0]
    if z3.is_expr(x) and z3.is_int(x):
        FE.assumed("str(int)", "decimal representation: injective, consists of digits only")
        return [(ctx, DEC(x))]
    if isinstance(x, tuple) and x and x[0] == "__name_of__":
        return [(ctx, x[1])]
    if z3.is_expr(x) and x.sort() == S:
        return [(ctx, x)]
    if isinstance(x, str):
        return [(ctx, x)]
    raise GenError(f"str({x!r})")


def truth_model(ex, v):
    if isinstance(v, dict):
        return len(v) > 0
    if isinstance(v, Obj):
        return True
    return None


def run(report):
    obs, execs = [], []
    src = "core/symbols/symbols.py"
    # ---------------- next_name (callee contract: next_id, proved in c09.py)
    issued = z3.Function("last_issued", S, z3.IntSort())

    def next_id_contract(ex, ctx, args, kw):
        base = args[0] if args else ""
        base = z3.StringVal(base) if isinstance(base, str) else base
        r = ex.fresh("id", z3.IntSort())
        c = ctx.fork(r == issued(base) + 1, issued(base) >= 0)
        c.ghost.setdefault("next_id_calls", [])
        c.ghost["next_id_calls"] = list(c.ghost["next_id_calls"]) + [(base, r)]
        return [(c, r)]

    g = {"next_id": ("__contract__", "next_id"), "str": Builtin("str", str_builtin)}
    ex = FE.make_exec(src, UNIT, globals_extra=g, contracts={"next_id": next_id_contract})
    prefix = z3.String("name")
    verify_function(ex, "next_name", lambda ex, ctx: ([prefix], {}, None),
                    lambda ex, ctx, out, info: iter([("result==prefix++decimal(fresh-id-of-that-prefix)",
                                                      z3.And(len(ctx.ghost.get("next_id_calls", [])) == 1, out[1] == z3.Concat(prefix, DEC(ctx.ghost["next_id_calls"][0][1])))
                                                      if out[0] == "return" and ctx.ghost.get("next_id_calls") else z3.BoolVal(False)),
                                                     ("draws-exactly-one-id-from-a-counter-determined-by-the-prefix",
                                                      z3.BoolVal(len(ctx.ghost.get("next_id_calls", [])) == 1 and (z3.eq(ctx.ghost["next_id_calls"][0][0], prefix) or
                                                                                                                  z3.is_string_value(ctx.ghost["next_id_calls"][0][0]))))]))
    execs.append(ex)

    # ---------------- _process_subscript_and_names
    ex = FE.make_exec(src, UNIT, globals_extra=g)
    code, latex, sub = z3.String("code_name"), z3.String("latex_name"), opt_str("subscript")

    def post_sub(ex, ctx, out, info):
        if out[0] != "return":
            yield "never-raises", z3.BoolVal(False)
            return
        c, l = out[1]
        c = z3.StringVal(c) if isinstance(c, str) else c
        l = z3.StringVal(l) if isinstance(l, str) else l
        has = z3.And(z3.Not(sub.is_none), z3.Length(sub.val) > 0)
        yield "subscript-appended-to-code-name-as-_s", c == z3.If(has, z3.Concat(code, z3.StringVal("_"), sub.val), code)
        yield "subscript-appended-to-latex-name-as-_{s}", l == z3.If(has, z3.Concat(latex, z3.StringVal("_{"), sub.val, z3.StringVal("}")), latex)

    verify_function(ex, "_process_subscript_and_names", lambda ex, ctx: ([code, latex, sub], {}, None), post_sub)
    execs.append(ex)

    # ---------------- DimensionSymbol.__init__
    ex = FE.make_exec(src, UNIT, globals_extra=g)
    dn, dl, dim = z3.String("display_name"), opt_str("display_latex"), z3.Const("dimension", M.Dim)
    me = Obj("DimensionSymbol", {})

    def post_ds(ex, ctx, out, info):
        o = ctx.env["self"]
        f = o.fields
        yield "stores-dimension", f.get("_dimension") == dim if "_dimension" in f else z3.BoolVal(False)
        yield "stores-display-name", f.get("_display_name") == dn if "_display_name" in f else z3.BoolVal(False)
        want = z3.If(z3.And(z3.Not(dl.is_none), z3.Length(dl.val) > 0), dl.val, dn)
        got = f.get("_display_latex")
        yield "latex-name-is-the-given-one-or-the-display-name", (got == want) if got is not None and z3.is_expr(got) else z3.BoolVal(False)

    verify_function(ex, "DimensionSymbol.__init__", lambda ex, ctx: ([me, dn, dim], {"display_latex": dl}, None), post_ds)
    execs.append(ex)

    # ---------------- clone helpers: forwarding contract, constructor calls recorded
    def ctor(name):
        def c(ex, ctx, args, kw):
            cc = ctx.fork()
            cc.ghost["ctor"] = (name, tuple(args), dict(kw))
            return [(cc, Obj(name, {"__made__": True}))]
        return c

    sub_contract_calls = {}

    def process_contract(ex, ctx, args, kw):
        c_, l_, s_ = args

        def as_str(x, what):
            # callee precondition (annotation `str`): the names handed over are strings, never None
            if isinstance(x, Opt):
                ex.oblige(f"{UNIT}/{ex.current_fn}/callee-pre:_process_subscript_and_names-{what}-is-a-string(not-None)", ctx, z3.Not(x.is_none))
                return x.val
            return x
        c_, l_ = as_str(c_, "code_name"), as_str(l_, "latex_name")
        has = z3.And(z3.Not(s_.is_none), z3.Length(s_.val) > 0) if isinstance(s_, Opt) else z3.BoolVal(False)
        cc = ctx.fork()
        cc.ghost["process_args"] = (c_, l_, s_)
        return [(cc, (z3.If(has, z3.Concat(c_, z3.StringVal("_"), s_.val), c_), z3.If(has, z3.Concat(l_, z3.StringVal("_{"), s_.val, z3.StringVal("}")), l_)))]

    src_name, src_latex, src_dim = z3.String("source_display_name"), z3.String("source_display_latex"), z3.Const("source_dimension", M.Dim)
    SRC_ASSUME = {"positive": True, "real": True, "zero": False, "commutative": True}  # facts that hold AND facts that do not
    source = Obj("Symbol", {"display_name": src_name, "display_latex": src_latex, "dimension": src_dim, "assumptions0": dict(SRC_ASSUME)})
    dsym, dlat, subs = opt_str("display_symbol"), opt_str("display_latex"), opt_str("subscript")
    has_sub = z3.And(z3.Not(subs.is_none), z3.Length(subs.val) > 0)
    base_code = z3.If(z3.And(z3.Not(dsym.is_none), z3.Length(dsym.val) > 0), dsym.val, src_name)
    base_latex = z3.If(z3.And(z3.Not(dlat.is_none), z3.Length(dlat.val) > 0), dlat.val, src_latex)
    want_code = z3.If(has_sub, z3.Concat(base_code, z3.StringVal("_"), subs.val), base_code)
    want_latex = z3.If(has_sub, z3.Concat(base_latex, z3.StringVal("_{"), subs.val, z3.StringVal("}")), base_latex)

    for fn, cls, has_subscript, extra_pos in (("clone_as_symbol", "Symbol", True, 0), ("clone_as_function", "Function", True, 1), ("clone_as_indexed", "IndexedSymbol", False, 1)):
        for passed in ({}, {"negative": True}):
            gg = dict(g)
            gg.update({"Symbol": TypeRef("Symbol"), "Function": TypeRef("Function"), "IndexedSymbol": TypeRef("IndexedSymbol"),
                       "_process_subscript_and_names": ("__contract__", "process")})
            ex = FE.make_exec(src, UNIT, globals_extra=gg, contracts={"Symbol": ctor("Symbol"), "Function": ctor("Function"), "IndexedSymbol": ctor("IndexedSymbol"),
                                                                      "process": process_contract}, models={"__truth__": truth_model})
            second = Obj("ArgumentsOrIndex", {})

            def setup(ex, ctx, fn=fn, passed=passed, extra_pos=extra_pos, has_subscript=has_subscript):
                kw = {"display_symbol": dsym, "display_latex": dlat}
                if has_subscript:
                    kw["subscript"] = subs
                kw.update(passed)
                return [source] + ([second] if extra_pos else []), kw, None

            def post(ex, ctx, out, info, cls=cls, passed=passed, has_subscript=has_subscript, extra_pos=extra_pos):
                made = ctx.ghost.get("ctor")
                if out[0] != "return" or made is None or made[0] != cls:
                    yield f"constructs-a-{cls}", z3.BoolVal(False)
                    return
                _, a, k = made
                wc, wl = (want_code, want_latex) if has_subscript else (base_code, base_latex)
                isstr = lambda v: z3.is_expr(v) and v.sort() == S
                yield "clone-display-name:override-or-source's(+_subscript)", (a[0] == wc) if a and isstr(a[0]) else z3.BoolVal(False)
                dpos = 1 + extra_pos
                yield "clone-keeps-the-source-dimension", a[dpos] == src_dim if len(a) > dpos and z3.is_expr(a[dpos]) else z3.BoolVal(False)
                kl = k.get("display_latex")
                yield "clone-latex-name:override-or-source's(+_{subscript})", (kl == wl) if kl is not None and isstr(kl) else z3.BoolVal(False)
                fwd = {x: y for x, y in k.items() if x != "display_latex"}
                want = passed if passed else SRC_ASSUME
                yield ("clone-assumptions:passed-ones" if passed else "clone-assumptions:source's-when-none-are-passed"), z3.BoolVal(fwd == want)
                if extra_pos:
                    yield "forwards-arguments/index", z3.BoolVal(a[1] is second or (isinstance(a[1], Obj) and a[1].cls == "ArgumentsOrIndex"))

            verify_function(ex, fn, setup, post)
            tag = f"{fn}[assumptions={'passed' if passed else 'none'}]"
            ex.obligations = [(n.replace(f"/{fn}/", f"/{tag}/"), h, g_, s_, c_ or _clone_conc(fn, bool(passed))) for n, h, g_, s_, c_ in ex.obligations]
            execs.append(ex)

    # ---------------- Symbol.__new__ / __init__ : internal name is next_name("SYM"), display name kept separately
    def symnew(ex, ctx, args, kw):
        cc = ctx.fork()
        cc.ghost["sym_new"] = (tuple(args), dict(kw))
        return [(cc, Obj("Symbol", {"name": args[1]}))]

    fresh = z3.String("fresh_name")

    def next_name_contract(ex, ctx, args, kw):
        cc = ctx.fork()
        cc.ghost["next_name_prefix"] = args[0]
        return [(cc, fresh)]

    gg = dict(g)
    gg.update({"SymSymbol": TypeRef("SymSymbol"), "next_name": ("__contract__", "next_name")})
    ex = FE.make_exec(src, UNIT, globals_extra=gg, contracts={"next_name": next_name_contract},
                      models={"__method__": lambda ex, ctx, base, attr, args, kw: (symnew(ex, ctx, args, kw) if isinstance(base, TypeRef) and base.name == "SymSymbol" and attr == "__new__" else None)},
                      attr_model=lambda ex, ctx, base, attr: ([(ctx, ("__method__", base, attr))] if isinstance(base, TypeRef) and base.name == "SymSymbol" else None))
    verify_function(ex, "Symbol.__new__", lambda ex, ctx: ([TypeRef("Symbol"), opt_str("display_symbol"), z3.Const("dimension", M.Dim)], {"display_latex": opt_str("display_latex"), "real": True}, None),
                    lambda ex, ctx, out, info: iter([
                        ("internal-name-is-a-fresh-generated-name(prefix-SYM)", z3.BoolVal(ctx.ghost.get("next_name_prefix") == "SYM" and ctx.ghost.get("sym_new") is not None and
                                                                                         ctx.ghost["sym_new"][0][1] is fresh)),
                        ("display-name-is-not-used-as-the-SymPy-name;assumptions-forwarded", z3.BoolVal(ctx.ghost.get("sym_new") is not None and ctx.ghost["sym_new"][1] == {"real": True}))]),
                    concretize=lambda model, name: try_replay("from vf.props.c09_names import replay_bounded\nreplay_bounded()\n"))
    execs.append(ex)

    # ---------------- coordinate systems: every construction / transform draws a fresh SYS name for a NEW inner system
    csrc = "core/coordinate_systems/coordinate_systems.py"

    def cs_exec():
        rec = {}

        def nn(ex, ctx, args, kw):
            cc = ctx.fork()
            cc.ghost["next_name_calls"] = list(cc.ghost.get("next_name_calls", [])) + [args[0]]
            return [(cc, z3.String(f"fresh_name_{len(cc.ghost['next_name_calls'])}"))]

        def coordsys3d(ex, ctx, args, kw):
            cc = ctx.fork()
            cc.ghost["inner_created"] = ("CoordSys3D", args[0])
            return [(cc, Obj("CoordSys3D", {"name": args[0], "__new__": True}))]

        def cs_ctor(ex, ctx, args, kw):
            cc = ctx.fork()
            cc.ghost["cs_ctor"] = tuple(args)
            return [(cc, Obj("CoordinateSystem", {"_coord_system_type": args[0], "_coord_system": args[1] if len(args) > 1 else NONE, "__made__": True}))]

        def method(ex, ctx, base, attr, args, kw):
            if isinstance(base, Obj) and base.cls == "CoordSys3D" and attr == "create_new":
                cc = ctx.fork()
                cc.ghost["inner_created"] = ("create_new", args[0])
                return [(cc, Obj("CoordSys3D", {"name": args[0], "__new__": True}))]
            return None

        def attr(ex, ctx, base, attr_):
            if isinstance(base, TypeRef) and base.name == "CoordinateSystem":
                if attr_ == "system_to_base_scalars":
                    return [(ctx, Builtin("system_to_base_scalars", lambda ex, c, a, k: [(c, ("__names__", a[0]))]))]
                if attr_ == "System":
                    return [(ctx, TypeRef("CoordinateSystem.System"))]
            if isinstance(base, TypeRef) and base.name == "CoordinateSystem.System":
                return [(ctx, {"CARTESIAN": 0, "CYLINDRICAL": 1, "SPHERICAL": 2}[attr_])]
            if isinstance(base, Obj) and base.cls == "CoordinateSystem" and attr_ == "coord_system":
                return [(ctx, base.fields["_coord_system"])]
            if isinstance(base, Obj) and base.cls == "CoordinateSystem" and attr_ == "coord_system_type":
                return [(ctx, base.fields["_coord_system_type"])]
            return None
        gg = {"next_name": ("__contract__", "next_name"), "CoordSys3D": TypeRef("CoordSys3D"), "CoordinateSystem": TypeRef("CoordinateSystem")}
        return FE.make_exec(csrc, UNIT, globals_extra=gg, contracts={"next_name": nn, "CoordSys3D": coordsys3d, "CoordinateSystem": cs_ctor},
                            models={"__method__": method}, attr_model=attr)

    ex = cs_exec()
    src_type, new_type = z3.Int("from_type"), z3.Int("coord_system_type")
    old_inner = Obj("CoordSys3D", {"name": z3.String("old_inner_name")})
    from_sys = Obj("CoordinateSystem", {"_coord_system_type": src_type, "_coord_system": old_inner})

    def post_ct(ex, ctx, out, info):
        made = ctx.ghost.get("cs_ctor")
        inner = ctx.ghost.get("inner_created")
        names = ctx.ghost.get("next_name_calls", [])
        ok = (out[0] == "return" and isinstance(out[1], Obj) and out[1].fields.get("__made__") and made is not None and inner is not None and inner[0] == "create_new"
              and len(names) == 1 and names[0] == "SYS" and len(made) == 2 and isinstance(made[1], Obj) and made[1].fields.get("__new__") is True)
        yield "returns-a-NEW-coordinate-system-over-a-freshly-named-inner-system(for-every-source-and-target-type,same-type-included)", z3.BoolVal(bool(ok))
        if ok:
            yield "new-system-has-the-requested-type", made[0] == new_type if z3.is_expr(made[0]) else z3.BoolVal(False)

    verify_function(ex, "coordinates_transform", lambda ex, ctx: (ctx.assume(src_type >= 0, src_type <= 2, new_type >= 0, new_type <= 2), ([from_sys, new_type], {}, None))[1], post_ct)
    execs.append(ex)

    ex = cs_exec()
    me_cs = Obj("CoordinateSystem", {})

    def post_ci(ex, ctx, out, info):
        o = ctx.env["self"]
        inner = ctx.ghost.get("inner_created")
        names = ctx.ghost.get("next_name_calls", [])
        got = o.fields.get("_coord_system")
        yield "without-inner:creates-a-freshly-named-CoordSys3D(prefix-SYS)", z3.BoolVal(bool(inner is not None and inner[0] == "CoordSys3D" and names == ["SYS"] and isinstance(got, Obj) and got.fields.get("__new__") is True))
        yield "stores-the-type", o.fields.get("_coord_system_type") == new_type if z3.is_expr(o.fields.get("_coord_system_type")) else z3.BoolVal(False)

    verify_function(ex, "CoordinateSystem.__init__", lambda ex, ctx: (ctx.assume(new_type >= 0, new_type <= 2), ([me_cs, new_type], {}, None))[1], post_ci)
    execs.append(ex)

    for ex in execs:
        obs.extend(discharge(ex, UNIT))

    # ---------------- prefixes used in the tree: alphabetic, so prefix++digits is injective on (prefix, n)
    prefixes, sites = set(), []
    for p in sorted(PKG.rglob("*.py")):
        try:
            t = ast.parse(p.read_text())
        except SyntaxError:
            continue
        for n in ast.walk(t):
            if isinstance(n, ast.Call) and isinstance(n.func, ast.Name) and n.func.id in ("next_name", "next_id"):
                rel = f"{p.relative_to(PKG)}:{n.lineno}"
                if n.args and isinstance(n.args[0], ast.Constant) and isinstance(n.args[0].value, str):
                    prefixes.add((n.func.id, n.args[0].value))
                    sites.append(rel)
                elif not n.args and n.func.id == "next_id":
                    prefixes.add(("next_id", ""))
                elif n.args and isinstance(n.args[0], ast.Name) and str(p).endswith("symbols.py") and n.func.id == "next_id":
                    pass  # next_name's own forwarding call
                else:
                    obs.append(Ob(f"{UNIT}/prefixes/call-with-non-literal-prefix@{rel}", REFUTED, "ast-scan", 0.0, ast.unparse(n), rel, {"reproduced": False, "script": None}))
    name_prefixes = sorted({p for f, p in prefixes if f == "next_name"})
    ok = all(p.isalpha() for p in name_prefixes) and len(name_prefixes) >= 4
    obs.append(Ob(f"{UNIT}/prefixes/generated-name-prefixes-are-alphabetic(so prefix++decimal(n) is injective)", PROVED if ok else REFUTED, "ast-scan", 0.0,
                  f"prefixes: {name_prefixes}", "", None if ok else {"reproduced": False, "script": None}))
    # lemma (strings): for alphabetic p, q and digit strings a, b: p++a == q++b and p != q is impossible when neither ends in a digit
    report.extend(obs)
    report.extra["name_prefixes"] = name_prefixes
    report.extra["name_generation_sites"] = len(sites)
    for f in ("next_name", "_process_subscript_and_names", "DimensionSymbol.__init__", "Symbol.__new__", "clone_as_symbol", "clone_as_function", "clone_as_indexed"):
        report.function(f"symplyphysics.core.symbols.symbols.{f}", PKG / src)
    bounded_aliasing(report)
    clone_battery(report)


# source assumption sets for the executable clone contract: facts that hold and facts that do not
CLONE_FACTS = [{"positive": True}, {"positive": False}, {"zero": False, "real": True}, {"integer": False}, {"nonnegative": False, "real": True}, {"real": False}, {}]


def _clone_conc(fn, passed):
    def conc(model, name):
        script = (
            "from symplyphysics import Symbol, units, clone_as_symbol, clone_as_function\n"
            "from symplyphysics.core.symbols.symbols import clone_as_indexed\n"
            "src = Symbol('m', units.mass, display_latex='\\\\mu', positive=True)\n"
            f"kw = {({'negative': True} if passed else {})!r}\n"
            + {"clone_as_symbol": "c = clone_as_symbol(src, subscript='0', **kw)\nname, latex, asm = c.display_name, c.display_latex, c.assumptions0\n",
               "clone_as_function": "c = clone_as_function(src, [src], subscript='0', **kw)\nname, latex, asm = c.display_name, c.display_latex, c(src).assumptions0\n",
               "clone_as_indexed": "c = clone_as_indexed(src, **kw)\nname, latex, asm = c.display_name + '_0', c.display_latex + '_{0}', c.assumptions0\n"}[fn] +
            "assert c.dimension == src.dimension, ('dimension', c.dimension)\n"
            "assert name == 'm_0' and latex == '\\\\mu_{0}', (name, latex)\n"
            + ("assert asm.get('negative') is True, asm\n" if passed else "assert asm.get('positive') is True, ('source assumptions not kept', asm)\n")
            + ("" if passed or fn == "clone_as_function" else
               "for facts in " + repr(CLONE_FACTS) + ":\n"
               "    s2 = Symbol('m', units.mass, **facts)\n"
               + ("    c2 = clone_as_symbol(s2)\n" if fn == "clone_as_symbol" else "    c2 = clone_as_indexed(s2)\n") +
               "    assert c2.assumptions0 == s2.assumptions0, ('clone does not carry the assumptions of its source', facts, s2.assumptions0, c2.assumptions0)\n"))
        return try_replay(script)
    return conc


def clone_battery(report):
    """executed contract of the clone helpers: display / LaTeX names (override or source's, + _subscript / _{subscript}), dimension, assumptions"""
    from symplyphysics import Symbol, units, clone_as_symbol, clone_as_function
    from symplyphysics.core.symbols.symbols import clone_as_indexed
    failures, count = [], 0
    sources = [Symbol("m", units.mass, display_latex="\\mu", positive=True), Symbol("m_0", units.mass, display_latex="m_{0}"), Symbol("t_12", units.time, display_latex="t_{12}"),
               clone_as_symbol(Symbol("x", units.length), subscript="0")]
    for src in sources:
        for sub in (None, "1", "0", "max", "12"):
            for ds, dl in ((None, None), ("nu", None), ("nu", "\\nu"), (None, "\\nu")):
                want_c = (ds or src.display_name) + (f"_{sub}" if sub else "")
                want_l = (dl or src.display_latex) + (f"_{{{sub}}}" if sub else "")
                for fn in ("symbol", "function"):
                    count += 1
                    try:
                        c = clone_as_symbol(src, display_symbol=ds, display_latex=dl, subscript=sub) if fn == "symbol" else \
                            clone_as_function(src, [src], display_symbol=ds, display_latex=dl, subscript=sub)
                        got = (c.display_name, c.display_latex, c.dimension == src.dimension)
                    except Exception as e:
                        got = f"raised {type(e).__name__}: {e}"
                    if got != (want_c, want_l, True):
                        failures.append({"name": "C09/bounded/clone-names", "detail": f"clone_as_{fn}({src.display_name!r}, display_symbol={ds!r}, display_latex={dl!r}, subscript={sub!r}) -> {got}, "
                                         f"contract ({want_c!r}, {want_l!r}, True)", "replay": {"reproduced": True, "script": "from vf.props.c09_names import replay_clone_battery\nreplay_clone_battery()\n"}})
    report.add_bounded("clone_as_symbol / clone_as_function: display and LaTeX names (explicit or the source's, with _subscript / _{subscript} appended as given) and dimension",
                       "4 sources (incl. names that already end in a numeric subscript) x 5 subscripts x 4 name overrides x 2 helpers", count, not failures, failures[:20])


def replay_clone_battery():
    class Stub:
        failures = []

        def add_bounded(self, what, bound, count, clean, failures=None):
            self.failures = failures or []
    st = Stub()
    clone_battery(st)
    assert not st.failures, [f["detail"] for f in st.failures[:3]]
    print("clone names as the contract says")


def bounded_aliasing(report):
    """SymPy-level non-aliasing of objects with colliding display names (assumed structural equality; bounded stand-in)"""
    import sympy as sp
    from symplyphysics import Symbol, Function, Quantity, units, clone_as_symbol, clone_as_function
    from symplyphysics.core.symbols.symbols import IndexedSymbol, print_expression
    from symplyphysics.core.coordinate_systems.coordinate_systems import CoordinateSystem
    failures, count = [], 0
    objs = []
    for i in range(12):
        objs += [Symbol("x", units.length), Symbol("x", units.length, positive=True), clone_as_symbol(objs[0] if objs else Symbol("x")), Quantity(1 * units.meter, display_symbol="x")]
    fns = [Function("x", [objs[0]], units.length) for _ in range(6)] + [clone_as_function(objs[0], [objs[1]]) for _ in range(6)]
    idx = [IndexedSymbol("x", None, units.length) for _ in range(6)]
    for a, b in itertools.combinations(objs + idx, 2):
        count += 1
        if a == b or hash(a) == hash(b) and a == b:
            failures.append({"name": f"C09/bounded/distinct-objects-compare-equal", "detail": f"{a!r} == {b!r}", "replay": {"reproduced": True, "script": None}})
    s = [o for o in objs if isinstance(o, Symbol)][:8]
    e = sum((i + 2) * v**(i + 1) for i, v in enumerate(s))
    for i, v in enumerate(s):
        count += 3
        d = sp.diff(e, v)
        if d != (i + 2) * (i + 1) * v**i:
            failures.append({"name": "C09/bounded/diff-affects-another-symbol", "detail": str(d), "replay": {"reproduced": True, "script": None}})
        r = e.subs(v, 0)
        if any(w not in r.free_symbols for w in s if w is not v) or v in r.free_symbols:
            failures.append({"name": "C09/bounded/subs-affects-another-symbol", "detail": str(r), "replay": {"reproduced": True, "script": None}})
        sol = sp.solve(sp.Eq(v * s[(i + 1) % len(s)], 1), v)
        if sol != [1 / s[(i + 1) % len(s)]]:
            failures.append({"name": "C09/bounded/solve-affects-another-symbol", "detail": str(sol), "replay": {"reproduced": True, "script": None}})
    # display names of which one is another followed by digits (a generated name built from "<display name><counter>" would collide)
    fam = [Symbol("qx", units.length) for _ in range(12)] + [Symbol("qx1", units.time), Symbol("qx11", units.mass), Symbol("qx12", units.time), Symbol("q", units.mass),
                                                                Symbol("qx_1", units.time)]
    want_names = ["qx"] * 12 + ["qx1", "qx11", "qx12", "q", "qx_1"]
    want_dims = [units.length] * 12 + [units.time, units.mass, units.time, units.mass, units.time]
    count += len(fam)
    if len({id(o) for o in fam}) != len(fam) or len(set(fam)) != len(fam) or [o.display_name for o in fam] != want_names or \
            any(o.dimension != d for o, d in zip(fam, want_dims)) or len({o.name for o in fam}) != len(fam):
        failures.append({"name": "C09/bounded/symbols-with-digit-suffixed-display-names-alias", "detail": str([(o.name, o.display_name, str(o.dimension)) for o in fam]),
                         "replay": {"reproduced": True, "script": None}})
    # a display name that LOOKS like a generated internal name (here: the internal name of another live symbol) is still only a display name
    base_sym = Symbol("m", units.mass)
    look = Symbol(str(base_sym.name), units.time)
    count += 1
    if look is base_sym or look == base_sym or base_sym.display_name != "m" or base_sym.dimension != units.mass or str(look.name) == str(base_sym.name) or \
            sp.diff(base_sym**2 + look, base_sym) != 2 * base_sym:
        failures.append({"name": "C09/bounded/display-name-equal-to-another-symbol's-internal-name-aliases-it", "detail": f"{base_sym.name} {base_sym.display_name} {base_sym.dimension} / {look.name} {look.display_name}",
                         "replay": {"reproduced": True, "script": None}})
    fa, fb = fns[0], fns[1]
    t = objs[0]
    count += 2
    if fa == fb or sp.diff(fa(t) * fb(t), t) == 2 * fa(t) * sp.diff(fa(t), t):
        failures.append({"name": "C09/bounded/functions-alias", "detail": "", "replay": {"reproduced": True, "script": None}})
    # printing shows display names, never generated internal names
    from symplyphysics.core.symbols.symbols import clone_as_indexed as _cai
    from symplyphysics import global_index as _gi
    ci = _cai(objs[0])
    printed = [objs[0], objs[3], fns[0](objs[0]), objs[0] * objs[1] + fns[1](objs[4]),
               # every kind of object the statement lists, bare and inside containers / relations
               idx[0], ci, idx[0][_gi], ci[_gi], idx[0][_gi] * objs[0] + ci[_gi], sp.Eq(idx[0], idx[1]), [objs[0], idx[0]], (ci, fns[2](objs[1])),
               sp.Eq(objs[3], fns[0](objs[0])), clone_as_symbol(objs[0], subscript="1") ** 2, sp.Derivative(fns[0](objs[0]), objs[0])]
    for o in printed:
        count += 1
        txt = print_expression(o)
        if re.search(r"(SYM|FUN|QTY|IDX)\d", txt):
            failures.append({"name": "C09/bounded/internal-name-printed", "detail": txt, "replay": {"reproduced": True, "script": None}})
    from symplyphysics.core.coordinate_systems.coordinate_systems import coordinates_transform
    from symplyphysics.core.symbols.symbols import clone_as_indexed
    c0 = CoordinateSystem()
    for tgt in (CoordinateSystem.System.CARTESIAN, CoordinateSystem.System.CYLINDRICAL):
        c1 = coordinates_transform(c0, tgt)
        count += 1
        if c1 is c0 or c1.coord_system == c0.coord_system or set(c1.coord_system.base_scalars()) & set(c0.coord_system.base_scalars()):
            failures.append({"name": "C09/bounded/transformed-coordinate-system-aliases-its-source", "detail": str(tgt), "replay": {"reproduced": True, "script": None}})
    i1, i2 = clone_as_indexed(objs[0]), clone_as_indexed(objs[0])
    count += 2
    if i1 == i2 or objs[0] in i1[1].free_symbols:
        failures.append({"name": "C09/bounded/indexed-clones-alias", "detail": f"{i1!r} {i2!r}", "replay": {"reproduced": True, "script": None}})
    # assumptions carried by False facts survive a clone
    for facts in CLONE_FACTS:
        nz = Symbol("n", units.length, **facts)
        for cl in (clone_as_symbol(nz, subscript="1"), clone_as_indexed(nz)):
            count += 1
            if cl.assumptions0 != nz.assumptions0:
                failures.append({"name": "C09/bounded/clone-loses-assumptions", "detail": f"{facts}: {nz.assumptions0} -> {cl.assumptions0}", "replay": {"reproduced": True, "script": None}})
    # creation histories that run partly in another thread (joined: no race) still yield distinct objects
    import threading
    made = []

    def worker():
        made.extend([Symbol("x", units.length), Quantity(7 * units.meter), Function("x", [objs[0]], units.length), CoordinateSystem()])
    before = [Symbol("x", units.length), Quantity(5 * units.meter), Function("x", [objs[0]], units.length), CoordinateSystem()]
    th = threading.Thread(target=worker)
    th.start()
    th.join()
    count += 4
    if len(made) == 4:
        names = lambda o: getattr(o, "name", None) if not isinstance(o, CoordinateSystem) else str(o.coord_system)
        # every name handed out earlier in this process: the library's own symbols and constants (created at import time) and ours
        import symplyphysics.symbols as LS
        import symplyphysics.quantities as LQ
        used = {str(getattr(o, "name", "")) for mod in [LS] + [getattr(LS, m) for m in dir(LS) if not m.startswith("_")] for o in vars(mod).values() if isinstance(o, (Symbol, Quantity))}
        used |= {str(getattr(o, "name", "")) for o in vars(LQ).values() if isinstance(o, Quantity)} | {str(names(o)) for o in objs + fns + before}
        if any(names(a) == names(b) for a, b in zip(before, made)) or any(str(names(o)) in used for o in made[:3]) or before[1].scale_factor != 5:
            failures.append({"name": "C09/bounded/objects-created-in-another-thread-alias-earlier-ones", "detail": str([(names(a), names(b)) for a, b in zip(before, made)]),
                             "replay": {"reproduced": True, "script": None}})
    cs = [CoordinateSystem() for _ in range(4)]
    for a, b in itertools.combinations(cs, 2):
        count += 1
        if a.coord_system == b.coord_system:
            failures.append({"name": "C09/bounded/coordinate-systems-alias", "detail": "", "replay": {"reproduced": True, "script": None}})
    for f_ in failures:
        f_["replay"] = {"reproduced": True, "script": "from vf.props.c09_names import replay_bounded\nreplay_bounded()\n"}
    report.add_bounded("SymPy-level non-aliasing (==, hash, diff, subs, solve) and pretty printing of objects with colliding display names",
                       "48 symbols/quantities + 12 functions + 6 indexed + 4 coordinate systems, all named 'x'", count, not failures, failures)
    report.add_out_of_reach("non-aliasing under subs/solve/diff for all creation histories", "follows from fresh generated names (proved) plus SymPy's structural "
                            "equality of Symbol/Function/Quantity by (class, name, assumptions), which is external code: assumed, bounded stand-in only")


def replay_bounded():
    class Stub:
        def __init__(self):
            self.failures = []

        def add_bounded(self, what, bound, count, clean, failures=None):
            self.failures += failures or []

        def add_out_of_reach(self, *a):
            pass
    st = Stub()
    bounded_aliasing(st)
    assert not st.failures, [(f["name"], f["detail"]) for f in st.failures]
    print("no aliasing observed")
