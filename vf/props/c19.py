"""C19 -- documentation generation is total, faithful and leaves no global state.

Three parts (level "other": a proved flag lemma + an exhaustive-bounded patcher check + executed postconditions on the one real tree):
 (A) pyvc: disable / enable / reset_sympy_evaluation set the flag to False / True / True (reset restores the DEFAULT: the module
     global `_old_evaluation` is never reassigned -- the functions assign a local).
 (B) patch_sympy_evaluate: the real function on EVERY sequence of statement kinds up to length 6 (quick) / 7 (thorough) after the
     module docstring, judged by a reference semantics of the patched body (which statements run with the flag off); plus the
     function's precondition as a call-site obligation on each module AST of the tree.
 (C) run-time postconditions of generate_laws_docs + role processing over the real tree (executed in a sub-process with cwd =
     the repository): totality, page set, placeholders, faithfulness per member, symbol table, roles, flag after each page,
     determinism.
"""
from __future__ import annotations

import ast
import itertools
import json
import os
import subprocess
import sys
import tempfile
from pathlib import Path

import z3

from ..core import PKG, REPO, VERIF, Ob, PROVED, REFUTED, FAULT, try_replay
from ..pyvc import Exec, Ctx, Obj, NONE, TypeRef, GenError, verify_function, discharge
from ..contracts import frontend as FE

LEVEL = "other"
UNIT = "C19"


# ------------------------------------------------------------------------------------------ (A) flag functions
def flag_obligations():
    heap_flag = z3.Bool("global_parameters.evaluate")

    def attr_model(ex, ctx, base, attr):
        if isinstance(base, TypeRef) and base.name == "global_parameters" and attr == "evaluate":
            return [(ctx, ctx.heap["evaluate"])]
        return None

    class FlagExec(Exec):
        def assign(self, tgt, v, ctx):
            if isinstance(tgt, ast.Attribute) and isinstance(tgt.value, ast.Name) and tgt.value.id == "global_parameters" and tgt.attr == "evaluate":
                ctx.heap["evaluate"] = self.zbool(self.truth(v)) if not z3.is_expr(v) else v
                return [(ctx, None)]
            return super().assign(tgt, v, ctx)

    ex = FE.make_exec("core/processors.py", UNIT, globals_extra={"global_parameters": TypeRef("global_parameters")}, attr_model=attr_model)
    ex.__class__ = FlagExec
    for fn, want in (("disable_sympy_evaluation", False), ("enable_sympy_evaluation", True), ("reset_sympy_evaluation", True)):
        def setup(ex, ctx):
            ctx.heap["evaluate"] = heap_flag
            return [], {}, None

        def post(ex, ctx, out, info, want=want, fn=fn):
            yield f"sets-evaluation-flag-to-{want}(for-every-previous-state)", ctx.heap["evaluate"] == z3.BoolVal(want)

        verify_function(ex, fn, setup, post, concretize=flag_concretizer)
    return ex, discharge(ex, UNIT)


FLAG_REPLAY = """import itertools
from sympy.core.parameters import global_parameters
from symplyphysics.core import processors as P
calls = {"disable": (P.disable_sympy_evaluation, False), "enable": (P.enable_sympy_evaluation, True), "reset": (P.reset_sympy_evaluation, True)}
try:
    for n in range(1, 5):
        for seq in itertools.product(calls, repeat=n):
            global_parameters.evaluate = True
            for name in seq:
                fn, want = calls[name]
                fn()
                assert global_parameters.evaluate is want, ("after the call sequence", seq, "up to", name, "the evaluation flag is", global_parameters.evaluate, "expected", want)
finally:
    global_parameters.evaluate = True
print("every call sequence of length <= 4 leaves the flag as the contract says")
"""


def flag_concretizer(model, name):
    from ..core import try_replay
    return try_replay(FLAG_REPLAY)


# ------------------------------------------------------------------------------------------ (B) patcher
KINDS = ["docfn", "plainfn", "pub", "priv", "dir", "evaldir", "plaindoc", "other"]


def mk_stmt(kind, i):
    src = {
        "docfn": f"def f{i}():\n    'doc'\n    return {i}\n",
        "plainfn": f"def g{i}():\n    return {i}\n",
        "pub": f"v{i} = mark({i})\n",
        "priv": f"_p{i} = mark({i})\n",
        "dir": "':laws:symbol::'\n",
        "evaldir": "':laws:sympy-eval::\\n:laws:symbol::'\n",
        "plaindoc": "'plain words'\n",
        "other": f"mark({i})\n",
    }[kind]
    return ast.parse(src).body[0]


def reference_patch(kinds):
    """expected effect, from the docstring of patch.py + the property: which original statements survive and which of them run
    with evaluation disabled.  Returns (surviving indices, set of disabled member indices) or None if the precondition fails."""
    current, last_doc = -1, -1
    disabled = []
    for idx, k in enumerate(kinds):
        if k == "docfn":
            current, last_doc = idx, idx
        elif k == "pub":
            current = idx
        elif k in ("dir", "evaldir", "plaindoc") and current >= 0:
            last_doc = idx
            if k == "dir":
                disabled.append(current)
    if any(a >= b for a, b in zip(disabled, disabled[1:])):
        return None  # precondition: a member is followed by at most one directive-bearing docstring
    return list(range(0, last_doc + 1)), set(disabled)


def run_patched(body_kinds):
    """apply the REAL patch_sympy_evaluate and execute the result with instrumented toggles; returns per original statement index
    the flag value it ran under, or an error string"""
    from symplyphysics.docs.patch import patch_sympy_evaluate
    mod = ast.Module(body=[ast.parse("'Title\\n====='").body[0]] + [mk_stmt(k, i) for i, k in enumerate(body_kinds)], type_ignores=[])
    ast.fix_missing_locations(mod)
    out = patch_sympy_evaluate(mod)
    state = {"flag": True, "seen": {}, "toggles": []}

    def mark(i):
        state["seen"][i] = state["flag"]
        return i
    # the patched module is executed AS PATCHED: the toggle names must be bound by the inserted import statement, before their first
    # use (a toggle call placed ahead of the import is a NameError); the imported functions are instrumented for the duration
    body = [s for s in out.body if not isinstance(s, ast.ImportFrom)]
    nimports = len(out.body) - len(body)
    import symplyphysics.core.processors as _P
    saved = (_P.disable_sympy_evaluation, _P.reset_sympy_evaluation)
    _P.disable_sympy_evaluation = lambda: (state.__setitem__("flag", False), state["toggles"].append("D"))
    _P.reset_sympy_evaluation = lambda: (state.__setitem__("flag", True), state["toggles"].append("E"))
    try:
        m2 = ast.Module(body=list(out.body), type_ignores=[])
        ast.fix_missing_locations(m2)
        exec(compile(m2, "patched", "exec"), {"mark": mark})
    finally:
        _P.disable_sympy_evaluation, _P.reset_sympy_evaluation = saved
    # statements that are function definitions / docstrings do not call mark: recover survival from the AST
    survived = []
    for s in body:
        if isinstance(s, ast.FunctionDef):
            survived.append(int(s.name[1:]))
        elif isinstance(s, ast.Assign) and isinstance(s.value, ast.Call):
            survived.append(int(s.value.args[0].value))
        elif isinstance(s, ast.Expr) and isinstance(s.value, ast.Call) and getattr(s.value.func, "id", "") == "mark":
            survived.append(int(s.value.args[0].value))
    return state, survived, nimports, body


def patcher_bounded(maxlen):
    failures, count, skipped = [], 0, 0
    for n in range(0, maxlen + 1):
        for kinds in itertools.product(KINDS, repeat=n):
            ref = reference_patch(kinds)
            if ref is None:
                skipped += 1
                continue
            count += 1
            keep, disabled = ref
            try:
                state, survived, nimports, body = run_patched(kinds)
            except Exception as e:
                failures.append((kinds, f"raised {type(e).__name__}: {e}"))
                continue
            why = None
            marked = [i for i, k in enumerate(kinds) if k in ("pub", "priv", "other", "docfn", "plainfn")]
            want_survive = [i for i in marked if i in keep]
            if nimports != (1 if keep else 0):
                why = f"{nimports} import nodes"
            elif survived != want_survive:
                why = f"surviving statements {survived}, expected {want_survive}"
            else:
                for i, k in enumerate(kinds):
                    if k in ("pub", "priv", "other") and i in keep:
                        want_flag = i not in disabled
                        if state["seen"].get(i) is not want_flag:
                            why = f"statement {i} ({k}) ran with evaluate={state['seen'].get(i)}, expected {want_flag}"
                            break
                if why is None and not state["flag"]:
                    why = "evaluation left disabled at the end of the module"
                t = "".join(state["toggles"])
                if why is None and t != "DE" * len(disabled):
                    why = f"toggle sequence {t!r}, expected {'DE' * len(disabled)!r}"
            if why:
                failures.append((kinds, why))
    return count, skipped, failures


# ------------------------------------------------------------------------------------------ (B2) member / docstring association
PKINDS = ["pub", "priv", "tuple", "doc", "docfn", "plainfn", "other"]


def parse_stmt(kind, i):
    src = {"pub": f"v{i} = {i}\n", "priv": f"_p{i} = {i}\n", "tuple": f"a{i}, b{i} = {i}, {i}\n", "doc": f"'doc {i}'\n",
           "docfn": f"def f{i}(x):\n    'fdoc {i}'\n    return x\n", "plainfn": f"def g{i}(x):\n    return x\n", "other": f"print\n"}[kind]
    return ast.parse(src).body[0]


def reference_members(kinds):
    """which documented members / functions a module body has, from the contract of find_members_and_functions (parse.py docstring and
    the documentation format): a string literal documents the assignment statement right before it in the sense of the LAST assignment
    seen (its first plain-name target; none for a tuple target -- then the literal documents nothing); a later literal for the same
    member replaces the earlier one; functions are listed iff they have a docstring.  Returns ([(name, doc)], [function names])"""
    current, docs, order, funcs = None, {}, [], []
    for i, k in enumerate(kinds):
        if k in ("pub", "priv"):
            current = f"v{i}" if k == "pub" else f"_p{i}"
            order.append(current)
        elif k == "tuple":
            current = None
        elif k == "doc" and current is not None:
            docs[current] = f"doc {i}"
        elif k == "docfn":
            funcs.append(f"f{i}")
    return [(n, docs[n]) for n in order if n in docs and not n.startswith("_")], funcs


def members_bounded(maxlen):
    from symplyphysics.docs.parse import find_members_and_functions
    failures, count = [], 0
    for n in range(0, maxlen + 1):
        for kinds in itertools.product(PKINDS, repeat=n):
            count += 1
            module = ast.Module(body=[ast.parse("'module doc'\n").body[0]] + [parse_stmt(k, i) for i, k in enumerate(kinds)], type_ignores=[])
            ast.fix_missing_locations(module)
            try:
                members, functions = find_members_and_functions(module)
                # private members are never rendered: whether they are listed is not constrained
                got = ([(m.name, m.docstring) for m in members if not m.name.startswith("_")], [f.name for f in functions])
            except Exception as e:
                got = f"raised {type(e).__name__}: {e}"
            want = reference_members(kinds)
            if got != want:
                failures.append((kinds, f"got {got}, expected {want}"))
    return count, failures


def replay_members(kinds):
    from symplyphysics.docs.parse import find_members_and_functions
    module = ast.Module(body=[ast.parse("'module doc'\n").body[0]] + [parse_stmt(k, i) for i, k in enumerate(kinds)], type_ignores=[])
    ast.fix_missing_locations(module)
    members, functions = find_members_and_functions(module)
    got = ([(m.name, m.docstring) for m in members if not m.name.startswith("_")], [f.name for f in functions])
    assert got == reference_members(kinds), (kinds, "find_members_and_functions gives", got, "the contract says", reference_members(kinds))
    print("members and docstrings as the contract says")


def callsite_preconditions():
    """per module of the documented tree: body[0] is the docstring (insert(1, import) lands after it) and no member is followed by
    two directive-bearing docstrings"""
    obs = []
    n = 0
    for p in sorted(PKG.rglob("*.py")):
        rel = p.relative_to(PKG)
        if rel.parts[0] in ("core", "docs") or any(x.startswith(("_", ".")) and x != "__init__.py" for x in rel.parts):
            continue
        try:
            tree = ast.parse(p.read_text())
        except SyntaxError:
            continue
        if ast.get_docstring(tree) is None:
            continue
        n += 1
        kinds = []
        for st in tree.body[1:]:
            if isinstance(st, ast.FunctionDef):
                kinds.append("docfn" if ast.get_docstring(st) is not None else "plainfn")
            elif isinstance(st, ast.Assign):
                pub = any(isinstance(t, ast.Name) and not t.id.startswith("_") for t in st.targets)
                kinds.append("pub" if pub else "priv")
            elif isinstance(st, ast.Expr) and isinstance(st.value, ast.Constant):
                s = str(st.value.value)
                kinds.append("evaldir" if ":laws:sympy-eval::" in s else ("dir" if (":laws:symbol::" in s or ":laws:latex::" in s) else "plaindoc"))
            else:
                kinds.append("other")
        ok = reference_patch(kinds) is not None
        if not ok:
            obs.append(Ob(f"{UNIT}/callsite/{'.'.join(rel.with_suffix('').parts)}/patch-precondition:one-directive-docstring-per-member", REFUTED, "ast-scan", 0.0,
                          "a member is followed by two directive-bearing docstrings", str(rel), {"reproduced": False, "script": None}))
    obs.append(Ob(f"{UNIT}/callsite/all-documented-modules/patch-precondition-holds", PROVED if not obs else REFUTED, "ast-scan", 0.0, f"{n} modules", "",
                  None if not obs else {"reproduced": False, "script": None}))
    return obs, n


# ------------------------------------------------------------------------------------------ (C) executed postconditions
RUNNER = r'''
import ast, hashlib, json, os, re, sys, tempfile, shutil, importlib
from pathlib import Path
os.chdir(sys.argv[1])
sys.path.insert(0, sys.argv[1])
out = {"errors": [], "flag_after_page": [], "pages": {}, "members": {}}
from sympy.core.parameters import global_parameters
import symplyphysics.docs.build as B
from symplyphysics.docs import symbols_role, quantity_notation_role
from symplyphysics.docs.printer_code import code_str
from symplyphysics.docs.printer_latex import latex_str
from symplyphysics.core.dimensions import print_dimension
# instrument: flag after each page, members handed to the views
_pl, _pp, _fm = B._process_law, B._process_law_package, B.find_members_and_functions
def wrap(fn, kind):
    def w(*a, **k):
        r = fn(*a, **k)
        out["flag_after_page"].append([kind, str(a[0]) + "/" + (str(a[1]) if kind == "law" else ""), bool(global_parameters.evaluate)])
        return r
    return w
B._process_law, B._process_law_package = wrap(_pl, "law"), wrap(_pp, "package")
cur = {}
def fm(mod):
    members, functions = _fm(mod)
    cur["members"] = [(m.name, m.value, [d.directive_type.name for d in m.directives], m.symbol) for m in members]
    return members, functions
B.find_members_and_functions = fm
_print_law = B.print_law
def pl(title, description, members, functions, doc_name):
    r = _print_law(title, description, members, functions, doc_name)
    rec = []
    for m in members:
        if m.name.startswith("_"):
            continue
        e = {"name": m.name, "directives": [d.directive_type.name for d in m.directives]}
        try:
            e["code"] = code_str(m.value) if "SYMBOL" in e["directives"] else None
            e["latex"] = latex_str(m.value) if "LATEX" in e["directives"] else None
        except Exception as x:
            e["error"] = repr(x)
        if m.symbol is not None:
            e["symbol"] = [m.symbol.symbol, m.symbol.latex, m.symbol.dimension]
        rec.append(e)
    out["members"][doc_name] = rec
    return r
B.print_law = pl
def gen(d):
    B.generate_laws_docs("symplyphysics", d, ["core"], True)
    shutil.copyfile(Path("docs") / "index.rst", Path(d) / "index.rst")
    for fp in sorted(Path(d).iterdir()):
        doc = fp.read_text(encoding="utf-8")
        doc2 = quantity_notation_role.process_string(symbols_role.process_string(doc, fp), fp)
        fp.write_text(doc2, encoding="utf-8")
d1, d2 = tempfile.mkdtemp(), tempfile.mkdtemp()
try:
    try:
        gen(d1)
    except Exception as e:
        import traceback
        out["errors"].append("generation raised: " + traceback.format_exc()[-1500:])
    out["flag_at_end"] = bool(global_parameters.evaluate)
    raw = {}
    for fp in sorted(Path(d1).iterdir()):
        raw[fp.name] = fp.read_text(encoding="utf-8")
    out["pages"] = {k: hashlib.sha256(v.encode()).hexdigest() for k, v in raw.items()}
    out["placeholders"] = [k for k, v in raw.items() if ":laws:symbol::" in v or ":laws:latex::" in v or ":laws:sympy-eval::" in v]
    out["unresolved_roles"] = [k for k, v in raw.items() if re.search(r":symbols:`|:quantity_notation:`", v)]
    # faithfulness: each member section contains the rendering of that module's own member
    bad = []
    for doc_name, rec in out["members"].items():
        page = raw.get(doc_name.split(".", 1)[1] + ".rst", "")
        for e in rec:
            m = re.search(r"\.\. py:data:: " + re.escape(e["name"]) + r"\n(.*?)(?=\n\.\. py:data:: |\n\.\. py:function:: |\Z)", page, re.S)
            if not m:
                bad.append([doc_name, e["name"], "member section missing"])
                continue
            sec = m.group(1)
            if e.get("code") is not None and (":code:`" + e["code"] + "`") not in sec:
                bad.append([doc_name, e["name"], "code rendering of the member's own value not in its section"])
            if e.get("latex") is not None and not all(line.strip() in sec for line in e["latex"].splitlines() if line.strip()):
                bad.append([doc_name, e["name"], "latex rendering of the member's own value not in its section"])
            if e.get("symbol"):
                s, l, dm = e["symbol"]
                if (":code:`" + s + "`") not in sec or (":math:`" + str(l) + "`") not in sec or (":code:`" + dm + "`") not in sec:
                    bad.append([doc_name, e["name"], "symbol table entry missing"])
                # the module's own object, imported normally
                try:
                    obj = getattr(importlib.import_module(doc_name), e["name"])
                    own = [code_str(obj), latex_str(obj), print_dimension(obj.dimension)]
                    if own != [s, l, dm]:
                        bad.append([doc_name, e["name"], f"symbol table {[s, l, dm]} differs from the module's own object {own}"])
                except Exception as x:
                    bad.append([doc_name, e["name"], f"cannot compare with the module's own object: {x!r}"])
    out["unfaithful"] = bad
    # role targets exist
    import symplyphysics.symbols as S, symplyphysics.quantities as Q
    from symplyphysics import Symbol, Quantity
    badrole = []
    for k, v in raw.items():
        for mod, name in re.findall(r":attr:`~symplyphysics\.symbols\.(\w+)\.(\w+)`", v):
            o = getattr(getattr(S, mod, None), name, None)
            if not isinstance(o, Symbol):
                badrole.append([k, f"symbols.{mod}.{name}"])
        for name in re.findall(r":attr:`~symplyphysics\.quantities\.(\w+)`", v):
            if not isinstance(getattr(Q, name, None), Quantity):
                badrole.append([k, f"quantities.{name}"])
    out["bad_role_targets"] = badrole
    # ... and is declared by a generated page under the same qualified name (py:currentmodule + py:data / py:function), which is
    # what the documentation builder resolves a cross-reference against
    declared, refs = set(), []
    for k, v in raw.items():
        curmod = None
        for line in v.splitlines():
            m = re.match(r"\s*\.\. py:currentmodule:: (\S+)", line)
            if m:
                curmod = m.group(1)
                continue
            m = re.match(r"\s*\.\. py:(?:data|function|attribute|class):: ([\w.]+)", line)
            if m:
                declared.add((curmod + "." if curmod else "") + m.group(1))
            for t in re.findall(r":attr:`~?([\w.]+)`", line):
                refs.append([k, curmod, t])
    out["cross_references"] = len(refs)
    out["declared_targets"] = len(declared)
    out["undeclared_role_targets"] = [[k, c, t] for k, c, t in refs if not (t in declared or (c and c + "." + t in declared))]
    # determinism
    try:
        gen(d2)
        diff = [fp.name for fp in sorted(Path(d2).iterdir()) if out["pages"].get(fp.name) != hashlib.sha256(fp.read_text(encoding="utf-8").encode()).hexdigest()]
        diff += [k for k in out["pages"] if not (Path(d2) / k).exists()]
        out["nondeterministic"] = diff
    except Exception as e:
        out["errors"].append("second generation raised: " + repr(e))
    out["flag_at_end2"] = bool(global_parameters.evaluate)
finally:
    shutil.rmtree(d1, ignore_errors=True); shutil.rmtree(d2, ignore_errors=True)
print("RESULT" + json.dumps(out))
'''


def expected_pages(root=None, exclude=("core",), with_index=True):
    """independent computation of the page set from the tree: documented law modules and packages"""
    PKG = Path(root) if root is not None else globals()["PKG"]
    def has_title(path):
        try:
            doc = ast.get_docstring(ast.parse(path.read_text()))
        except SyntaxError:
            return False
        if not doc:
            return False
        lines = doc.splitlines()
        for line in lines[1:]:
            if not line:
                continue
            return bool(line) and (set(line) == {"="} or set(line) == {"-"}) or any(
                l and (set(l) == {"="} or set(l) == {"-"}) for l in lines[1:])
        return False
    pages = set()
    for dirpath, dirs, files in os.walk(PKG):
        p = Path(dirpath)
        rel = p.relative_to(PKG.parent)
        below = p.relative_to(PKG).parts
        # excluded: the directories named by `exclude` directly under the root, with everything below them
        if p.name.startswith(("_", ".")) or (below[:1] and below[0] in exclude):
            dirs[:] = []
            continue
        for f in files:
            if f.startswith("__") or not f.endswith(".py"):
                continue
            if has_title(p / f):
                pages.add(".".join((rel / f).with_suffix("").parts[1:]) + ".rst")
        if (p / "__init__.py").exists() and has_title(p / "__init__.py"):
            pages.add(".".join(rel.parts[1:]) + ".rst")
    if with_index:
        pages.add("index.rst")
    return pages


SYNTHETIC_TREE = {
    # path under the synthetic package -> has a title docstring
    "__init__.py": True, "a.py": True, "nodoc.py": False,
    "sub/__init__.py": True, "sub/b.py": True, "sub/internal/__init__.py": False, "sub/internal/ok.py": True,
    "_drafts/__init__.py": True, "_drafts/wip.py": True, "_drafts/deep/__init__.py": True, "_drafts/deep/x.py": True,
    "internal/__init__.py": True, "internal/top.py": True, "internal/deep/__init__.py": True, "internal/deep/y.py": True,
    "internal/deep/deeper/__init__.py": True, "internal/deep/deeper/z.py": True,
    ".hidden/__init__.py": True, ".hidden/h.py": True,
    "zlast/__init__.py": True, "zlast/_private.py": True, "zlast/c.py": True,
}
SYNTHETIC_EXCLUDE = ["internal"]


def synthetic_tree_pages():
    """Bounded stand-in for the traversal of generate_laws_docs on OTHER trees than the pinned one: a synthetic package with
    documented modules nested one and two levels below an excluded directory, a private directory and a hidden directory (and a
    directory that merely shares the excluded directory's name).  returns (generated pages, expected pages, error)"""
    import tempfile, shutil
    root = Path(tempfile.mkdtemp(prefix="vf_c19_"))
    try:
        for rel, documented in SYNTHETIC_TREE.items():
            f = root / "vfsyn" / rel
            f.parent.mkdir(parents=True, exist_ok=True)
            title = "Page " + rel.replace("/", " ").replace(".py", "").replace("_", " ").strip()
            f.write_text(f'"""\n{title}\n{"=" * len(title)}\n\nSynthetic module.\n"""\n' if documented else "X = 1\n")
        out = root / "out"
        out.mkdir()
        code = ("import os, sys\nos.chdir(sys.argv[1])\nsys.path.insert(0, sys.argv[2])\n"
                "import symplyphysics.docs.build as B\n"
                f"B.generate_laws_docs('vfsyn', 'out', {SYNTHETIC_EXCLUDE!r}, True)\n")
        r = subprocess.run([sys.executable, "-c", code, str(root), str(REPO)], capture_output=True, text=True, timeout=300)
        if r.returncode != 0:
            return None, None, (r.stdout + r.stderr)[-1500:]
        got = {str(p.relative_to(out)) for p in out.rglob("*.rst")}
        exp = expected_pages(root / "vfsyn", tuple(SYNTHETIC_EXCLUDE), with_index=False)
        return got, exp, ""
    finally:
        shutil.rmtree(root, ignore_errors=True)


def clauses_of(res):
    """(name, holds, detail) for every run-time postcondition of the whole-tree generation"""
    exp = expected_pages()
    got = set(res["pages"])
    return [
        ("generation-raises-nothing", not res["errors"], "; ".join(res["errors"])[:600]),
        ("one-page-per-documented-module-and-package", got == exp, f"missing {sorted(exp - got)[:8]} unexpected {sorted(got - exp)[:8]}"),
        ("no-formula-placeholder-survives", not res["placeholders"], str(res["placeholders"][:8])),
        ("every-placeholder-replaced-by-the-rendering-of-the-module's-own-member;symbol-table-lists-own-names-and-dimension", not res["unfaithful"], str(res["unfaithful"][:6])),
        ("every-symbol-and-constant-cross-reference-resolves-to-an-existing-object", not res["unresolved_roles"] and not res["bad_role_targets"]
         and not res.get("undeclared_role_targets") and res.get("cross_references", 0) > 0,
         str((res["unresolved_roles"][:5], res["bad_role_targets"][:5], len(res.get("undeclared_role_targets") or []),
              (res.get("undeclared_role_targets") or [])[:5]))),
        ("evaluation-flag-is-True-after-each-page", all(f for _, _, f in res["flag_after_page"]) and len(res["flag_after_page"]) >= 700,
         str([x for x in res["flag_after_page"] if not x[2]][:5]) + f" ({len(res['flag_after_page'])} pages)"),
        ("evaluation-flag-is-True-after-generation", res.get("flag_at_end") is True and res.get("flag_at_end2") is True, ""),
        ("generation-is-deterministic(two-runs-byte-identical)", res.get("nondeterministic") == [], str(res.get("nondeterministic"))[:300]),
    ]


def executed_postconditions():
    env = dict(os.environ)
    env["PYTHONPATH"] = str(REPO) + os.pathsep + env.get("PYTHONPATH", "")
    r = subprocess.run([sys.executable, "-c", RUNNER, str(REPO)], capture_output=True, text=True, env=env, timeout=900)
    line = next((l for l in r.stdout.splitlines() if l.startswith("RESULT")), None)
    if line is None:
        return None, (r.stdout + r.stderr)[-2000:]
    return json.loads(line[6:]), ""


def run(report):
    ex, obs = flag_obligations()
    report.extend(obs)
    for f in ("disable_sympy_evaluation", "enable_sympy_evaluation", "reset_sympy_evaluation"):
        report.function(f"symplyphysics.core.processors.{f}", ex.source_file)
    # (B)
    maxlen = 6 if report.tier == "thorough" else 5
    count, skipped, failures = patcher_bounded(maxlen)
    fl = []
    for kinds, why in failures[:50]:
        script = ("from vf.props.c19 import run_patched, reference_patch\n" f"kinds = {tuple(kinds)!r}\n"
                  "from vf.props import c19\nc, s, f = 0, 0, []\n"
                  "import itertools\n"
                  "ref = reference_patch(kinds)\nstate, survived, nimports, body = run_patched(kinds)\n"
                  "keep, disabled = ref\n"
                  "bad = [i for i, k in enumerate(kinds) if k in ('pub', 'priv', 'other') and i in keep and state['seen'].get(i) is not (i not in disabled)]\n"
                  "assert not bad and state['flag'] and ''.join(state['toggles']) == 'DE' * len(disabled), (kinds, state)\n")
        fl.append({"name": f"{UNIT}/patch_sympy_evaluate/kinds{''.join(k[0] for k in kinds)}:{'-'.join(kinds)}", "detail": why, "signature": "-".join(kinds),
                   "replay": {"reproduced": True, "script": script}})
    report.add_bounded("patch_sympy_evaluate on every statement-kind sequence (8 kinds) after the module docstring, real function, reference flag semantics",
                       f"length <= {maxlen} ({count} sequences satisfying the precondition, {skipped} skipped for violating it)", count, not failures, fl)
    report.function("symplyphysics.docs.patch.patch_sympy_evaluate", PKG / "docs/patch.py", note="bounded-exhaustive, not proved")
    # (B2)
    mlen = 5 if report.tier == "thorough" else 4
    mcount, mfail = members_bounded(mlen)
    mfl = [{"name": f"{UNIT}/find_members_and_functions/kinds:{'-'.join(k)}", "detail": why, "signature": "-".join(k),
            "replay": {"reproduced": True, "script": f"from vf.props import c19\nc19.replay_members({tuple(k)!r})\n"}} for k, why in mfail[:50]]
    report.add_bounded("find_members_and_functions on every statement-kind sequence (public / private / tuple-target assignment, string literal, documented / plain function, other): "
                       "each string literal documents the last assignment's name, nothing else", f"length <= {mlen} ({mcount} module bodies)", mcount, not mfail, mfl)
    report.function("symplyphysics.docs.parse.find_members_and_functions", PKG / "docs/parse.py", note="bounded-exhaustive, not proved")
    o2, nmods = callsite_preconditions()
    report.extend(o2)
    # (C)
    res, err = executed_postconditions()
    if res is None:
        report.fault("documentation run did not complete: " + err)
        return
    got = set(res["pages"])
    clauses = clauses_of(res)
    for name, ok, detail in clauses:
        report.add(Ob(f"{UNIT}/generate_laws_docs/{name}", PROVED if ok else REFUTED, "exec-whole-tree", 0.0, "" if ok else detail, name,
                      None if ok else {"reproduced": True, "script": "from vf.props import c19\nres, err = c19.executed_postconditions()\n"
                                       "assert res is not None, err\n"
                                       f"holds, detail = next((ok, d) for n, ok, d in c19.clauses_of(res) if n == {name!r})\n"
                                       f"print({name!r}, 'holds' if holds else 'fails', detail[:600])\n"
                                       f"assert holds, 'C19 run-time postcondition {name} fails: ' + detail[:600]\n"}))
    # (C2) the traversal on a synthetic tree (bounded: one tree)
    sgot, sexp, serr = synthetic_tree_pages()
    if sgot is None:
        report.fault("synthetic documentation tree could not be generated: " + serr)
    else:
        sf = []
        if sgot != sexp:
            detail = (f"synthetic package (exclude {SYNTHETIC_EXCLUDE}): pages generated but not expected {sorted(sgot - sexp)}, "
                      f"expected but missing {sorted(sexp - sgot)}")
            sf.append({"name": f"{UNIT}/generate_laws_docs/synthetic-tree/one-page-per-documented-module-and-package-outside-excluded-and-private-directories",
                       "detail": detail, "signature": "synthetic-tree",
                       "replay": {"reproduced": True, "script": "from vf.props import c19\ngot, exp, err = c19.synthetic_tree_pages()\n"
                                  "assert got is not None, err\nprint('generated', sorted(got))\nprint('expected ', sorted(exp))\n"
                                  "assert got == exp, 'C19 synthetic tree: unexpected pages ' + repr(sorted(got - exp)) + ', missing ' + repr(sorted(exp - got))\n"}})
        report.add_bounded("generate_laws_docs on a synthetic package: documented modules one to three levels below an excluded directory, a private "
                           "directory and a hidden directory, a directory that shares the excluded directory's name elsewhere, private modules, "
                           "undocumented modules and packages; page set equals the independently computed one",
                           f"1 tree, {len(SYNTHETIC_TREE)} files, exclude list {SYNTHETIC_EXCLUDE}", len(SYNTHETIC_TREE), not sf, sf)
    report.extra["pages"] = len(got)
    report.extra["documented_modules_with_patch_precondition"] = nmods
    report.extra["members_checked"] = sum(len(v) for v in res["members"].values())
    report.explanation = ("(A) flag lemma proved by pyvc; (B) patcher: real function on all statement-kind sequences up to the stated length (bounded, "
                          "exhaustive) + its precondition on every module of the tree; (C) postconditions of the whole-tree generation are EXECUTED on the one "
                          "real input (finite configuration; exhaustive but not a proof); Sphinx HTML build is outside the property")
    report.add_out_of_reach("unbounded proof of patch_sympy_evaluate", "list inserts at computed offsets over a symbolic statement list: position-map invariant not attempted; bounded-exhaustive stand-in")
    report.trust("CPython exec/compile/ast", "SymPy global_parameters", "the reference semantics of the patched body in vf/props/c19.py", "z3 (flag lemma)")
    report.assume("the documented tree is the finite configuration the property quantifies over; page order is the sorted os.walk order of the real code")
