"""C18 -- the LaTeX rendering of formulas is well-formed and meaning preserving.

Translation validation (engine T, vf/tv.py): for every rendering s = latex_str(e)
    braces balanced, every \\left matched by a \\right at the same nesting, \\begin/\\end matched;
    read_tex(s) == e   for all values of the symbols of e
with the reading conventions of DESIGN.md C18 (operators \\frac{d}{dx}, \\sum_i, \\prod_i scope over the remainder of their
multiplicative term; postfix ! and ^{} bind to the preceding atom or bracket group; \\log \\left( x \\right)^{2} is the
square of the logarithm).  Populations as C17.
"""
from __future__ import annotations

from .. import tv

LEVEL = "translation_validation"


def run(report):
    tv.run_property(report, "C18", "latex")
    report.trust(
        "CPython 3.12",
        "SymPy 1.14: construction/auto-evaluation of Add/Mul/Pow/functions is value preserving (used by the reader and by "
        "the normal form of the original)",
        "SymPy's symbol-name convention (split_super_sub / translate) for the spelling of a display name",
        "sympy.polys (together, expand, groebner) for the nf back end", "z3 5.1 / cvc5 1.4",
        "the reference reader vf.tv.TexReader and vf.tv.tex_wellformed (reviewed against the statement and DESIGN.md C18)",
        "vf.sym2smt (SymPy -> z3 reals; opaque atoms keyed by canonical form)")
    report.assume(
        "symbols range over the reals; all denominators are non-zero (domain of definition)",
        "a Float leaf denotes its decimal at the precision it carries (15 significant digits for a double); a decimal "
        "literal in a rendering denotes exactly that decimal",
        "LaTeX display names are compared modulo grouping braces and spacing",
        "a differential operator \\frac{d^n}{d x^n} / \\frac{\\partial^n}{\\partial x^n}, \\sum_i and \\prod_i apply to the "
        "remainder of their multiplicative term; \\Delta, \\delta and d prefix the immediately following atom or bracket group",
        "derivatives, integrals, indexed sums/products, averages/differentials, Order terms, applications of undefined "
        "functions, quantities and indexed symbols are value-opaque atoms keyed by their canonical form and independent of "
        "each other")
    report.assume(
        "a canonical (imported) form is an obligation only if every node lies in the expression space the property states for "
        "canonical forms (symbols, numbers, rationals, pi/E/I, named quantity constants, + * ^, elementary functions); the "
        "other canonical forms are rendered and validated too, but reported as observations under "
        "coverage.canonical_outside_stated_space; every documented SOURCE form is an obligation")
    report.explanation = (
        "programs = renderings validated (well-formedness + one for-all-values equivalence each); a rendering whose reading "
        "needs a construct outside the reader, or whose atoms share a display name, is listed under out_of_reach and not "
        "counted")
