"""C02 -- calculation functions return solutions of the law they belong to.

Contract of each `calculate_*` (from its decorators, by closure introspection): validate_input names the law symbol each
guarded parameter stands for, validate_output the law symbol of the result.  Postcondition (property text):
with sigma = {law symbol of each parameter -> argument, result symbol -> returned value}, law.lhs sigma - law.rhs sigma = 0
for ALL argument values inside the function's own domain.  Deciding step: the REAL undecorated function is executed on
fresh real symbols (vf.calc), the residual is discharged by nf / z3 (+cvc5).  Functions out of reach of generic
execution get a bounded numeric stand-in on the DECORATED function (never counted as proved).
"""
from __future__ import annotations

import collections
import json
import os
import time

from ..core import PKG, VERIF, PROVED, REFUTED, UNKNOWN, FAULT, Ob, seed
from .. import calc
from .. import c02_vector

LEVEL = "proof"
DEMOTED_FILE = VERIF / "vf" / "c02_demoted.json"
# modules of the unchanged tree that do not import at all (DESIGN.md section 7, D1): their functions can never return
# a value, so C02 says nothing about them; any OTHER import failure is a harvest fault.
KNOWN_IMPORT_FAILURES = {
    "symplyphysics.laws.thermodynamics.volumetric_and_linear_expansion_coefficients_in_isotropic_materials",
}


def load_demoted() -> dict:
    if DEMOTED_FILE.exists():
        return json.loads(DEMOTED_FILE.read_text())
    return {}


def run(report):
    tier = report.tier
    generate = os.environ.get("VERIF_C02_GENERATE") == "1"
    only = os.environ.get("VERIF_C02_ONLY", "")
    files = calc.catalogue_files(PKG)
    if only:
        files = [(m, p) for m, p in files if only in m]
    ast_names = {m: calc.ast_calculate_defs(p) for m, p in files}
    ast_total = sum(len(v) for v in ast_names.values())
    demoted = load_demoted()
    # modules with functions first, big ones spread out
    tasks = [(m, str(p), tier, seed(), {q: e for q, e in demoted.items() if q.startswith(calc.short(m) + ".")}, generate)
             for m, p in files if ast_names[m]]
    if not only:
        tasks.insert(0, (calc.HOOK_TASK, "", tier, seed(), {}, generate))
    jobs = int(os.environ.get("VERIF_JOBS", "16"))
    t0 = time.time()
    results = []
    if jobs <= 1:
        results = [calc.process_module(t) for t in tasks]
    else:
        results = calc.run_pool(tasks, jobs, os.environ.get("VERIF_C02_PROGRESS"))
    pool_s = time.time() - t0

    klass_count = collections.Counter()
    reasons = collections.Counter()
    domains = collections.Counter()
    hows = collections.Counter()
    found = 0
    rebound_all, axioms_all = set(), set()
    new_demoted = {}
    slow = []
    audit = {"functions": 0, "points": 0, "failures": [], "no_point": 0}
    extra_kinds = collections.Counter()
    vec_counters = c02_vector.new_counters()
    rules_used = collections.defaultdict(list)
    for r in results:
        m = r["modname"]
        if r.get("crash"):
            report.fault(f"worker crashed on {m}: {r['crash'][:300]}")
            continue
        if m == calc.HOOK_TASK:
            _merge_hook(report, r["hook"])
            continue
        if r["import_error"]:
            if m in KNOWN_IMPORT_FAILURES:
                for fn in ast_names[m]:
                    found += 1
                    klass_count["out_of_reach"] += 1
                    report.add_out_of_reach(f"{calc.short(m)}.{fn}",
                                            f"module does not import on the unchanged tree ({r['import_error'][:80]}); "
                                            "the function can never return a value")
            else:
                report.fault(f"harvest: {m} does not import: {r['import_error'][:200]}")
            continue
        got = sorted(f.qual.rsplit(".", 1)[1] for f in r["functions"])
        if got != sorted(ast_names[m]):
            report.fault(f"harvest mismatch in {m}: ast {sorted(ast_names[m])} vs imported {got}")
        slow.append((r["secs"], m))
        # vector-form module: obligations of vf.c02_vector (mutual inverses of the law functions, calculate_* returns the law
        # function applied to its arguments) replace the out_of_reach entry of every calculate function they cover
        vec = r.get("vector")
        vec_fns = {}
        if vec is not None:
            if set(vec) == {"fault"}:
                report.fault(vec["fault"])
            else:
                vec_fns = c02_vector.merge(report, vec, vec_counters)
        for f in r["functions"]:
            found += 1
            report.function(f.qual, f.file)
            if f.qual in vec_fns and vec_fns[f.qual][0] in ("proved", "refuted", "bounded", "bounded_length", "out_of_reach"):
                vk, vreason = vec_fns[f.qual]
                klass_count[vk] += 1
                if vk == "out_of_reach":
                    report.add_out_of_reach(f.qual, vreason[:600])
                    reasons[_bucket(vreason)] += 1
                elif vk == "bounded":
                    reasons["vector form: " + _bucket(vreason)] += 1
                continue
            rebound_all |= set(f.rebound)
            axioms_all |= set(f.axioms)
            klass_count[f.klass] += 1
            if f.assoc:
                hows[f.assoc] += 1
            if f.assoc_notes:
                # association beyond the decorators (rules R-matrix / R-unique): said per function, the rule once
                report.function(f.qual, f.file, "association: " + "; ".join(f.assoc_notes))
                for rule in f.assoc_rules:
                    rules_used[rule].append(f"{f.qual} [{f.klass}]")
            for o in f.obs:
                if o.verdict == PROVED and o.detail.startswith("domain="):
                    domains[o.detail] += 1
            if f.audit is not None:
                audit["functions"] += 1
                audit["points"] += f.audit["accepted"]
                audit["failures"] += f.audit["failures"]
                audit["no_point"] += 1 if f.audit["accepted"] == 0 else 0
            for what, bound, count, clean, fails in f.extra:
                report.add_bounded(what, bound, count, clean, fails)
                extra_kinds["exact grid" if "exact grid" in what else "wide magnitudes"] += 1
            if f.klass in ("proved", "refuted", "undecided", "fault"):
                report.extend(f.obs)
                if f.klass == "fault" and not f.obs:
                    report.fault(f"{f.qual}: {f.reason[:600]}")
            elif f.klass == "bounded":
                report.extend(f.obs)  # partial proofs / unannounced demotions (UNKNOWN) ride along
                b = f.bounded
                how = (f"decorated function at {b['accepted']} points around the arguments of {b['anchored']} call(s) the module's own "
                       "test makes (each magnitude moved by a random factor in [0.78, 1.28], random unit prefixes; seeded random "
                       "magnitudes found no evaluable point), ") if b.get("anchored") else (
                       f"decorated function at {b['accepted']} seeded random magnitudes x unit prefixes, ")
                if b.get("anchored"):
                    extra_kinds["anchored at the module's own test arguments"] += 1
                report.add_bounded(f.qual, how +
                                           f"law residual <= {calc.REL_TOL:g} relative ({b['refused']} points refused by the "
                                           f"function, {b.get('ill_conditioned', 0)} ill-conditioned points skipped; positive "
                                           f"magnitudes only); reason not proved: {f.reason[:300]}",
                                   b["accepted"], not b["failures"], b["failures"])
                reasons[_bucket(f.reason)] += 1
                new_demoted[f.qual] = {"class": "bounded", "reason": f.reason[:300]}
            elif f.klass == "bounded_length":
                b = f.bounded
                report.add_bounded(f.qual, f.reason, b["accepted"], not b["failures"], b["failures"])
            elif f.klass == "out_of_reach":
                report.extend(f.obs)
                report.add_out_of_reach(f.qual, f.reason[:400])
                reasons[_bucket(f.reason)] += 1
                if f.bounded is not None:
                    new_demoted[f.qual] = {"class": "out_of_reach", "reason": f.reason[:300]}
    if audit["functions"]:
        report.add_bounded("audit of the proved functions: DECORATED function on real Quantities (random magnitudes x unit "
                           "prefixes) must satisfy the law it was proved to satisfy (checks the C05/C07 'identity on SI "
                           "values' rebinding and the generic summary)",
                           f"{audit['points']} points over {audit['functions']} proved functions "
                           f"({audit['no_point']} functions without an accepted point), residual <= {calc.REL_TOL:g} relative",
                           audit["points"], not audit["failures"], audit["failures"])
    if generate:
        DEMOTED_FILE.write_text(json.dumps(dict(sorted(new_demoted.items())), indent=1) + "\n")
        print(f"[C02] wrote {DEMOTED_FILE} with {len(new_demoted)} entries")
    # ------------------------------------------------------------------ vacuity guards
    if not only:
        if found != ast_total:
            report.fault(f"harvest: {found} calculate_* functions found by import, {ast_total} by ast")
        if len(files) < 600:
            report.fault(f"harvest: only {len(files)} catalogue modules")
        if klass_count["proved"] < 100:
            report.fault(f"vacuity: only {klass_count['proved']} functions proved")
    c02_vector.finish(report, vec_counters, full_run=not only)
    from .. import c02_comment
    c02_comment.run(report, only)
    report.extra.update({
        "modules": len(files),
        "modules_with_calculate_functions": len(tasks),
        "calculate_functions_ast": ast_total,
        "calculate_functions_found": found,
        "classification": dict(klass_count),
        "proved_by_domain": dict(domains),
        "sigma_source": dict(hows),
        "association_rules_beyond_decorators": {k: sorted(v) for k, v in sorted(rules_used.items())},
        "extra_stand_ins": dict(extra_kinds),
        "not_proved_reasons": dict(reasons.most_common()),
        "pool_wall_s": round(pool_s, 1),
        "slowest_modules": [(round(s, 1), calc.short(m)) for s, m in sorted(slow, reverse=True)[:8]],
        "demoted_list": str(DEMOTED_FILE.relative_to(VERIF)),
        "demoted_entries": len(demoted),
        "points_per_bounded_function": 20 if tier == "thorough" else 3,
    })
    report.trust("CPython 3.12", "SymPy 1.14: solve/subs/diff/auto-evaluation inside the functions under contract are value "
                 "preserving (they are part of the real code that is executed)", "sympy.polys for the nf back end",
                 "z3 / cvc5", "SymPy rewrites without force used for normalisation: powdenest, expand_power_base, expand_log, "
                 "powsimp; sympy.solve in the numeric check of the abs/ceiling exceptions", "closure introspection of validate_input / validate_output wrappers "
                 "(inspect.getclosurevars over __wrapped__)")
    report.assume(
        "arguments are real numbers (fresh real symbols carrying the sign/integer assumptions of the guarding law symbol)",
        "domain: argument tuples for which some term of the law or of the returned value is undefined over the reals "
        "(zero denominator, even root of a negative, log of a non-positive) are outside the function's domain",
        "domain tag `arguments-for-which-the-law-has-a-real-solution`: where the law has no real solution for the result "
        "symbol at all, no returned value could satisfy it; obligations proved only under this restriction are counted "
        "in coverage.proved_by_domain",
        "Quantity constants of a law with an exact rational SI value are inlined; the others are positive reals "
        "(proved for every positive value of the constant)",
        "association of a parameter the decorators leave without a law symbol: parameter `p_` stands for the module's law "
        "symbol named `p` (dimension must agree when the guard gives one); result without a symbol in validate_output: "
        "the only law symbol not associated with a parameter, and only when the function is called calculate_<that "
        "attribute name>; then rules R-matrix and R-unique (stated below when used, listed per function in "
        "functions_under_contract[..].note and coverage.association_rules_beyond_decorators); anything else is "
        "out_of_reach (coverage.sigma_source counts the functions per rule)",
        "during generic execution sympy.Expr carries two read-only attributes, scale_factor -> self and dimension -> "
        "dimensionless (a Quantity built from a symbolic SI value is that expression)",
        "a path that raises ValueError / AssertionError, or whose result is not finite (division by zero), is the function "
        "refusing that part of the domain; recorded paths with an unsatisfiable condition are discarded",
        "a z3 countermodel that assigns values to uninterpreted terms (exp, log, symbolic powers) counts as a refutation "
        "only when a failing input is reproduced on the real decorated function; otherwise the function is undecided "
        "(allow-listed into the bounded class)",
        "documented abs()/ceiling() functions: symbolically the returned expression must be a ceiling(E) node with E equal "
        "to the law's solution for all arguments (abs: residual at +/- result and result >= 0); in addition an exact grid "
        "of small rationals {1,2,3,4,8,9,16,27,81,1/2,1/3} (abs: also negatives) in seeded combinations, capped, compares "
        "the real decorated function with op(solution of the law) computed by SymPy on plain numbers (60 digits, exact "
        "integers recognised; for ceiling the float64 value of the published formula is accepted too)",
        "functions whose law or body compares quantities get an extra stand-in walking the prefixes femto..tera; the law "
        "is always judged on plain SI numbers (scale factors), never on Quantity objects, so the judge does not go through "
        "the library's own comparison hook; an infinite side of the law must be matched by the same infinity",
        "bounded stand-in: positive magnitudes only; points where the law's own sides move by more than the tolerance "
        "under a 1e-13 relative change of the arguments, or where the published formula evaluated in float64 is itself "
        "off by more than the tolerance (catastrophic cancellation), are skipped as ill-conditioned",
        "functions with sequence parameters: proved for all values at lengths 1..3 only (reported under bounded as well "
        "when a numeric stand-in runs)",
        "degenerate structure follows the generic summary (SymPy auto-evaluation is value preserving)",
    )
    for rule in sorted(rules_used):
        report.assume(calc.RULE_TEXT[rule])
    for n in sorted(rebound_all):
        report.assume(f"rebound in the module globals during generic execution: {n}: {calc.REBOUND.get(n, '')}")
    for a in sorted(axioms_all):
        report.assume(f"axiom instance used as hypothesis: {a}")


def _merge_hook(report, h):
    from ..core import PKG as _PKG
    report.function("core.symbols.quantities._eval_is_ge", _PKG / calc.HOOK_FILE,
                    "comparison hook behind every <, <=, >, >= between quantities (Piecewise conditions included)")
    report.function("core.symbols.quantities.scale_factor", _PKG / calc.HOOK_FILE)
    report.extend(h["obs"])
    if h["note"] or not h["obs"]:
        report.add_out_of_reach("core.symbols.quantities._eval_is_ge / scale_factor: contract from the source (pyvc)",
                                "the function left the modelled Python subset: " + (h["note"] or "no obligation generated")
                                + " -- judged by the executed grid only")
    g = h["grid"]
    report.add_bounded("core.symbols.quantities._eval_is_ge: executed grid on the real code",
                       f"{g['count']} comparisons of real Quantities ({g['pairs']} scale-factor pairs: 1e-15..1e15, equal, "
                       "differing by 1e-13/1e-12/1e-9 relative and absolute, neighbouring magnitudes, zero, all signs; metre "
                       "and second): >=, <, <=, > and a Piecewise on them must equal the comparison of the float scale "
                       f"factors; errors: {g['errors']}", g["count"], not g["failures"] and g["count"] > 0, g["failures"])
    if g["count"] == 0:
        report.fault(f"comparison-hook grid executed no comparison: {g['errors']}")
    report.assume("core hook contract: Quantity objects are modelled as objects with a real `scale_factor` field; "
                  "float(x) is the identity on reals (IEEE rounding ignored); isinstance(q, SymQuantity) holds of quantities")


def _bucket(reason: str) -> str:
    r = reason.split("||")[0].strip()
    for key in ("imaginary unit", "matrices", "callable / vector / matrix", "Derivative/Integral", "no equation object",
                "names no law symbol", "generic execution raised", "solver undecided", "path explosion",
                "applied more than once", "indexed family", "unassociated symbols", "named by no guard",
                "no published equation contains", "returned object", "same law symbol", "unsupported"):
        if key in r:
            return key
    return r[:60]
