"""C04: QuantityVector.__init__ -- every component is checked, with its OWN dimension, against the vector dimension (angle slots
against angle); construction succeeds exactly when every component passes the gate.  pyvc over the real AST for component lists
of length 0..3, each component a ready-made Quantity or a bare number, dimension keyword given or omitted (bounded in length)."""
from __future__ import annotations

import itertools

import z3

from ..core import PKG
from ..pyvc import Obj, Opt, NONE, ExcVal, Builtin, TypeRef, GenError, verify_function, discharge
from ..contracts import frontend as FE
from ..contracts import model as M
from ..contracts import refimpl as RI

UNIT = "C04"


def gate_ok(s, d, xd):
    return z3.Or(M.v_is_any(s), M.d_anycls(d), M.d_equiv(M.d_erase_angle(d), M.d_erase_angle(xd)))


def run(report, maxlen=2):
    obs, execs, nshape = [], [], 0
    for n in range(0, maxlen + 1):
        for kinds in itertools.product(("quantity", "number"), repeat=n):
            for dim_given in (True, False):
                nshape += 1
                comps, own = [], []
                for i, k in enumerate(kinds):
                    s_ = z3.Const(f"c{i}_scale", M.Val)
                    if k == "quantity":
                        d_ = z3.Const(f"c{i}_dim", M.Dim)
                        comps.append(Obj("Quantity", {"scale_factor": s_, "dimension": d_, "display_name": z3.String(f"c{i}_name")}))
                        own.append((s_, d_))
                    else:
                        comps.append(s_)
                        own.append((s_, None))
                dimp = z3.Const("dimension", M.Dim) if dim_given else NONE
                cs_type = z3.Int("coord_system_type")

                def gate(ex, ctx, args, kw):
                    q, _, _, xd = args
                    calls = list(ctx.ghost.get("gate_calls", [])) + [(q, xd)]
                    ok = gate_ok(q.fields["scale_factor"], q.fields["dimension"], xd)
                    res = []
                    for cond, val in ((ok, NONE), (z3.Not(ok), ExcVal("UnitsError|TypeError"))):
                        if ex.feasible(ctx, cond):
                            c = ctx.fork(cond)
                            c.ghost["gate_calls"] = calls
                            res.append((c, val))
                    return res

                def quantity_ctor(ex, ctx, args, kw):
                    c0 = args[0]
                    d = kw.get("dimension", NONE)
                    if isinstance(c0, Obj) and c0.cls == "Quantity":
                        # contract C05: Quantity(q, dimension=d) has q's scale factor and the dimension d (q's own if d is None)
                        nd = c0.fields["dimension"] if d is NONE else d
                        return [(ctx, Obj("Quantity", {"scale_factor": c0.fields["scale_factor"], "dimension": nd, "display_name": z3.String("rewrapped")}))]
                    return [(ctx, Obj("Quantity", {"scale_factor": c0, "dimension": M.DIMENSIONLESS if d is NONE else d, "display_name": z3.String("wrapped")}))]

                def eq_model(ex, l, r):
                    if z3.is_expr(l) and l.sort() == M.Val and isinstance(r, int):
                        return z3.And(M.v_kind(l) == M.FIN, M.Val.re(l) == r, M.Val.im(l) == 0)
                    return None

                def attr(ex, ctx, base, attr_):
                    if isinstance(base, TypeRef) and base.name == "CoordinateSystem" and attr_ == "is_angle_component":
                        return [(ctx, Builtin("is_angle_component[contract]", lambda ex, c, a, k: [(c, z3.Or(z3.And(a[0] == 1, ex.znum(a[1]) == 1),
                                                                                                          z3.And(a[0] == 2, z3.Or(ex.znum(a[1]) == 1, ex.znum(a[1]) == 2))))]))]
                    if isinstance(base, TypeRef) and base.name == "DimensionSymbol" and attr_ == "__init__":
                        return [(ctx, Builtin("DimensionSymbol.__init__", lambda ex, c, a, k: (a[0].fields.__setitem__("_dimension", a[2]), [(c, NONE)])[1]))]
                    return None

                g = {"Quantity": TypeRef("Quantity"), "assert_equivalent_dimension": ("__contract__", "gate"), "dimensionless": M.DIMENSIONLESS,
                     "angle_type": M.ANGLE, "CoordinateSystem": TypeRef("CoordinateSystem"), "DimensionSymbol": TypeRef("DimensionSymbol"),
                     "next_id": Builtin("next_id", lambda ex, c, a, k: [(c, ex.fresh("id", z3.IntSort()))]),
                     "Vector": Builtin("Vector", lambda ex, c, a, k: [(c, Obj("Vector", {"components": a[0]}))])}
                ex = FE.make_exec("core/vectors/vectors.py", UNIT, globals_extra=g, contracts={"gate": gate, "Quantity": quantity_ctor}, models={"__eq__": eq_model},
                                  isinstance_model=lambda ex, ctx, v, cls: isinstance(v, Obj) and v.cls == cls, attr_model=attr)
                me = Obj("QuantityVector", {})
                csys = Obj("CoordinateSystem", {"coord_system_type": cs_type})

                def setup(ex, ctx, comps=comps, dimp=dimp, own=own):
                    ctx.assume(cs_type >= 0, cs_type <= 2, *[M.v_wf(s) for s, _ in own], *[M.d_wf(d) for _, d in own if d is not None])
                    if dimp is not NONE:
                        ctx.assume(M.d_wf(dimp))
                    return [me, list(comps), csys], {"dimension": dimp}, None

                def post(ex, ctx, out, info, own=own, dimp=dimp, n=n):
                    calls = ctx.ghost.get("gate_calls", [])
                    vec_dim = ctx.env["self"].fields.get("_dimension") if out[0] == "return" else None

                    def expected(i, vd):
                        return z3.If(z3.Or(z3.And(cs_type == 1, i == 1), z3.And(cs_type == 2, z3.Or(i == 1, i == 2))), M.ANGLE, vd)
                    if out[0] == "return":
                        yield "every-component-is-checked-once", z3.BoolVal(len(calls) == n)
                        if len(calls) == n and vec_dim is not None:
                            for i, ((q, xd), (s_, d_)) in enumerate(zip(calls, own)):
                                qd = d_ if d_ is not None else (M.DIMENSIONLESS if dimp is NONE else dimp)
                                yield f"component-{i}-is-checked-with-its-own-scale-and-dimension", z3.And(q.fields["scale_factor"] == s_, q.fields["dimension"] == qd)
                                yield f"component-{i}-is-checked-against-the-vector-dimension(angle-slots-against-angle)", xd == expected(i, vec_dim)
                                yield f"constructed=>component-{i}-passes", gate_ok(s_, qd, expected(i, vec_dim))
                            if dimp is not NONE:
                                yield "vector-dimension-is-the-declared-one", vec_dim == dimp
                    else:
                        k = len(calls) - 1
                        yield "refused=>some-component-was-checked-and-fails", z3.BoolVal(0 <= k < n)
                        if 0 <= k < n:
                            q, xd = calls[k]
                            s_, d_ = own[k]
                            qd = d_ if d_ is not None else (M.DIMENSIONLESS if dimp is NONE else dimp)
                            yield "refused=>that-component-(with-its-own-dimension)-does-not-pass", z3.And(q.fields["dimension"] == qd, z3.Not(gate_ok(s_, qd, xd)))

                verify_function(ex, "QuantityVector.__init__", setup, post, concretize=RI.concretizer("gate"))
                tag = f"QuantityVector.__init__[components={','.join(kinds) or 'none'};dimension={'given' if dim_given else 'omitted'}]"
                ex.obligations = [(nm.replace("/QuantityVector.__init__/", f"/{tag}/"), h, g_, s_, c_) for nm, h, g_, s_, c_ in ex.obligations]
                execs.append(ex)
    for ex in execs:
        obs.extend(discharge(ex, UNIT))
    report.extend(obs)
    report.function("symplyphysics.core.vectors.vectors.QuantityVector.__init__", PKG / "core/vectors/vectors.py")
    return nshape
