"""C05, second half: Quantity.__init__ against the contract of the collector (callee contract, not its body)."""
from __future__ import annotations

import z3

from ..core import PKG
from ..pyvc import Obj, Opt, NONE, ExcVal, Builtin, TypeRef, GenError, verify_function, discharge
from ..contracts import frontend as FE
from ..contracts import model as M
from . import c05 as C


def run(report):
    e = z3.Const("expr", M.ExprS)
    dimp = Opt(z3.Bool("dimension_is_none"), z3.Const("dimension", M.Dim))
    self_ = Obj("Quantity", {"name": z3.String("self_name")})

    def complex_model(ex, ctx, args, kw):
        FE.assumed("complex(x)", "complex(x) succeeds for every numeric SymPy value (incl. +-oo, NaN) and raises TypeError when free symbols remain")
        v = C.as_val(args[0])
        res = []
        if ex.feasible(ctx, M.v_is_number(v)):
            res.append((ctx.fork(M.v_is_number(v)), ("__complex__", v)))
        if ex.feasible(ctx, z3.Not(M.v_is_number(v))):
            res.append((ctx.fork(z3.Not(M.v_is_number(v))), ExcVal("TypeError")))
        return res

    def super_model(ex, ctx, args, kw):
        return [(ctx, Obj("super", {}))]

    def method(ex, ctx, base, attr, args, kw):
        if isinstance(base, Obj) and base.cls == "super" and attr == "__init__":
            # DimensionSymbol.__init__(display_name, dimension, display_latex=...) -- contract proved in C09
            me = ctx.env["self"]
            me.fields["display_name"] = args[0]
            me.fields["dimension"] = args[1]
            me.fields["display_latex"] = kw.get("display_latex")
            return [(ctx, NONE)]
        if isinstance(base, TypeRef) and base.name == "SI":
            FE.assumed("SI.set_quantity_*", "SI.set_quantity_dimension / set_quantity_scale_factor store the given dimension / factor for the quantity; "
                       ".dimension / .scale_factor read them back")
            if attr == "set_quantity_dimension":
                args[0].fields["si_dimension"] = args[1]
                return [(ctx, NONE)]
            if attr == "set_quantity_scale_factor":
                args[0].fields["scale_factor"] = C.as_val(args[1])
                return [(ctx, NONE)]
        return None

    def truth(ex, v):
        if z3.is_expr(v) and v.sort() == M.Dim:
            FE.assumed("bool(Dimension)", "a Dimension object is truthy")
            return True
        if isinstance(v, tuple) and v and v[0] == "__str__":
            return True
        return None

    g = {"collect_quantity_factor_and_dimension": ("__contract__", "collect_quantity_factor_and_dimension"),
         "complex": Builtin("complex", complex_model), "super": Builtin("super", super_model), "SI": TypeRef("SI")}
    ex = FE.make_exec("core/symbols/quantities.py", "C05", globals_extra=g,
                      contracts={"collect_quantity_factor_and_dimension": C.collect_contract},
                      models={"__method__": method, "__truth__": truth},
                      attr_model=lambda ex, ctx, base, attr: ([(ctx, ("__method__", base, attr))] if isinstance(base, TypeRef) and base.name == "SI" else
                                                              ([(ctx, base.fields[attr])] if isinstance(base, Obj) and attr in base.fields else None)))

    def setup(ex, ctx):
        ctx.assume(*C.spec_axioms(e), M.d_wf(dimp.val))
        return [self_, e], {"display_symbol": Opt(z3.Bool("ds_none"), z3.String("ds")), "display_latex": Opt(z3.Bool("dl_none"), z3.String("dl")),
                            "dimension": dimp}, None

    def post(ex, ctx, out, info):
        if out[0] == "return":
            me = ctx.env["self"]
            yield "constructed=>not-refused", z3.Not(C.SR(e))
            yield "constructed=>scale-factor-is-the-value", me.fields.get("scale_factor") == C.SV(e) if "scale_factor" in me.fields else z3.BoolVal(False)
            d = me.fields.get("dimension")
            sd = me.fields.get("si_dimension")
            if d is None or sd is None:
                yield "constructed=>dimension-set", z3.BoolVal(False)
            else:
                want = z3.Or(z3.And(z3.Not(dimp.is_none), d == dimp.val), z3.And(dimp.is_none, z3.Or(M.v_is_any(C.SV(e)), M.d_equiv(d, C.SD(e)))))
                yield "constructed=>dimension-is-the-supplied-one-or-the-dimensional-product", want
                yield "constructed=>SI-table-gets-the-same-dimension", sd == d
        else:
            yield "refused=>specification-refuses", C.SR(e)
            yield "refused-with-ValueError", z3.BoolVal(out[1].cls == "ValueError")

    verify_function(ex, "Quantity.__init__", setup, post)
    report.extend(discharge(ex, "C05"))
    report.function("symplyphysics.core.symbols.quantities.Quantity.__init__", ex.source_file)
