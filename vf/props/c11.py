"""C11 -- changing coordinate system preserves the geometric vector and scalar field.

Clauses on Vector.rebase / to_sympy_vector / from_sympy_vector, CoordinateSystem.transformation_to_system,
coordinates_transform, the cylindrical/spherical branches of dot_vectors / scale_vector / vector_magnitude, and
ScalarField.rebase / __call__ / apply.  Repository conventions: cylindrical (r, theta, z); spherical (r, theta =
azimuth, phi = polar).  Vectors are position vectors from the origin.
"""
from __future__ import annotations

import sympy as sp
from sympy import sin, cos, pi

from ..symx import Law, Case, run_laws
from ..core import PKG
from .. import axioms

LEVEL = "proof"
MOD = "vf.props.c11"
F = "symplyphysics.core."


def _api():
    from symplyphysics.core.vectors import arithmetics as A
    from symplyphysics.core.vectors.vectors import Vector
    from symplyphysics.core.coordinate_systems.coordinate_systems import CoordinateSystem, coordinates_transform
    from symplyphysics.core.fields.scalar_field import ScalarField
    from symplyphysics.core.points.cartesian_point import CartesianPoint
    from symplyphysics.core.points.cylinder_point import CylinderPoint
    from symplyphysics.core.points.sphere_point import SpherePoint
    return A, Vector, CoordinateSystem, coordinates_transform, ScalarField, CartesianPoint, CylinderPoint, SpherePoint


def pad3(c):
    c = list(c)
    assert len(c) <= 3
    return c + [sp.S.Zero] * (3 - len(c))


def position(kind, q):
    a, b, c = q
    if kind == "cyl":
        return [a * cos(b), a * sin(b), c]
    if kind == "sph":
        return [a * cos(b) * sin(c), a * sin(b) * sin(c), a * cos(c)]
    return [a, b, c]


def laws():
    A, Vector, CS, ctrans, ScalarField, CartesianPoint, CylinderPoint, SpherePoint = _api()
    kinds = {"cart": CS.System.CARTESIAN, "cyl": CS.System.CYLINDRICAL, "sph": CS.System.SPHERICAL}
    pts = {"cart": CartesianPoint, "cyl": CylinderPoint, "sph": SpherePoint}
    out = []

    def law(name, shapes, fns, backend="z3", timeout=60):
        def deco(f):
            out.append(Law(name, shapes, f, functions=[F + x for x in fns], backend=backend, timeout_s=timeout))
            return f
        return deco

    def systems():
        C = CS(kinds["cart"])
        return {"cart": C, "cyl": ctrans(C, kinds["cyl"]), "sph": ctrans(C, kinds["sph"])}

    def dom(kind, q):
        a, b, c = q
        if kind == "cart":
            return [sp.Gt(a**2 + b**2, 0)]
        if kind == "cyl":
            return [sp.Gt(a, 0), sp.Gt(b, -pi), sp.Le(b, pi)]
        return [sp.Gt(a, 0), sp.Gt(b, -pi), sp.Le(b, pi), sp.Gt(c, 0), sp.Lt(c, pi)]

    def kit(kind, q):
        if kind == "cyl":
            return axioms.kit([q[1]], [])
        if kind == "sph":
            return axioms.kit([q[1], q[2]], [q[2]])
        return axioms.kit([], [])

    RB = ["vectors.vectors.Vector.rebase", "vectors.vectors.Vector.to_sympy_vector", "vectors.vectors.Vector.from_sympy_vector",
          "coordinate_systems.coordinate_systems.CoordinateSystem.transformation_to_system",
          "coordinate_systems.coordinate_systems.coordinates_transform"]

    # ---------------------------------------------------------------- round trips
    @law("Vector.rebase/cartesian-to-curvilinear-and-back-is-identity", [("cyl", n) for n in (1, 2, 3)] + [("sph", n) for n in (1, 2, 3)], RB)
    def _(s, g):
        S = systems()
        co = g.syms("c", s[1])
        v = Vector(co, S["cart"])
        back = v.rebase(S[s[0]]).rebase(S["cart"])
        return Case([x - y for x, y in zip(pad3(back.components), pad3(co))], assume=dom("cart", pad3(co)),
                    axioms=kit("cart", pad3(co)))

    @law("Vector.rebase/curvilinear-to-cartesian-and-back-is-identity", [("cyl", 1), ("cyl", 2), ("cyl", 3), ("sph", 3)], RB)
    def _(s, g):
        S = systems()
        co = g.syms("c", s[1])
        v = Vector(co, S[s[0]])
        back = v.rebase(S["cart"]).rebase(S[s[0]])
        q = pad3(co)
        return Case([x - y for x, y in zip(pad3(back.components), q)], assume=dom(s[0], q), axioms=kit(s[0], q))

    @law("Vector.rebase/curvilinear-to-cartesian-is-the-position-map", [(k, n) for k in ("cyl", "sph") for n in range(4)], RB)
    def _(s, g):
        S = systems()
        co = g.syms("c", s[1])
        got = Vector(co, S[s[0]]).rebase(S["cart"])
        return Case([x - y for x, y in zip(pad3(got.components), position(s[0], pad3(co)))], axioms=axioms.kit([], []))

    @law("Vector.rebase/cartesian-to-curvilinear-names-the-same-point", [(k, n) for k in ("cyl", "sph") for n in (1, 2, 3)], RB)
    def _(s, g):
        S = systems()
        co = g.syms("c", s[1])
        got = Vector(co, S["cart"]).rebase(S[s[0]])
        q = pad3(co)
        return Case([x - y for x, y in zip(position(s[0], pad3(got.components)), q)], assume=dom("cart", q), axioms=kit("cart", q))

    @law("Vector.rebase/same-kind-keeps-components", [(k, n) for k in ("cart", "cyl", "sph") for n in (1, 2, 3)], RB)
    def _(s, g):
        S = systems()
        co = g.syms("c", s[1])
        got = Vector(co, S[s[0]]).rebase(S[s[0]])
        return Case([x - y for x, y in zip(pad3(got.components), pad3(co))], axioms=axioms.kit([], []))

    # ---------------------------------------------------------------- curvilinear arithmetic == Cartesian after rebase
    AR = ["vectors.arithmetics.dot_vectors", "vectors.arithmetics.vector_magnitude", "vectors.arithmetics.scale_vector",
          "vectors.arithmetics._extend_two_vectors", "vectors.vectors.Vector.rebase"]

    @law("dot_vectors/curvilinear-equals-cartesian-after-rebase", [(k, m, n) for k in ("cyl", "sph") for m in range(4) for n in range(4)], AR)
    def _(s, g):
        S = systems()
        u = Vector(g.syms("u", s[1]), S[s[0]]); v = Vector(g.syms("v", s[2]), S[s[0]])
        return Case([sp.expand_trig(A.dot_vectors(u, v)) - A.dot_vectors(u.rebase(S["cart"]), v.rebase(S["cart"]))],
                    axioms=axioms.kit([], []))

    @law("vector_magnitude/curvilinear-equals-cartesian-after-rebase", [(k, n) for k in ("cyl", "sph") for n in range(4)], AR)
    def _(s, g):
        S = systems()
        u = Vector(g.syms("u", s[1]), S[s[0]])
        return Case([sp.expand_trig(A.vector_magnitude(u)) - A.vector_magnitude(u.rebase(S["cart"]))], axioms=axioms.kit([], []))

    @law("scale_vector/curvilinear-equals-cartesian-after-rebase", [(k, n) for k in ("cyl", "sph") for n in range(4)], AR)
    def _(s, g):
        S = systems()
        k = g.sym("k")
        u = Vector(g.syms("u", s[1]), S[s[0]])
        l = A.scale_vector(k, u).rebase(S["cart"])
        r = A.scale_vector(k, u.rebase(S["cart"]))
        return Case([x - y for x, y in zip(pad3(l.components), pad3(r.components))], axioms=axioms.kit([], []))

    # ---------------------------------------------------------------- scalar fields
    SF = ["fields.scalar_field.ScalarField.rebase", "fields.scalar_field.ScalarField.__call__", "fields.scalar_field.ScalarField.apply",
          "fields.scalar_field.ScalarField.from_expression", "fields.scalar_field._subs_with_point"]

    # third shape element: how many coordinates the points spell out (omitted coordinates are 0: a planar point, a point on an axis)
    @law("ScalarField.rebase/same-value-at-the-same-physical-point", [("cart", "cyl", 3), ("cart", "sph", 3), ("cyl", "cart", 3), ("sph", "cart", 3),
                                                                       ("cart", "cyl", 2), ("cyl", "cart", 2), ("cart", "cyl", 1), ("cyl", "cart", 1)], SF)
    def _(s, g):
        S = systems()
        src, dst = S[s[0]], S[s[1]]
        n = s[2]
        qs = list(src.coord_system.base_scalars())
        f = sp.Function("f", real=True)
        fld = ScalarField.from_expression(f(*qs), src)
        reb = fld.rebase(dst)
        # a point given in the *curvilinear* system (inside its domain) and its Cartesian position
        cur = s[0] if s[0] != "cart" else s[1]
        q = [g.sym("q0", positive=True), g.sym("q1") if n >= 2 else sp.Integer(0), g.sym("q2") if n >= 3 else sp.Integer(0)]
        p_cur, p_cart = pts[cur](*q[:n]), CartesianPoint(*position(cur, q)[:n])
        p_src, p_dst = (p_cart, p_cur) if s[0] == "cart" else (p_cur, p_cart)
        v_src, v_dst = fld(p_src), reb(p_dst)
        # both are the generic f applied to a coordinate triple: the clause holds iff the triples agree
        if not (isinstance(v_src, sp.core.function.AppliedUndef) and isinstance(v_dst, sp.core.function.AppliedUndef)
                and v_src.func == f and v_dst.func == f):
            raise AssertionError(f"rebased field value is not f(triple): {v_dst}")
        return Case([x - y for x, y in zip(v_dst.args, v_src.args)], assume=dom(cur, q), axioms=kit(cur, q))

    # fields that depend on a SUBSET of the base scalars (an implementation that substitutes "only the scalars the expression uses" must
    # still pair each scalar with its own transformation formula)
    SUBSETS = [(2,), (1,), (1, 2), (0, 2), (0,)]

    @law("ScalarField.rebase/same-value-at-the-same-physical-point/field-depending-on-a-subset-of-the-coordinates",
         [(a, b, sub) for a, b in (("cart", "cyl"), ("cart", "sph"), ("cyl", "cart"), ("sph", "cart")) for sub in SUBSETS], SF)
    def _(s, g):
        S = systems()
        src, dst = S[s[0]], S[s[1]]
        qs = list(src.coord_system.base_scalars())
        f = sp.Function("f", real=True)
        used = [qs[i] for i in s[2]]
        fld = ScalarField.from_expression(f(*used), src)
        reb = fld.rebase(dst)
        cur = s[0] if s[0] != "cart" else s[1]
        q = [g.sym("q0", positive=True), g.sym("q1"), g.sym("q2")]
        p_cur, p_cart = pts[cur](*q), CartesianPoint(*position(cur, q))
        p_src, p_dst = (p_cart, p_cur) if s[0] == "cart" else (p_cur, p_cart)
        v_src, v_dst = fld(p_src), reb(p_dst)
        if not (isinstance(v_src, sp.core.function.AppliedUndef) and isinstance(v_dst, sp.core.function.AppliedUndef)
                and v_src.func == f and v_dst.func == f and len(v_src.args) == len(v_dst.args)):
            raise AssertionError(f"rebased field value is not f(coordinates): {v_dst}")
        return Case([x - y for x, y in zip(v_dst.args, v_src.args)], assume=dom(cur, q), axioms=kit(cur, q))

    @law("ScalarField.rebase/concrete-field-x^2+y*z", [("cart", "cyl"), ("cart", "sph")], SF)
    def _(s, g):
        S = systems()
        src, dst = S[s[0]], S[s[1]]
        x, y, z = src.coord_system.base_scalars()
        k = g.sym("k")
        fld = ScalarField(lambda p: p.x**2 + k * p.y * p.z, src)
        reb = fld.rebase(dst)
        q = [g.sym("q0", positive=True), g.sym("q1"), g.sym("q2")]
        X = position(s[1], q)
        return Case([reb(pts[s[1]](*q)) - (X[0]**2 + k * X[1] * X[2])], axioms=axioms.kit([], []))

    # ---------------------------------------------------------------- refusals
    @law("rebase/direct-cylindrical-spherical-conversion-is-refused", [("cyl", "sph"), ("sph", "cyl")],
         RB + ["fields.scalar_field.ScalarField.rebase"])
    def _(s, g):
        S = systems()

        def thunk():
            errs = 0
            for call in (lambda: S[s[0]].transformation_to_system(kinds[s[1]]),
                         lambda: Vector(g.syms("c", 3), S[s[0]]).rebase(S[s[1]]),
                         lambda: ScalarField.from_expression(sum(S[s[0]].coord_system.base_scalars()), S[s[0]]).rebase(S[s[1]])):
                try:
                    call()
                except ValueError:
                    errs += 1
            if errs == 3:
                raise ValueError("all three refused")
        return Case(raises=ValueError, thunk=thunk)

    @law("ScalarField.__call__/point-of-another-kind-is-refused", [(f, p) for f in ("cart", "cyl", "sph") for p in ("cart", "cyl", "sph") if f != p],
         ["fields.scalar_field.ScalarField.__call__"])
    def _(s, g):
        S = systems()
        fld = ScalarField.from_expression(sum(S[s[0]].coord_system.base_scalars()), S[s[0]])
        return Case(raises=ValueError, thunk=lambda: fld(pts[s[1]](*g.syms("c", 3))))

    return out


def run(report):
    ls = laws()
    for l in ls:
        for f in l.functions:
            rel = f[len(F):]
            parts = rel.split(".")
            path = PKG / "core" / parts[0] / (parts[1] + ".py")
            report.function(f, path)
    run_laws(report, MOD, ls, "C11", plain="quick")
    report.extra["exhaustive"] = True
    report.extra["shape_rule"] = ("both directions of the Cartesian-cylindrical and Cartesian-spherical pairs, component counts "
                                  "0..3 (inverse-trigonometric round trips only off the singular set: lengths 1..3, spherical "
                                  "curvilinear->Cartesian->back only with 3 components)")
    report.trust("CPython 3.12", "SymPy 1.14: sympy.vector express / CoordSys3D, subs, auto-evaluation (cos(atan2), sin(acos))",
                 "expand_trig (angle-difference expansion of the curvilinear dot product)", "z3 5.1 (NRA) / cvc5 1.4")
    report.assume(*axioms.TEXT)
    report.assume("domains: cylindrical r>0, -pi<theta<=pi; spherical r>0, -pi<theta<=pi, 0<phi<pi; Cartesian off the z axis",
                  "scalar fields: rebase acts by substitution, so a generic undefined f covers all field expressions; the clause is "
                  "stated on the argument triple of f")
