"""C12 -- gradient, divergence and curl are the true operators in all three systems.

Clauses on the real functions of core/fields/operators.py (through the real ScalarField / VectorField plumbing),
for generic smooth fields (undefined functions of the three coordinates) -- valid for all fields and all points
of the domain (r > 0, sin(phi) != 0: identities of rational functions hold wherever defined).
"""
from __future__ import annotations

import sympy as sp
from sympy import sin, cos

from ..symx import Law, Case, run_laws
from ..core import PKG

LEVEL = "proof"
MOD = "vf.props.c12"
F = "symplyphysics.core.fields."


def _api():
    from symplyphysics.core.fields import operators as O
    from symplyphysics.core.fields.scalar_field import ScalarField
    from symplyphysics.core.fields.vector_field import VectorField
    from symplyphysics.core.vectors.vectors import Vector
    from symplyphysics.core.coordinate_systems.coordinate_systems import CoordinateSystem
    return O, ScalarField, VectorField, Vector, CoordinateSystem


def canon(expr):
    """Canonical names for partial derivatives of generic functions: D^(i,j,k) F evaluated at a point becomes the
    applied undefined function F__d<ijk>(point).  Works for Derivative(F(x,y,z), x..) and for the
    Subs(Derivative(F(xi, ..), xi), xi, point) forms produced by SymPy's chain rule / substitution."""
    expr = sp.sympify(expr)

    def fix_subs(s):
        d = s.expr
        if not isinstance(d, sp.Derivative) or not isinstance(d.expr, sp.core.function.AppliedUndef):
            return s
        f = d.expr
        mi = [0] * len(f.args)
        for v, n in d.variable_count:
            if v not in f.args:
                return s
            mi[list(f.args).index(v)] += int(n)
        point = [a.subs(dict(zip(s.variables, s.point))) for a in f.args]
        return sp.Function(f"{f.func.__name__}__d{''.join(map(str, mi))}", real=True)(*point)

    def fix_der(d):
        if not isinstance(d.expr, sp.core.function.AppliedUndef):
            return d
        f = d.expr
        mi = [0] * len(f.args)
        for v, n in d.variable_count:
            if v not in f.args or not v.is_Symbol and not v.is_Atom:
                return d
            mi[list(f.args).index(v)] += int(n)
        return sp.Function(f"{f.func.__name__}__d{''.join(map(str, mi))}", real=True)(*f.args)

    expr = expr.replace(lambda e: isinstance(e, sp.Subs), fix_subs)
    expr = expr.replace(lambda e: isinstance(e, sp.Derivative), fix_der)
    return expr


def pad3(c):
    c = list(c)
    return c + [sp.S.Zero] * (3 - len(c))


SYSTEMS = ("cart", "cyl", "sph")


def laws():
    O, ScalarField, VectorField, Vector, CS = _api()
    kinds = {"cart": CS.System.CARTESIAN, "cyl": CS.System.CYLINDRICAL, "sph": CS.System.SPHERICAL}
    out = []

    def law(name, shapes, fns, backend="auto"):
        def deco(f):
            out.append(Law(name, shapes, f, functions=[F + x for x in fns], backend=backend, timeout_s=40))
            return f
        return deco

    def gfield(g, cs, n, prefix="F"):
        q = list(cs.coord_system.base_scalars())
        return VectorField(Vector([g.fun(f"{prefix}{i}", q) for i in range(n)], cs).components, cs), q

    def comps(vf):
        return pad3(vf.apply_to_basis().components)

    # ---------------------------------------------------------------- curl grad = 0, div curl = 0
    @law("curl_operator(gradient_operator)/is-zero", [(k,) for k in SYSTEMS],
         ["operators.curl_operator", "operators.gradient_operator", "scalar_field.ScalarField.apply_to_basis",
          "vector_field.VectorField.from_vector"])
    def _(s, g):
        cs = CS(kinds[s[0]])
        q = list(cs.coord_system.base_scalars())
        f = ScalarField(g.fun("f", q), cs)
        grad = O.gradient_operator(f)
        curl = O.curl_operator(VectorField.from_vector(grad))
        return Case([canon(c) for c in comps(curl)])

    @law("divergence_operator(curl_operator)/is-zero", [(k, n) for k in SYSTEMS for n in range(4)],
         ["operators.divergence_operator", "operators.curl_operator", "vector_field.VectorField.apply_to_basis"])
    def _(s, g):
        cs = CS(kinds[s[0]])
        fld, q = gfield(g, cs, s[1])
        return Case([canon(O.divergence_operator(O.curl_operator(fld)))])

    # ---------------------------------------------------------------- fewer components == zero padded
    @law("divergence_operator,curl_operator/fewer-components-behave-as-zero-padded",
         [(k, n) for k in SYSTEMS for n in range(3)], ["operators.divergence_operator", "operators.curl_operator"])
    def _(s, g):
        cs = CS(kinds[s[0]])
        q = list(cs.coord_system.base_scalars())
        c = [g.fun(f"F{i}", q) for i in range(s[1])]
        short, full = VectorField(c, cs), VectorField(pad3(c), cs)
        res = [canon(O.divergence_operator(short) - O.divergence_operator(full))]
        res += [canon(a - b) for a, b in zip(comps(O.curl_operator(short)), comps(O.curl_operator(full)))]
        return Case(res)

    # ---------------------------------------------------------------- Cartesian case against the definitions
    @law("cartesian/gradient,divergence,curl-equal-their-definitions", [(n,) for n in range(4)],
         ["operators.gradient_operator", "operators.divergence_operator", "operators.curl_operator"])
    def _(s, g):
        cs = CS(kinds["cart"])
        x, y, z = q = list(cs.coord_system.base_scalars())
        f = g.fun("f", q)
        grad = O.gradient_operator(ScalarField(f, cs))
        res = [a - b for a, b in zip(pad3(grad.components), [sp.diff(f, x), sp.diff(f, y), sp.diff(f, z)])]
        res.append(sp.Integer(len(grad.components) - 3))
        P, Q, R = pad3([g.fun(f"F{i}", q) for i in range(s[0])])
        fld = VectorField([P, Q, R][:s[0]], cs)
        res.append(O.divergence_operator(fld) - (sp.diff(P, x) + sp.diff(Q, y) + sp.diff(R, z)))
        want = [sp.diff(R, y) - sp.diff(Q, z), sp.diff(P, z) - sp.diff(R, x), sp.diff(Q, x) - sp.diff(P, y)]
        res += [a - b for a, b in zip(comps(O.curl_operator(fld)), want)]
        return Case([canon(r) for r in res])

    # ---------------------------------------------------------------- curvilinear == Cartesian in the local basis
    def local_frame(kind, q):
        """position (x, y, z) as functions of the curvilinear coordinates and the local orthonormal basis, in the
        component ORDER of the repository's systems: cylindrical (r, theta, z); spherical (r, theta=azimuth, phi=polar)."""
        if kind == "cyl":
            r, t, z = q
            pos = (r * cos(t), r * sin(t), z)
            basis = [(cos(t), sin(t), 0), (-sin(t), cos(t), 0), (0, 0, 1)]
        else:
            r, t, p = q
            pos = (r * sin(p) * cos(t), r * sin(p) * sin(t), r * cos(p))
            basis = [(sin(p) * cos(t), sin(p) * sin(t), cos(p)), (-sin(t), cos(t), 0),
                     (cos(p) * cos(t), cos(p) * sin(t), -sin(p))]
        return pos, basis

    def at(expr, cart_scalars, pos):
        return expr.subs(dict(zip(cart_scalars, pos)), simultaneous=True)

    @law("gradient_operator/curvilinear-equals-cartesian-gradient-in-local-basis", [("cyl",), ("sph",)],
         ["operators.gradient_operator", "scalar_field.ScalarField.apply_to_basis"])
    def _(s, g):
        cart = CS(kinds["cart"]); cur = CS(kinds[s[0]])
        X = list(cart.coord_system.base_scalars()); q = list(cur.coord_system.base_scalars())
        pos, basis = local_frame(s[0], q)
        G = g.fun("G", X)
        gc = O.gradient_operator(ScalarField(G, cart)).components  # real Cartesian code
        gc_at = [at(c, X, pos) for c in gc]
        want = [sum(b[i] * gc_at[i] for i in range(3)) for b in basis]
        got = O.gradient_operator(ScalarField(at(G, X, pos), cur)).components  # real curvilinear code on the pull-back
        return Case([canon(a.doit() - b.doit()) for a, b in zip(pad3(got), want)])

    @law("divergence_operator,curl_operator/curvilinear-equal-cartesian-in-local-basis",
         [(k, n) for k in ("cyl", "sph") for n in (1, 2, 3)],
         ["operators.divergence_operator", "operators.curl_operator", "vector_field.VectorField.apply_to_basis"])
    def _(s, g):
        cart = CS(kinds["cart"]); cur = CS(kinds[s[0]])
        X = list(cart.coord_system.base_scalars()); q = list(cur.coord_system.base_scalars())
        pos, basis = local_frame(s[0], q)
        # generic Cartesian field with the first n *local* components non-zero:  F = sum_{i<n} A_i(x,y,z) e_i(x,y,z)
        # is awkward to write in x,y,z; use instead a fully generic Cartesian field (P,Q,R) and restrict the number of
        # *Cartesian* components for n<3 only in the Cartesian reference (padded); the curvilinear input always
        # carries the three local projections (a rotation of a padded field has three components in general).
        PQR = pad3([g.fun(f"F{i}", X) for i in range(s[1])])
        cfld = VectorField(PQR, cart)
        div_c = at(O.divergence_operator(cfld), X, pos)
        curl_c = [at(c, X, pos) for c in comps(O.curl_operator(cfld))]
        want_curl = [sum(b[i] * curl_c[i] for i in range(3)) for b in basis]
        PQR_at = [at(c, X, pos) for c in PQR]
        local = [sum(b[i] * PQR_at[i] for i in range(3)) for b in basis]
        fld = VectorField(local, cur)
        res = [canon((O.divergence_operator(fld) - div_c).doit())]
        res += [canon((a - b).doit()) for a, b in zip(comps(O.curl_operator(fld)), want_curl)]
        return Case(res)

    # ---------------------------------------------------------------- components that do NOT depend on every coordinate
    # The textbook formulas below are first validated against the real operators on fully generic fields (which the laws above
    # prove equal to the Cartesian operators in the local basis), then the real operators are held to them on fields whose
    # components are constants, depend only on their own coordinate, or only on the other two -- the cases a generic function of all
    # three coordinates cannot reach (a code path that tests `component.has(variable)` / differentiates conditionally).
    def textbook(kind, A, q):
        A = pad3(A)
        if kind == "cyl":
            r, t, z = q
            div = sp.diff(r * A[0], r) / r + sp.diff(A[1], t) / r + sp.diff(A[2], z)
            curl = [sp.diff(A[2], t) / r - sp.diff(A[1], z), sp.diff(A[0], z) - sp.diff(A[2], r), (sp.diff(r * A[1], r) - sp.diff(A[0], t)) / r]
        else:
            r, t, p = q  # components ordered (r, theta=azimuth, phi=polar); right-handed frame (r, phi, theta)
            div = sp.diff(r**2 * A[0], r) / r**2 + sp.diff(A[1], t) / (r * sin(p)) + sp.diff(sin(p) * A[2], p) / (r * sin(p))
            curl_r = (sp.diff(sin(p) * A[1], p) - sp.diff(A[2], t)) / (r * sin(p))
            curl_p = (sp.diff(A[0], t) / sin(p) - sp.diff(r * A[1], r)) / r
            curl_t = (sp.diff(r * A[2], r) - sp.diff(A[0], p)) / r
            curl = [curl_r, curl_t, curl_p]
        return div, curl

    DEP = ["all", "const", "own", "others", "mixed"]

    def dep_components(g, q, n, dep):
        out_ = []
        for i in range(n):
            d = dep if dep != "mixed" else ("const", "others", "own")[i]
            if d == "all":
                out_.append(g.fun(f"A{i}", q))
            elif d == "const":
                out_.append(g.sym(f"c{i}"))
            elif d == "own":
                out_.append(g.fun(f"A{i}", [q[i]]))
            else:
                out_.append(g.fun(f"A{i}", [x for j, x in enumerate(q) if j != i]))
        return out_

    @law("divergence_operator,curl_operator/equal-the-textbook-formulas-also-for-components-independent-of-some-coordinates",
         [(k, n, d) for k in ("cyl", "sph") for n in (1, 2, 3) for d in DEP],
         ["operators.divergence_operator", "operators.curl_operator"])
    def _(s, g):
        cur = CS(kinds[s[0]])
        q = list(cur.coord_system.base_scalars())
        A = dep_components(g, q, s[1], s[2])
        fld = VectorField(A, cur)
        div_w, curl_w = textbook(s[0], A, q)
        res = [canon((O.divergence_operator(fld) - div_w).doit())]
        res += [canon((a - b).doit()) for a, b in zip(comps(O.curl_operator(fld)), curl_w)]
        return Case(res)

    # ONE non-zero component that depends on a SUBSET of the coordinates, the others literally zero (or missing): the shapes a
    # shortcut such as "a radial field that does not depend on the angles is irrotational" keys on (true in spherical
    # coordinates, false in cylindrical ones, where z is not an angle)
    SUBSETS = [(0,), (1,), (2,), (0, 1), (0, 2), (1, 2), (0, 1, 2)]

    @law("divergence_operator,curl_operator/equal-the-textbook-formulas-for-one-non-zero-component-depending-on-a-subset-of-coordinates",
         [(k, i, sub, full) for k in ("cyl", "sph") for i in range(3) for sub in SUBSETS for full in (True, False)],
         ["operators.divergence_operator", "operators.curl_operator"])
    def _(s, g):
        k, i, sub, full = s
        cur = CS(kinds[k])
        q = list(cur.coord_system.base_scalars())
        comp = g.fun("G", [q[j] for j in sub])
        A = [sp.S.Zero] * 3
        A[i] = comp
        given = A if full else A[:i + 1]
        fld = VectorField(list(given), cur)
        div_w, curl_w = textbook(k, A, q)
        res = [canon((O.divergence_operator(fld) - div_w).doit())]
        res += [canon((a - b).doit()) for a, b in zip(comps(O.curl_operator(fld)), curl_w)]
        return Case(res)

    return out


def run(report):
    ls = laws()
    for l in ls:
        for f in l.functions:
            mod = f[len("symplyphysics."):].rsplit(".", 2 if "Field." in f else 1)[0]
            report.function(f, PKG / (mod.replace(".", "/") + ".py"))
    run_laws(report, MOD, ls, "C12", plain="quick")
    report.extra["exhaustive"] = True
    report.extra["shape_rule"] = "three coordinate systems x component counts 0..3; fields are undefined functions of the base scalars"
    report.trust("CPython 3.12", "SymPy 1.14: diff (chain rule, symmetric mixed partials of undefined functions), subs, "
                 "auto-evaluation", "sympy.polys for the nf back end (normal form modulo sin^2+cos^2=1)", "z3 5.1 / cvc5 1.4")
    report.assume("fields are twice continuously differentiable (mixed partials commute: SymPy canonical Derivative order)",
                  "domain r > 0, sin(phi) != 0: identities of rational functions, valid wherever defined",
                  "local orthonormal frames and position maps of the cylindrical (r, theta, z) and spherical "
                  "(r, theta=azimuth, phi=polar) systems are written in vf/props/c12.py from the standard definitions")
