"""C09 -- distinct symbols never alias; clones keep dimension and assumptions.

Proved (pyvc, from the real AST): next_id / last_id / next_name (fresh, monotone, framed counter per prefix),
_process_subscript_and_names, clone_as_symbol / clone_as_function / clone_as_indexed (forwarding of dimension, names,
subscript, assumptions), DimensionSymbol.__init__.
Assumed + bounded stand-in: SymPy structural equality of symbols with distinct generated names.
"""
from __future__ import annotations

import ast
import itertools

import z3

from ..core import PKG, Ob, PROVED, REFUTED, FAULT
from ..pyvc import Exec, Ctx, Obj, Opt, NONE, ExcVal, Builtin, TypeRef, GenError, verify_function, discharge
from ..contracts import frontend as FE

LEVEL = "proof"
S = z3.StringSort()
HAS = lambda: z3.Array("_ids_has", S, z3.BoolSort())
VAL = lambda: z3.Array("_ids_val", S, z3.IntSort())


# ---------------------------------------------------------------------------------------- heap model of `_ids: dict[str, int]`
def ids_models():
    def method(ex, ctx, base, attr, args, kw):
        if isinstance(base, tuple) and base[:2] == ("__heap__", "_ids"):
            has, val = ctx.heap["_ids"]
            if attr == "get":
                k = args[0] if not isinstance(args[0], str) else z3.StringVal(args[0])
                return [(ctx, Opt(z3.Not(z3.Select(has, k)), z3.Select(val, k)))]
        return None

    def setitem(ex, ctx, target_node, base, idx, v):
        if isinstance(base, tuple) and base[:2] == ("__heap__", "_ids"):
            has, val = ctx.heap["_ids"]
            k = idx if not isinstance(idx, str) else z3.StringVal(idx)
            v = ex.unopt(v, ctx, "store")
            ctx.heap["_ids"] = (z3.Store(has, k, z3.BoolVal(True)), z3.Store(val, k, ex.znum(v)))
            return [ctx]
        raise GenError("store")

    def getitem(ex, ctx, base, idx):
        if isinstance(base, tuple) and base[:2] == ("__heap__", "_ids"):
            has, val = ctx.heap["_ids"]
            k = idx if not isinstance(idx, str) else z3.StringVal(idx)
            res = []
            if ex.feasible(ctx, z3.Select(has, k)):
                res.append((ctx.fork(z3.Select(has, k)), z3.Select(val, k)))
            if ex.feasible(ctx, z3.Not(z3.Select(has, k))):
                res.append((ctx.fork(z3.Not(z3.Select(has, k))), ExcVal("KeyError", (k,))))
            return res
        return None

    return {"__method__": method, "__setitem__": setitem, "__getitem__": getitem}


def id_generator_obligations():
    ex = FE.make_exec("core/symbols/id_generator.py", "C09", models=ids_models())
    has0, val0 = HAS(), VAL()
    base = z3.String("base")
    other = z3.String("other")
    # representation invariant of the counter table: stored ids are >= 1 (established by the only writer, see below)
    inv0 = z3.Implies(z3.Select(has0, base), z3.Select(val0, base) >= 1)
    old = z3.If(z3.Select(has0, base), z3.Select(val0, base), z3.IntVal(0))

    def setup(ex, ctx):
        ctx.heap["_ids"] = (has0, val0)
        ctx.assume(inv0)
        return [base], {}, None

    def post(ex, ctx, out, info):
        if out[0] != "return":
            yield "never-raises", z3.BoolVal(False)
            return
        r = ex.znum(ex.unopt(out[1], ctx, "result"))
        has1, val1 = ctx.heap["_ids"]
        yield "result==old+1", r == old + 1
        yield "fresh:result>every-id-issued-before", r > old
        yield "stores-result", z3.And(z3.Select(has1, base), z3.Select(val1, base) == r)
        yield "frame:other-prefixes-unchanged", z3.Implies(other != base, z3.And(z3.Select(has1, other) == z3.Select(has0, other),
                                                                                  z3.Select(val1, other) == z3.Select(val0, other)))
        yield "invariant-preserved:stored-ids>=1", z3.Select(val1, base) >= 1

    def conc(m, name):
        """z3 model -> real dict state + prefix; run the real next_id and evaluate the contract on the real outcome"""
        b = m.eval(base, model_completion=True).as_string()
        keys = {b, m.eval(other, model_completion=True).as_string(), "", "SYM"}
        st = {}
        for k in keys:
            if z3.is_true(m.eval(z3.Select(has0, z3.StringVal(k)), model_completion=True)):
                st[k] = m.eval(z3.Select(val0, z3.StringVal(k)), model_completion=True).as_long()
        script = (
            "import symplyphysics.core.symbols.id_generator as g\n"
            f"g._ids.clear(); g._ids.update({st!r}); old = dict(g._ids); base = {b!r}\n"
            "r = g.next_id(base)\n"
            "assert r == old.get(base, 0) + 1, ('next_id returned', r, 'after', old)\n"
            "assert g._ids.get(base) == r, ('stored', g._ids.get(base), 'returned', r)\n"
            "assert all(g._ids.get(k) == v for k, v in old.items() if k != base) and set(g._ids) <= set(old) | {base}, ('frame', old, g._ids)\n")
        from ..core import try_replay
        return try_replay(script)

    n1 = verify_function(ex, "next_id", setup, post, concretize=conc)

    def setup2(ex, ctx):
        ctx.heap["_ids"] = (has0, val0)
        return [base], {}, None

    def post2(ex, ctx, out, info):
        if out[0] == "return":
            yield "returns-stored-id-iff-registered", z3.And(z3.Select(has0, base), ex.znum(out[1]) == z3.Select(val0, base))
            yield "frame:no-write", z3.And(ctx.heap["_ids"][0] == has0, ctx.heap["_ids"][1] == val0)
        else:
            yield "raises-KeyError-iff-unregistered", z3.And(z3.BoolVal(out[1].cls == "KeyError"), z3.Not(z3.Select(has0, base)))

    n2 = verify_function(ex, "last_id", setup2, post2)
    obs = discharge(ex, "C09")
    # single-writer scan: `_ids` is written only inside next_id, anywhere in the tree (syntactic obligation)
    writers = []
    for p in sorted(PKG.rglob("*.py")):
        try:
            t = ast.parse(p.read_text())
        except SyntaxError:
            continue
        for n in ast.walk(t):
            tgt = None
            if isinstance(n, (ast.Assign, ast.AugAssign, ast.AnnAssign)):
                tg = n.targets if isinstance(n, ast.Assign) else [n.target]
                for x in tg:
                    if isinstance(x, ast.Subscript) and isinstance(x.value, (ast.Name, ast.Attribute)) and \
                            (getattr(x.value, "id", None) == "_ids" or getattr(x.value, "attr", None) == "_ids"):
                        writers.append(f"{p.relative_to(PKG)}:{n.lineno}")
            if isinstance(n, ast.Call) and isinstance(n.func, ast.Attribute) and n.func.attr in ("clear", "pop", "update", "setdefault", "popitem") \
                    and (getattr(n.func.value, "id", None) == "_ids" or getattr(n.func.value, "attr", None) == "_ids"):
                writers.append(f"{p.relative_to(PKG)}:{n.lineno}")
            if isinstance(n, ast.ImportFrom) and n.module and n.module.endswith("id_generator"):
                if any(a.name == "_ids" for a in n.names):
                    writers.append(f"{p.relative_to(PKG)}:{n.lineno} imports _ids")
    ok = len(writers) == 1 and writers[0].startswith("core/symbols/id_generator.py")
    obs.append(Ob("C09/id_generator._ids/single-writer-is-next_id", PROVED if ok else REFUTED, "ast-scan", 0.0,
                  "" if ok else f"writers: {writers}", "",
                  None if ok else {"reproduced": True, "script": f"assert False, 'other writers of _ids: {writers}'"}))
    return ex, obs, n1 + n2


def run(report):
    try:
        ex, obs, npaths = id_generator_obligations()
    except Exception as e:  # left the modelled subset: fault + executable-contract search
        # the counter table left the modelled shape (module-level dict written by next_id only): checker fault, and the executed
        # history checks below still run and report real aliasing as a violation
        report.fault(f"VC generation for id_generator failed: {type(e).__name__}: {e}")
        from . import c09_names
        try:
            c09_names.run(report)
        except Exception as e2:
            report.fault(f"VC generation for symbols.py failed: {type(e2).__name__}: {e2}")
            c09_names.bounded_aliasing(report)
            c09_names.clone_battery(report)
        return
    report.extend(obs)
    report.function("symplyphysics.core.symbols.id_generator.next_id", ex.source_file)
    report.function("symplyphysics.core.symbols.id_generator.last_id", ex.source_file)
    report.extra["paths"] = npaths
    from . import c09_names
    try:
        c09_names.run(report)
    except Exception as e2:  # symbols.py left the modelled subset: fault, and the executed scenarios still judge the real code
        report.fault(f"VC generation for symbols.py failed: {type(e2).__name__}: {e2}")
        c09_names.bounded_aliasing(report)
        c09_names.clone_battery(report)
    from ..contracts import audit
    audit.run(report)
    report.trust("CPython 3.12 (subset of DESIGN 3.A)", "z3 5.1 arrays/strings", "SymPy 1.14 structural equality of Symbol/Function/Quantity by (class, name, assumptions)")
    report.assume(*[f"{k}: {v}" for k, v in FE.ASSUMED.items()])
