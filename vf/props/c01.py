"""C01 -- every published law equation is dimensionally homogeneous (engine D `dimtype`, DESIGN 3.D / C01).

Enumeration (complete): every .py file under symplyphysics/{laws,definitions,conditions} of VERIF_REPO is imported as
the real module (each in a freshly forked worker whose parent has imported only `symplyphysics`); every Relational --
or list/tuple/dict of Relationals -- bound to a public module attribute is an equation under contract.

Contract: the declared dimension of each symbol / function / constant (read from the real objects) is the precondition
on the values it stands for; the postcondition is the rule set of vf.dimtype, copied from the property statement.
Obligations: one per typed node clause (`C01/<module>.<attr>/<node-path>:<clause>`) plus one per equation
(`.../equation:exists-typing`), all linear rational arithmetic, discharged by z3 for all values of all symbols and of
symbolic exponents.
"""
from __future__ import annotations

import multiprocessing as mp
import os
from collections import Counter

from ..core import PKG, die_with_parent
from .. import dimtype

LEVEL = "proof"
TOPS = ("laws", "definitions", "conditions")


def module_files():
    out = []
    for top in TOPS:
        for p in sorted((PKG / top).rglob("*.py")):
            if p.name == "__init__.py":
                continue
            out.append(("symplyphysics." + str(p.relative_to(PKG))[:-3].replace(os.sep, "."), p))
    return out


def _work(modname):
    try:
        return dimtype.check_module(modname)
    except BaseException as ex:  # never lose a module silently
        import traceback
        return {"module": modname, "obs": [], "equations": 0, "kinds": {}, "out_of_reach": [], "import_error": None,
                "main_attrs": {}, "ast_names_missing": [], "refuted": [], "attrs": [],
                "crash": f"{type(ex).__name__}: {ex}\n" + traceback.format_exc()[-800:]}


def run(report):
    import symplyphysics  # noqa: F401  base state inherited by every forked worker (deterministic generated names)

    files = module_files()
    mods = [m for m, _ in files]
    nproc = max(1, min(16, os.cpu_count() or 1, int(os.environ.get("VERIF_PROCS", "16"))))
    ctx = mp.get_context("fork")
    with ctx.Pool(processes=nproc, maxtasksperchild=1, initializer=die_with_parent) as pool:
        results = list(pool.imap_unordered(_work, mods, chunksize=1))
    results.sort(key=lambda r: r["module"])
    if {r["module"] for r in results} != set(mods) or len(results) != len(mods):
        report.fault("worker results do not cover the module list")

    kinds = Counter()
    n_eq = 0
    import_failures, no_equation, function_form, collapsed = [], [], [], []
    oor_kinds = Counter()
    refuted = []
    for r in results:
        m = r["module"]
        if r.get("crash"):
            report.fault(f"worker crashed on {m}: {r['crash'][:300]}")
            continue
        if r["import_error"]:
            import_failures.append({"module": m, "error": r["import_error"]})
            report.fault(f"module does not import (harvest incomplete): {m}: {r['import_error'][:200]}")
            if not r.get("partial"):
                continue
            import_failures[-1]["equations_bound_before_the_failure_typed"] = r["equations"]
        report.extend(r["obs"])
        n_eq += r["equations"]
        kinds.update(r["kinds"])
        refuted.extend(r["refuted"])
        for what, kind, why in r["out_of_reach"]:
            report.add_out_of_reach(what, f"{kind}: {why}")
            oor_kinds[kind] += 1
        # vacuity guards
        if r["equations"] == 0:
            no_equation.append(m)
        for attr, tname in r["main_attrs"].items():
            if attr in r["attrs"]:
                continue
            if tname in ("function", "module"):
                function_form.append(f"{m}.{attr} ({tname})")
            else:
                report.fault(f"{m}.{attr} is a {tname}, not an equation object: the module publishes no equation under "
                             f"its main name")
        for nm in r["ast_names_missing"]:
            collapsed.append(f"{m}.{nm}")
            report.fault(f"{m}.{nm} is written as a relational in the source but the imported object is not a "
                         f"Relational (auto-evaluated to a truth value?)")

    # modules that publish their law as a Python function over Vector / field objects: no equation object exists
    fn_modules = [m for m in no_equation]
    if fn_modules:
        report.add_out_of_reach(
            f"{len(fn_modules)} modules without any published Relational (vector / field laws written as Python functions)",
            "the property quantifies over equation objects; these modules export none (listed in "
            "coverage.modules_without_equation_object); their formulas are covered by C02/C10-C16")
    report.extra["modules"] = len(mods)
    report.extra["modules_imported"] = len(mods) - len(import_failures)
    report.extra["equations"] = n_eq
    report.extra["node_kinds"] = dict(sorted(kinds.items(), key=lambda kv: -kv[1]))
    report.extra["import_failures"] = import_failures
    report.extra["modules_without_equation_object"] = no_equation
    report.extra["main_attribute_is_function_or_module"] = function_form
    report.extra["out_of_reach_node_kinds"] = dict(oor_kinds)
    report.extra["refuted_details"] = refuted
    report.extra["processes"] = nproc
    report.extra["exhaustive"] = True
    if len(mods) < 600:
        report.fault(f"only {len(mods)} module files found under {PKG} (vacuity guard: expected about 700)")
    if n_eq < 600:
        report.fault(f"only {n_eq} equations harvested (vacuity guard: expected about 680)")

    # things under contract: the leaf-declaration machinery; per-module files are counted, not listed
    sym = PKG / "core/symbols/symbols.py"
    for q in ("DimensionSymbol.dimension", "Symbol", "Function", "IndexedSymbol", "clone_as_symbol", "clone_as_function",
              "clone_as_indexed"):
        report.function(f"symplyphysics.core.symbols.symbols.{q}", sym, "declared dimension of leaves")
    report.function("symplyphysics.core.symbols.quantities.Quantity", PKG / "core/symbols/quantities.py",
                    "declared dimension of constants")
    report.function("symplyphysics.quantities", PKG / "quantities/__init__.py", "constants used in equations")
    report.function("symplyphysics.core.operations.symbolic.Symbolic", PKG / "core/operations/symbolic.py",
                    "wrappers typed through .factor (their own .dimension is not trusted)")
    report.function("symplyphysics.core.dimensions.dimensions.any_dimension", PKG / "core/dimensions/dimensions.py",
                    "wildcard dimension")
    report.trust("CPython 3.12", "z3 5.1 linear real arithmetic",
                 "sympy.physics.units dimsys_SI.get_dimensional_dependencies (SI exponent vector of a declared Dimension)",
                 "SymPy 1.14 expression trees: args/lhs/rhs/limits/variable_count accessors; sympy.Poly coefficient "
                 "extraction for symbolic exponents",
                 "an auto-evaluated equation has the same terms as its source (terms SymPy cancelled cannot be "
                 "inhomogeneous any more)")
    report.assume("angle is erased (dimensionless); 0, +-oo, nan and symbols/functions declared any_dimension match "
                  "anything (a fresh vector per occurrence)",
                  "undeclared plain SymPy symbols / functions / sympy.vector base scalars have one unknown dimension "
                  "each per equation (existentially quantified)",
                  "log, inverse trigonometric/hyperbolic and special functions return a dimensionless value and "
                  "constrain nothing (the statement lists only exp/trig/hyperbolic)",
                  "sympy.vector.Laplacian divides by length**2 (the repository states this intent next to its use)",
                  "O(...) terms match anything (arbitrary implied constant)",
                  "Sum/Product/IndexedSum/IndexedProduct keep the dimension of their body",
                  "arguments passed to applied library functions are typed for internal homogeneity only")
