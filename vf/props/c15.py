"""C15 -- experimental coordinate conversions are consistent and geometry-preserving.

Clauses on express_base_scalars / express_base_vectors (all 7 overloads each), convert_point, convert_vector,
lame_coefficients, AppliedPoint.__init__, for all points of each system's domain (generic coordinates).
The Cartesian position map and local frames used as the geometric oracle are written here from the definitions:
  cylindrical (rho, phi, z):    (rho cos phi, rho sin phi, z)
  spherical (r, theta, phi):    (r sin theta cos phi, r sin theta sin phi, r cos theta)   theta polar, phi azimuth
"""
from __future__ import annotations

import itertools

import sympy as sp
from sympy import sin, cos, pi

from ..symx import Law, Case, run_laws
from ..core import PKG
from .. import axioms

LEVEL = "proof"
MOD = "vf.props.c15"
F = "symplyphysics.core.experimental."
KINDS = ("cart", "cyl", "sph")


def _api():
    from symplyphysics.core.experimental import coordinate_systems as CSM
    from symplyphysics.core.experimental.points import AppliedPoint
    return CSM, AppliedPoint


def position(kind, q):
    a, b, c = q
    if kind == "cart":
        return [a, b, c]
    if kind == "cyl":
        return [a * cos(b), a * sin(b), c]
    return [a * sin(b) * cos(c), a * sin(b) * sin(c), a * cos(b)]


def frame(kind, q):
    """rows: local orthonormal basis vectors (in the repository's component order) in Cartesian components"""
    a, b, c = q
    if kind == "cart":
        return [[1, 0, 0], [0, 1, 0], [0, 0, 1]]
    if kind == "cyl":
        return [[cos(b), sin(b), 0], [-sin(b), cos(b), 0], [0, 0, 1]]
    return [[sin(b) * cos(c), sin(b) * sin(c), cos(b)], [cos(b) * cos(c), cos(b) * sin(c), -sin(b)], [-sin(c), cos(c), 0]]


def domain(kind, q, other=None):
    a, b, c = q
    if kind == "cart":
        return [sp.Gt(a**2 + b**2, 0)]
    if kind == "cyl":
        return [sp.Gt(a, 0), sp.Gt(b, -pi), sp.Le(b, pi)]
    return [sp.Gt(a, 0), sp.Gt(b, 0), sp.Lt(b, pi), sp.Gt(c, -pi), sp.Le(c, pi)]


def angles(kind, q):
    if kind == "cyl":
        return [q[1]]
    if kind == "sph":
        return [q[1], q[2]]
    return []


def polar(kind, q):
    return [q[1]] if kind == "sph" else []


def laws():
    CSM, AppliedPoint = _api()
    cls = {"cart": CSM.CartesianCoordinateSystem, "cyl": CSM.CylindricalCoordinateSystem, "sph": CSM.SphericalCoordinateSystem}
    ebs, ebv = CSM.express_base_scalars, CSM.express_base_vectors
    out = []
    pairs = list(itertools.permutations(KINDS, 2))
    triples = list(itertools.permutations(KINDS, 3))

    def law(name, shapes, fns, backend="auto", timeout=60):
        def deco(f):
            out.append(Law(name, shapes, f, functions=[F + x for x in fns], backend=backend, timeout_s=timeout))
            return f
        return deco

    def matrix(A, B):
        """coefficient matrix of express_base_vectors(A, B): row i = old base vector i in the new basis"""
        P = sp.Symbol("P")
        m = ebv(A, B, old_args=(P,), new_args=(P,))
        tgt = list(B.base_vectors(P))
        rows = []
        for old in A.base_vectors(P):
            e = sp.expand(m.get(old, old))
            row = [e.coeff(t) for t in tgt]
            rest = sp.expand(e - sum(c * t for c, t in zip(row, tgt)))
            if rest != 0:
                raise AssertionError(f"base vector image not a linear combination of the new basis: {rest}")
            rows.append(row)
        return sp.Matrix(rows)

    # ------------------------------------------------------------------ scalars: round trip
    @law("express_base_scalars/round-trip-is-identity-on-domain", pairs, ["coordinate_systems.express_base_scalars"], backend="z3")
    def _(s, g):
        A, B = cls[s[0]](), cls[s[1]]()
        qa = list(A.base_scalars)
        m_ab = ebs(A, B)  # A scalars in terms of B scalars
        m_ba = ebs(B, A)  # B scalars in terms of A scalars
        res = [m_ab[a].subs(m_ba, simultaneous=True) - a for a in qa]
        return Case(res, assume=domain(s[0], qa), axioms=axioms.kit(angles(s[0], qa), polar(s[0], qa)))

    @law("express_base_scalars/agrees-with-the-cartesian-position-map", pairs, ["coordinate_systems.express_base_scalars"], backend="z3")
    def _(s, g):
        # position_A(q_A(q_B)) == position_B(q_B): the two coordinate triples name the same physical point
        A, B = cls[s[0]](), cls[s[1]]()
        qa, qb = list(A.base_scalars), list(B.base_scalars)
        m_ab = ebs(A, B)
        pa = [c.subs(m_ab, simultaneous=True) for c in position(s[0], qa)]
        pb = position(s[1], qb)
        return Case([x - y for x, y in zip(pa, pb)], assume=domain(s[1], qb), axioms=axioms.kit(angles(s[1], qb), polar(s[1], qb)))

    @law("express_base_scalars/direct-equals-via-third-system", triples, ["coordinate_systems.express_base_scalars"], backend="z3")
    def _(s, g):
        A, B, C = cls[s[0]](), cls[s[1]](), cls[s[2]]()
        qa, qc = list(A.base_scalars), list(C.base_scalars)
        m_ac, m_ab, m_bc = ebs(A, C), ebs(A, B), ebs(B, C)
        res = [m_ab[a].subs(m_bc, simultaneous=True) - m_ac[a] for a in qa]
        return Case(res, assume=domain(s[2], qc), axioms=axioms.kit(angles(s[2], qc), polar(s[2], qc)))

    @law("express_base_scalars/same-kind-is-renaming;unsupported-pair-raises-TypeError", [(k,) for k in KINDS],
         ["coordinate_systems.express_base_scalars", "coordinate_systems.express_base_vectors"])
    def _(s, g):
        A, B = cls[s[0]](), cls[s[0]]()
        m = ebs(A, B)
        res = [m[a] - b for a, b in zip(A.base_scalars, B.base_scalars)]

        class Other(CSM.BaseCoordinateSystem):
            _base_scalar_dimensions = staticmethod(cls["cart"]._base_scalar_dimensions)
            _generate_base_scalars = staticmethod(cls["cart"]._generate_base_scalars)
            _generate_base_vectors = staticmethod(cls["cart"]._generate_base_vectors)
            lame_coefficients = property(lambda self: (1, 1, 1))
        o = Other()
        for fn, args in ((ebs, (A, o)), (ebs, (o, A)), (ebv, (A, o)), (ebv, (o, A))):
            try:
                fn(*args)
                res.append(sp.Integer(1))
            except TypeError:
                res.append(sp.Integer(0))
        return Case(res)

    # ------------------------------------------------------------------ base vectors: rotation, inverse, composition
    @law("express_base_vectors/is-orthonormal-rotation", pairs, ["coordinate_systems.express_base_vectors"], backend="z3")
    def _(s, g):
        A, B = cls[s[0]](), cls[s[1]]()
        qb = list(B.base_scalars)
        M = matrix(A, B)
        G = M * M.T - sp.eye(3)
        return Case(list(G) + [M.det() - 1], assume=domain(s[1], qb), axioms=axioms.kit((), polar(s[1], qb)))

    @law("express_base_vectors/reverse-conversion-is-the-inverse", pairs,
         ["coordinate_systems.express_base_vectors", "coordinate_systems.express_base_scalars"], backend="z3")
    def _(s, g):
        A, B = cls[s[0]](), cls[s[1]]()
        qb = list(B.base_scalars)
        M_ab = matrix(A, B)  # entries in B scalars
        M_ba = matrix(B, A)  # entries in A scalars
        M_ba_in_b = M_ba.subs(ebs(A, B), simultaneous=True)
        D = M_ba_in_b - M_ab.T
        return Case(list(D), assume=domain(s[1], qb), axioms=axioms.kit(angles(s[1], qb), polar(s[1], qb)))

    @law("express_base_vectors/direct-equals-via-third-system", triples,
         ["coordinate_systems.express_base_vectors", "coordinate_systems.express_base_scalars"], backend="z3")
    def _(s, g):
        A, B, C = cls[s[0]](), cls[s[1]](), cls[s[2]]()
        qc = list(C.base_scalars)
        M_ac = matrix(A, C)
        M_ab_in_c = matrix(A, B).subs(ebs(B, C), simultaneous=True)
        M_bc = matrix(B, C)
        D = M_ab_in_c * M_bc - M_ac
        return Case(list(D), assume=domain(s[2], qc), axioms=axioms.kit(angles(s[2], qc), polar(s[2], qc)))

    @law("express_base_vectors/agrees-with-the-local-frames", pairs, ["coordinate_systems.express_base_vectors",
                                                                      "coordinate_systems.express_base_scalars"], backend="z3")
    def _(s, g):
        # frame_A (at the point, written in B's coordinates) == M_ab * frame_B
        A, B = cls[s[0]](), cls[s[1]]()
        qa, qb = list(A.base_scalars), list(B.base_scalars)
        FA = sp.Matrix(frame(s[0], qa)).subs(ebs(A, B), simultaneous=True)
        FB = sp.Matrix(frame(s[1], qb))
        D = FA - matrix(A, B) * FB
        return Case(list(D), assume=domain(s[1], qb), axioms=axioms.kit(angles(s[1], qb), polar(s[1], qb)))

    # ------------------------------------------------------------------ points and attached vectors
    def gen_point(kind, g, system):
        if kind == "cart":
            co = [g.sym("p0"), g.sym("p1"), g.sym("p2")]
        elif kind == "cyl":
            co = [g.sym("p0", positive=True), g.sym("p1"), g.sym("p2")]
        else:
            co = [g.sym("p0", positive=True), g.sym("p1", positive=True), g.sym("p2")]
        return co, AppliedPoint(co, system)

    @law("convert_point/keeps-cartesian-position", pairs, ["coordinate_systems.convert.convert_point", "points.AppliedPoint.__init__"], backend="z3")
    def _(s, g):
        A, B = cls[s[0]](), cls[s[1]]()
        co, p = gen_point(s[0], g, A)
        np_ = CSM.convert_point(p, B)
        nco = [np_.coordinates[b] for b in B.base_scalars]
        res = [x - y for x, y in zip(position(s[1], nco), position(s[0], co))]
        res.append(sp.Integer(0 if np_.system is B else 1))
        return Case(res, assume=domain(s[0], co), axioms=axioms.kit(angles(s[0], co), polar(s[0], co)))

    # boundary points: between the two curvilinear systems the z-axis (rho = 0, theta = 0 or pi) is converted by closed formulas that
    # need no azimuth from Cartesian coordinates, so the position must survive there too (from Cartesian coordinates the azimuth of an
    # axis point is undefined on the unchanged tree as well: atan2(0, 0); that direction is left to the open domain above)
    AXIS = {("cyl", "sph"): [(0, sp.pi / 3, 2), (0, 0, -1), (0, -sp.pi / 2, sp.Rational(5, 2))],
            ("sph", "cyl"): [(2, 0, sp.pi / 4), (3, sp.pi, 1), (sp.Rational(1, 2), 0, 0)]}

    @law("convert_point/keeps-cartesian-position-on-the-axis-between-curvilinear-systems",
         [(a, b, i) for (a, b), pts in AXIS.items() for i in range(len(pts))], ["coordinate_systems.convert.convert_point"])
    def _(s, g):
        A, B = cls[s[0]](), cls[s[1]]()
        co = [sp.sympify(x) for x in AXIS[(s[0], s[1])][s[2]]]
        np_ = CSM.convert_point(AppliedPoint(co, A), B)
        nco = [np_.coordinates[b] for b in B.base_scalars]
        return Case([sp.simplify(x - y) for x, y in zip(position(s[1], nco), position(s[0], co))])

    # third shape element: how the SAME vector is written -- expanded (k0*e0 + k1*e1 + k2*e2) or with a common factor kept outside a
    # bracket (k0*(e0 + e1) + k2*e2, which SymPy keeps as Mul(k0, Add(e0, e1))): the conversion must not depend on the spelling
    @law("convert_vector/keeps-cartesian-components", [p_ + (f,) for p_ in pairs for f in ("expanded", "factored")],
         ["coordinate_systems.convert.convert_vector", "coordinate_systems.convert.convert_point"], backend="z3")
    def _(s, g):
        A, B = cls[s[0]](), cls[s[1]]()
        co, p = gen_point(s[0], g, A)
        k = [g.sym("k0"), g.sym("k1"), g.sym("k2")]
        ea = A.base_vectors(p)
        if s[2] == "factored":
            v = sp.Mul(k[0], sp.Add(ea[0], ea[1]), evaluate=False) + k[2] * ea[2]
            k = [k[0], k[0], k[2]]
        else:
            v = sum(ki * ei for ki, ei in zip(k, ea))
        nv = CSM.convert_vector(v, p, B)
        np_ = CSM.convert_point(p, B)
        eb = B.base_vectors(np_)
        e = sp.expand(nv)
        coef = [e.coeff(t) for t in eb]
        rest = sp.expand(e - sum(c * t for c, t in zip(coef, eb)))
        if rest != 0:
            raise AssertionError(f"converted vector is not a combination of the new basis at the new point: {rest}")
        nco = [np_.coordinates[b] for b in B.base_scalars]
        cart_old = sp.Matrix([k]) * sp.Matrix(frame(s[0], co))
        cart_new = sp.Matrix([coef]) * sp.Matrix(frame(s[1], nco))
        return Case(list(cart_new - cart_old), assume=domain(s[0], co), axioms=axioms.kit(angles(s[0], co), polar(s[0], co)))

    # the conversion is a FUNCTION of its arguments: an earlier conversion between the same two system objects (another vector at
    # another point, and a point conversion) must not influence a later one (no state kept between calls)
    @law("convert_vector,convert_point/independent-of-earlier-conversions-between-the-same-systems", pairs,
         ["coordinate_systems.convert.convert_vector", "coordinate_systems.convert.convert_point"], backend="z3")
    def _(s, g):
        A, B = cls[s[0]](), cls[s[1]]()
        # earlier history on the same objects: a concrete point well inside every domain and a concrete vector
        p0 = AppliedPoint([sp.Integer(2), sp.Rational(1, 3), sp.Rational(3, 5)] if s[0] != "cart" else [sp.Integer(1), sp.Integer(2), sp.Integer(-3)], A)
        v0 = sum(c * e for c, e in zip([sp.Integer(5), sp.Integer(-7), sp.Integer(11)], A.base_vectors(p0)))
        CSM.convert_vector(v0, p0, B)
        CSM.convert_point(p0, B)
        CSM.convert_vector(2 * v0, p0, B)
        # the measured conversion, at a generic point
        co, p = gen_point(s[0], g, A)
        k = [g.sym("k0"), g.sym("k1"), g.sym("k2")]
        v = sum(ki * ei for ki, ei in zip(k, A.base_vectors(p)))
        nv = CSM.convert_vector(v, p, B)
        np_ = CSM.convert_point(p, B)
        eb = B.base_vectors(np_)
        e = sp.expand(nv)
        coef = [e.coeff(t) for t in eb]
        rest = sp.expand(e - sum(c * t for c, t in zip(coef, eb)))
        if rest != 0:
            # not an AssertionError of the harness: the real conversion returned a vector that is not expressed in the new basis at
            # the new point -- report it as a non-zero residual so that it is judged (and replayed) like any other clause
            return Case([sp.Integer(1)], assume=domain(s[0], co))
        nco = [np_.coordinates[b] for b in B.base_scalars]
        cart_old = sp.Matrix([k]) * sp.Matrix(frame(s[0], co))
        cart_new = sp.Matrix([coef]) * sp.Matrix(frame(s[1], nco))
        return Case(list(cart_new - cart_old), assume=domain(s[0], co), axioms=axioms.kit(angles(s[0], co), polar(s[0], co)))

    @law("AppliedPoint.__init__/requires-three-coordinates", [(n,) for n in (0, 1, 2, 4)], ["points.AppliedPoint.__init__"])
    def _(s, g):
        A = cls["cart"]()
        return Case(raises=ValueError, thunk=lambda: AppliedPoint(g.syms("c", s[0]), A))

    # ------------------------------------------------------------------ Lame coefficients
    @law("lame_coefficients/equal-lengths-of-position-derivatives", [(k,) for k in KINDS],
         ["coordinate_systems.coordinate_systems.CartesianCoordinateSystem.lame_coefficients",
          "coordinate_systems.coordinate_systems.CylindricalCoordinateSystem.lame_coefficients",
          "coordinate_systems.coordinate_systems.SphericalCoordinateSystem.lame_coefficients",
          "coordinate_systems.express_base_scalars"], backend="z3")
    def _(s, g):
        A, Cc = cls[s[0]](), cls["cart"]()
        qa = list(A.base_scalars)
        m = ebs(Cc, A)  # Cartesian scalars as functions of A's scalars: the position vector
        r = [m[x] for x in Cc.base_scalars]
        res = []
        for h, q in zip(A.lame_coefficients, qa):
            res.append(h**2 - sum(sp.diff(c, q)**2 for c in r))
            res.append(sp.Abs(h) - h)
        res.append(A.jacobian - sp.Mul(*A.lame_coefficients))
        return Case(res, assume=domain(s[0], qa) if s[0] != "cart" else [], axioms=axioms.kit((), polar(s[0], qa)))

    return out


def run(report):
    ls = laws()
    base = PKG / "core/experimental"
    files = {"coordinate_systems.express_base_scalars": "coordinate_systems/express_base_scalars.py",
             "coordinate_systems.express_base_vectors": "coordinate_systems/express_base_vectors.py",
             "coordinate_systems.convert": "coordinate_systems/convert.py",
             "coordinate_systems.coordinate_systems": "coordinate_systems/coordinate_systems.py",
             "points": "points/__init__.py"}
    for l in ls:
        for f in l.functions:
            rel = f[len(F):]
            key = next(k for k in sorted(files, key=len, reverse=True) if rel.startswith(k))
            report.function(f, base / files[key])
    run_laws(report, MOD, ls, "C15", plain="quick")
    report.extra["exhaustive"] = True
    report.extra["shape_rule"] = "all 6 ordered pairs and all 6 ordered triples of {Cartesian, cylindrical, spherical}; generic coordinates"
    report.trust("CPython 3.12", "SymPy 1.14: subs, diff, auto-evaluation incl. cos(atan2(y,x)) = x/sqrt(x^2+y^2)",
                 "sympy.multipledispatch resolution order", "z3 5.1 (NRA) / cvc5 1.4")
    report.assume(*axioms.TEXT)
    report.assume("domains: cylindrical rho>0, -pi<phi<=pi; spherical r>0, 0<theta<pi, -pi<phi<=pi; Cartesian points off the z axis",
                  "Cartesian position maps and local frames of the three systems are written in vf/props/c15.py from the definitions")
