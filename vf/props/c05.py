"""C05 -- quantity construction computes the SI value and dimension, or refuses.

pyvc on core/dimensions/collect_quantity.py (every collector, the element-wise wrapper, the dispatcher) and on
Quantity.__init__.  The specification is a structural recursion on the expression tree, transcribed from the property:

  SV(e)  value      SD(e)  dimension      SR(e)  "construction is refused"

with one defining equation per node kind (sums / products / min / max as left folds with explicit ghost state).
Contract of collect(e):   raises ValueError  =>  SR(e)
                          returns (f, d)     =>  not SR(e)  and  f = SV(e)  and  ( f is 0/oo/NaN  or  d ~ SD(e) ).
A recursive call uses this contract (partial correctness; every recursive call is on expr.args[i] / .base / .exp --
structural decrease, checked syntactically).  Loops are cut by simulation invariants between the code's accumulators
and the spec fold.
"""
from __future__ import annotations

import ast

import z3

from ..core import seed, PKG, Ob, PROVED, REFUTED, FAULT, try_replay
from ..pyvc import (Exec, Ctx, Obj, Opt, NONE, ExcVal, Builtin, TypeRef, Seq, GenError, LoopSpec, Closure, verify_function, discharge, accumulators)
from ..contracts import frontend as FE
from ..contracts import model as M
from .. import smt

LEVEL = "proof"
UNIT = "C05"

# ------------------------------------------------------------------------------------------ spec functions
SV = z3.Function("SV", M.ExprS, M.Val)
SD = z3.Function("SD", M.ExprS, M.Dim)
SR = z3.Function("SR", M.ExprS, z3.BoolSort())
# child value list: CL(e, k) = [SV(arg 0), .., SV(arg k-1)]
CL = z3.Function("CL", M.ExprS, z3.IntSort(), M.VList)
# product fold
MFv = z3.Function("MFv", M.ExprS, z3.IntSort(), M.Val)
MFd = z3.Function("MFd", M.ExprS, z3.IntSort(), M.Dim)
MFr = z3.Function("MFr", M.ExprS, z3.IntSort(), z3.BoolSort())
# common-dimension fold (sum, min, max): seen a non-any term, its dimension, refusal so far
CFs = z3.Function("CFseen", M.ExprS, z3.IntSort(), z3.BoolSort())
CFd = z3.Function("CFdim", M.ExprS, z3.IntSort(), M.Dim)
CFr = z3.Function("CFr", M.ExprS, z3.IntSort(), z3.BoolSort())
# function-argument fold: refusal so far
FFr = z3.Function("FFr", M.ExprS, z3.IntSort(), z3.BoolSort())


def child_bad_dimless(a):
    """an exponent / function argument that is neither dimensionless nor 0/oo/NaN"""
    return z3.And(z3.Not(M.v_is_any(SV(a))), z3.Not(M.d_is_dimensionless(SD(a))))


def cl_step(e, k):
    a = M.arg(e, k)
    return [CL(e, k + 1) == M.vl_app(CL(e, k), SV(a))] + M.vl_axioms_for_append(CL(e, k), SV(a))


def mf_step(e, k):
    a = M.arg(e, k)
    return [MFv(e, k + 1) == M.v_mul(MFv(e, k), SV(a)), MFd(e, k + 1) == M.d_mul(MFd(e, k), SD(a)),
            MFr(e, k + 1) == z3.Or(MFr(e, k), SR(a))]


def cf_step(e, k):
    a = M.arg(e, k)
    nonany = z3.Not(M.v_is_any(SV(a)))
    clash = z3.And(CFs(e, k), nonany, z3.Not(M.d_equiv(CFd(e, k), SD(a))))
    return [CFs(e, k + 1) == z3.Or(CFs(e, k), nonany),
            CFd(e, k + 1) == z3.If(z3.And(z3.Not(CFs(e, k)), nonany), SD(a), CFd(e, k)),
            CFr(e, k + 1) == z3.Or(CFr(e, k), SR(a), clash)]


def ff_step(e, k):
    a = M.arg(e, k)
    return [FFr(e, k + 1) == z3.Or(FFr(e, k), SR(a), child_bad_dimless(a))]


def spec_axioms(e):
    """defining equations of SV / SD / SR for the node e (by kind) -- the specification, not assumptions"""
    k, n = M.kind(e), M.nargs(e)
    a0, a1 = M.arg(e, 0), M.arg(e, 1)
    ax = [M.expr_wf(e)]
    leaf = lambda kk, sv, sd, sr: z3.Implies(k == kk, z3.And(SV(e) == sv, SD(e) == sd, SR(e) == sr))
    ax.append(leaf(M.K_QTY, M.leaf_val(e), M.leaf_dim(e), z3.BoolVal(False)))
    ax.append(leaf(M.K_PREFIX, M.leaf_val(e), M.DIMENSIONLESS, z3.BoolVal(False)))
    ax.append(leaf(M.K_NUM, M.leaf_val(e), M.DIMENSIONLESS, z3.BoolVal(False)))
    for kk in (M.K_SYM, M.K_DIMSYM, M.K_OTHER, M.K_DERIV):
        ax.append(z3.Implies(k == kk, SR(e)))  # a free symbol or an unevaluated derivative remains
    ax.append(z3.Implies(k == M.K_ABS, z3.And(SV(e) == M.v_abs(SV(a0)), SD(e) == SD(a0), SR(e) == SR(a0))))
    ax.append(z3.Implies(k == M.K_POW, z3.And(SV(e) == M.v_pow(SV(a0), SV(a1)), SD(e) == M.d_pow(SD(a0), M.Val.re(SV(a1))),
                                             SR(e) == z3.Or(SR(a0), SR(a1), child_bad_dimless(a1)))))
    ax.append(z3.Implies(k == M.K_MUL, z3.And(SV(e) == MFv(e, n), SD(e) == MFd(e, n), SR(e) == MFr(e, n),
                                             MFv(e, 1) == SV(a0), MFd(e, 1) == SD(a0), MFr(e, 1) == SR(a0))))
    for kk in (M.K_ADD, M.K_MIN, M.K_MAX):
        val = M.vl_sum(CL(e, n)) if kk == M.K_ADD else M.vl_mm(kk, CL(e, n))
        ax.append(z3.Implies(k == kk, z3.And(SV(e) == val, SD(e) == z3.If(CFs(e, n), CFd(e, n), M.DIMENSIONLESS), SR(e) == CFr(e, n),
                                            z3.Not(CFs(e, 0)), z3.Not(CFr(e, 0)), CL(e, 0) == M.vl_nil)))
    ax.append(z3.Implies(k == M.K_FUNC, z3.And(SV(e) == M.v_applyf(e, CL(e, n)), SD(e) == M.DIMENSIONLESS, SR(e) == FFr(e, n),
                                              z3.Not(FFr(e, 0)), CL(e, 0) == M.vl_nil)))
    ax += M.VL_NIL_FACTS
    return ax


def monotone(F, e, k):
    """L1 (lemma about the SPEC folds, by induction over the remaining suffix): a fold of disjunctions is monotone"""
    n = M.nargs(e)
    return z3.Implies(z3.And(k <= n, F(e, k)), F(e, n))


# ------------------------------------------------------------------------------------------ callee contract of collect
def as_val(x):
    from fractions import Fraction
    if z3.is_expr(x) and x.sort() == M.ExprS:
        return M.leaf_val(x)
    if isinstance(x, (int, Fraction)) and not isinstance(x, bool):
        return M.v_fin(x)
    return x


def collect_contract(ex, ctx, args, kw):
    """contract of collect_quantity_factor_and_dimension, used at every (recursive) call site"""
    a = args[0]
    if not (z3.is_expr(a) and a.sort() == M.ExprS):
        raise GenError(f"collect called on {a!r}")
    res = []
    f = ex.fresh("factor", M.Val)
    d = ex.fresh("dim", M.Dim)
    ok = ctx.fork(*spec_axioms(a), z3.Not(SR(a)), f == SV(a), z3.Or(M.v_is_any(f), M.d_equiv(d, SD(a))), M.v_wf(f), M.v_kind(f) != M.SYMB)
    if ex.feasible(ok):
        res.append((ok, (f, d)))
    bad = ctx.fork(*spec_axioms(a), SR(a))
    if ex.feasible(bad):
        res.append((bad, ExcVal("ValueError", ("refused sub-expression",))))
    return res


def post_collect(e, clause_prefix=""):
    def post(ex, ctx, out, info):
        if out[0] == "return":
            f, d = out[1]
            f = as_val(f)
            yield clause_prefix + "returns=>not-refused", z3.Not(SR(e))
            yield clause_prefix + "returns=>factor-is-the-value", f == SV(e)
            yield clause_prefix + "returns=>dimension-is-the-dimensional-product(or-value-is-0/oo/NaN)", z3.Or(M.v_is_any(f), M.d_equiv(d, SD(e)))
        else:
            yield clause_prefix + "raises=>refused-by-the-specification", SR(e)
            yield clause_prefix + "raises-ValueError", z3.BoolVal(out[1].cls == "ValueError")
    return post


# ------------------------------------------------------------------------------------------ models
def binop_model(ex, ctx, op, l, r):
    isv = lambda x: z3.is_expr(x) and x.sort() == M.Val
    isd = lambda x: z3.is_expr(x) and x.sort() == M.Dim
    ise = lambda x: z3.is_expr(x) and x.sort() == M.ExprS
    if ise(l):
        l = M.leaf_val(l)
    if ise(r):
        r = M.leaf_val(r)
    if isv(l) and isv(r):
        if op == "Mult":
            return [(ctx, M.v_mul(l, r))]
        if op == "Add":
            return [(ctx, M.v_add(l, r))]
        if op == "Pow":
            FE.assumed("A-POW", "b**x for b in {0, +-oo, NaN} and a real exponent x is again 0/oo/NaN unless x = 0 (0**0 = oo**0 = NaN**0 = 1); "
                       "negative powers of 0 (zoo) are outside the domain")
            ctx.assume(z3.Implies(M.v_is_any(l), z3.Or(M.v_is_any(M.v_pow(l, r)), M.Val.re(r) == 0)))
            return [(ctx, M.v_pow(l, r))]
    if isd(l) and isd(r) and op == "Mult":
        return [(ctx, M.d_mul(l, r))]
    if isd(l) and isv(r) and op == "Pow":
        FE.assumed("Dimension**exponent", "Dimension ** x scales the dimensional exponents by re(x) (exponents are real numbers; "
                   "a Dimension raised to a value that is 0/oo/NaN only occurs where the result is irrelevant)")
        return [(ctx, M.d_pow(l, M.Val.re(r)))]
    return None


def abs_model(ex, ctx, args, kw):
    x = as_val(args[0])
    FE.assumed("A-ABS", "Abs(x) is 0/oo/NaN exactly when x is (|0|=0, |+-oo|=oo, |NaN|=NaN)")
    ctx.assume(M.v_is_any(M.v_abs(x)) == M.v_is_any(x), M.v_wf(M.v_abs(x)), M.v_kind(M.v_abs(x)) != M.SYMB)
    return [(ctx, M.v_abs(x))]


def attr_model(ex, ctx, base, attr):
    if z3.is_expr(base) and base.sort() == M.ExprS:
        if attr == "scale_factor":
            return [(ctx, M.leaf_val(base))]
        if attr == "dimension":
            return [(ctx, M.leaf_dim(base))]
        if attr == "args":
            return [(ctx, M.args_seq(base))]
        if attr == "base":
            return [(ctx, M.arg(base, 0))]
        if attr == "exp":
            return [(ctx, M.arg(base, 1))]
        if attr == "func":
            return [(ctx, ("__func__", base))]
    if isinstance(base, TypeRef) and base.name == "dimsys_SI":
        if attr == "is_dimensionless":
            return [(ctx, Builtin("dimsys_SI.is_dimensionless", lambda ex, c, a, k: [(c, M.d_is_dimensionless(a[0]))]))]
        if attr == "equivalent_dims":
            return [(ctx, Builtin("dimsys_SI.equivalent_dims", lambda ex, c, a, k: [(c, M.d_equiv(a[0], a[1]))]))]
    return None


def isinstance_model_factory(facts):
    def im(ex, ctx, v, clsname):
        if z3.is_expr(v) and v.sort() == M.ExprS:
            return M.isinstance_expr(v, clsname, facts)
        raise GenError(f"isinstance({v!r}, {clsname})")
    return im


def method_model(ex, ctx, base, attr, args, kw):
    r = FE.dim_subs_method(ex, ctx, base, attr, args, kw)
    if r is not None:
        return r
    if z3.is_expr(base) and base.sort() == M.VList and attr == "append":
        # in-place append: rebind every local that aliases this abstract list
        x = as_val(args[0])
        new = M.vl_app(base, x)
        for n, v in list(ctx.env.items()):
            if z3.is_expr(v) and v.sort() == M.VList and z3.eq(v, base):
                ctx.env[n] = new
        ctx.assume(*M.vl_axioms_for_append(base, x))
        return [(ctx, NONE)]
    return None


def abstract_list(ex, ctx, name, pylist):
    L = M.vl_nil
    for x in pylist:
        L = M.vl_app(L, as_val(x))
    ctx.assume(*M.VL_NIL_FACTS)
    return L


def comprehension_model(ex, ctx, node, it):
    # (f for f in L): the identity traversal of an abstract list
    gen = node.generators[0]
    if z3.is_expr(it) and it.sort() == M.VList and isinstance(node.elt, ast.Name) and isinstance(gen.target, ast.Name) \
            and node.elt.id == gen.target.id and not gen.ifs:
        return [(ctx, it)]
    return None


def star_list(args):
    if len(args) == 1 and isinstance(args[0], tuple) and args[0][0] == "__star__":
        return args[0][1]
    return None


def call_hooks():
    def add_ctor(ex, ctx, args, kw):
        L = star_list(args)
        if L is None:
            raise GenError("Add(...) with explicit arguments")
        FE.assumed("Add/Min/Max/func(*numbers)", "SymPy's Add / Min / Max / f applied to numbers evaluates to their sum / minimum / "
                   "maximum / f-value (value homomorphism of the constructors)")
        return [(ctx, M.vl_sum(L))]
    return {"Add": add_ctor}


def special_call(ex, ctx, f, args, kw):
    if isinstance(f, tuple) and f and f[0] == "__type__":
        L = star_list(args)
        if L is None:
            raise GenError("type(expr)(...) with explicit arguments")
        return [(ctx, M.vl_mm(M.kind(f[1]), L))]
    if isinstance(f, tuple) and f and f[0] == "__func__":
        L = star_list(args)
        if L is None and len(args) == 1 and z3.is_expr(args[0]) and args[0].sort() == M.VList:
            L = args[0]
        if L is None:
            raise GenError("expr.func(...) with explicit arguments")
        return [(ctx, M.v_applyf(f[1], L))]
    return None


class C05Exec(Exec):
    def call_value(self, f, ctx, args, kwargs, node=None):
        r = special_call(self, ctx, f, args, kwargs)
        if r is not None:
            return r
        return super().call_value(f, ctx, args, kwargs, node)


def mk_exec(facts, extra_contracts=None, loop_specs=None):
    contracts = {"collect_quantity_factor_and_dimension": collect_contract}
    contracts.update(extra_contracts or {})
    g = {
        "collect_quantity_factor_and_dimension": ("__contract__", "collect_quantity_factor_and_dimension"),
        "is_any_dimension": Builtin("is_any_dimension[contract C04]", lambda ex, c, a, k: [(c, M.v_is_any(as_val(a[0])))]),
        "is_number": Builtin("is_number[contract C04]", lambda ex, c, a, k: [(c, (M.kind(a[0]) == M.K_NUM) if a[0].sort() == M.ExprS else M.v_is_number(a[0]))]),
        "dimensionless": M.DIMENSIONLESS, "dimsys_SI": TypeRef("dimsys_SI"),
        "Abs": Builtin("Abs", abs_model),
        "Add": Builtin("Add", call_hooks()["Add"]),
    }
    for cls in ("SymQuantity", "Prefix", "Mul", "Pow", "Abs_cls", "MinMaxBase", "Derivative", "SymFunction"):
        pass
    ex = FE.make_exec("core/dimensions/collect_quantity.py", UNIT, globals_extra=g, contracts=contracts,
                      models={"__binop__": binop_model, "__method__": method_model, "__abstract_list__": abstract_list,
                              "__comprehension__": comprehension_model},
                      loop_specs=loop_specs or {}, isinstance_model=isinstance_model_factory(facts), attr_model=attr_model)
    ex.__class__ = C05Exec
    return ex


# ------------------------------------------------------------------------------------------ obligations
def obligations():
    facts = FE.class_facts()
    e = z3.Const("expr", M.ExprS)
    obs, execs = [], []

    def run(qual, kinds, post=None, loop_specs=None, closure_env=None, extra_contracts=None, setup_extra=None, tag=None):
        ex = mk_exec(facts, extra_contracts, loop_specs)

        def setup(ex, ctx):
            ctx.assume(*spec_axioms(e), z3.Or([M.kind(e) == k for k in kinds]))
            if setup_extra:
                setup_extra(ex, ctx)
            return [e], {}, None

        verify_function(ex, qual, setup, post or post_collect(e), closure_env=closure_env)
        if tag:
            ex.obligations = [(n.replace(f"/{qual}/", f"/{tag}/"), h, g_, s_, c_) for n, h, g_, s_, c_ in ex.obligations]
        execs.append(ex)
        return ex

    # leaves and one-child nodes
    run("_collect_quantity", [M.K_QTY])
    run("_collect_prefix", [M.K_PREFIX])
    run("_collect_abs", [M.K_ABS])
    run("_collect_pow", [M.K_POW])
    run("_unsupported_derivative", [M.K_DERIV])
    run("_collect_default", [M.K_NUM, M.K_SYM, M.K_DIMSYM, M.K_OTHER])

    # product: outer() of _elementwise_wrapper with inner := the real _collect_mul
    def mul_loop():
        def init(ex, ctx, seq):
            return {}

        names = accumulators(mk_exec(facts).find_def("_elementwise_wrapper.outer"), 0)["carried"]  # (value accumulator, dimension accumulator)

        def inv(ex, ctx, ghost, k, seq):
            kk = k + 1  # the loop runs over args[1:], k elements of it done = kk args folded
            f, d = ctx.env[names[0]], ctx.env[names[1]]
            return z3.And(kk >= 1, kk <= M.nargs(e), f == MFv(e, kk), z3.Not(MFr(e, kk)), z3.Or(M.v_is_any(f), M.d_equiv(d, MFd(e, kk))),
                          M.v_wf(f), M.v_kind(f) != M.SYMB)

        def step(ex, ctx, ghost, elem, k, seq):
            return {}, mf_step(e, k + 1) + [monotone(MFr, e, k + 2)]
        return LoopSpec(inv=inv, step=step, init=init)

    ex0 = mk_exec(facts)
    inner_node = ex0.find_def("_collect_mul")
    run("_elementwise_wrapper.outer", [M.K_MUL], loop_specs={"_elementwise_wrapper.outer": {0: mul_loop()}},
        closure_env={"inner": Closure(inner_node, {}, "_collect_mul")}, tag="_collect_mul(via _elementwise_wrapper.outer)",
        setup_extra=lambda ex, ctx: ctx.assume(monotone(MFr, e, z3.IntVal(1))))

    # common dimension of sum / min / max
    factors_out = z3.Const("factors_out", M.VList)

    def common_loop():
        def init(ex, ctx, seq):
            return {}

        roles = accumulators(mk_exec(facts).find_def("_collect_common_dimension"), 0)
        lname, dname = roles["appended"][0], [n for n in roles["carried"] if n not in roles["appended"]][0]

        def inv(ex, ctx, ghost, k, seq):
            L, dim = ctx.env[lname], ctx.env[dname]
            dn = dim.is_none if isinstance(dim, Opt) else (z3.BoolVal(True) if dim is NONE else z3.BoolVal(False))
            dv = dim.val if isinstance(dim, Opt) else (M.DIMENSIONLESS if dim is NONE else dim)
            return z3.And(k >= 0, k <= M.nargs(e), L == CL(e, k), z3.Not(CFr(e, k)), dn == z3.Not(CFs(e, k)),
                          z3.Implies(CFs(e, k), M.d_equiv(dv, CFd(e, k))), M.vl_allany(L) == z3.Not(CFs(e, k)))

        def step(ex, ctx, ghost, elem, k, seq):
            return {}, cl_step(e, k) + cf_step(e, k) + [monotone(CFr, e, k + 1)]
        return LoopSpec(inv=inv, step=step, init=init, modifies=(lname,))

    def post_common(ex, ctx, out, info):
        n = M.nargs(e)
        if out[0] == "return":
            L, d = out[1]
            yield "returns=>not-refused", z3.Not(CFr(e, n))
            yield "returns=>factors-are-the-children-values", L == CL(e, n)
            yield "returns=>dimension-of-first-non-any-term(or-all-terms-any)", z3.If(CFs(e, n), M.d_equiv(d, CFd(e, n)), M.vl_allany(L))
        else:
            yield "raises=>refused-by-the-specification", CFr(e, n)
            yield "raises-ValueError", z3.BoolVal(out[1].cls == "ValueError")

    def havoc_hook(ex, v, name):
        return None

    exc = run("_collect_common_dimension", [M.K_ADD, M.K_MIN, M.K_MAX], post=post_common,
              loop_specs={"_collect_common_dimension": {0: common_loop()}},
              setup_extra=lambda ex, ctx: ctx.assume(M.vl_allany(CL(e, 0)) , z3.Not(CFs(e, 0))))
    # allany(CL(e,k)) == not seen(k): carried by the invariant through vl_allany's defining equation; stated as a lemma below

    def common_contract(ex, ctx, args, kw):
        a = args[0]
        n = M.nargs(a)
        L = ex.fresh("factors", M.VList)
        d = ex.fresh("dim", M.Dim)
        res = []
        ok = ctx.fork(z3.Not(CFr(a, n)), L == CL(a, n), z3.If(CFs(a, n), M.d_equiv(d, CFd(a, n)), M.vl_allany(L)),
                      z3.Implies(M.vl_allany(L), z3.And(M.v_is_any(M.vl_sum(L)), M.v_is_any(M.vl_mm(M.K_MIN, L)), M.v_is_any(M.vl_mm(M.K_MAX, L)))))
        if ex.feasible(ok):
            res.append((ok, (L, d)))
        bad = ctx.fork(CFr(a, n))
        if ex.feasible(bad):
            res.append((bad, ExcVal("ValueError")))
        return res

    cc = {"_collect_common_dimension": common_contract}
    for qual, kinds in (("_collect_add", [M.K_ADD]), ("_collect_min_max", [M.K_MIN, M.K_MAX])):
        ex = mk_exec(facts, cc)
        ex.globals["_collect_common_dimension"] = ("__contract__", "_collect_common_dimension")

        def setup(ex, ctx, kinds=kinds):
            ctx.assume(*spec_axioms(e), z3.Or([M.kind(e) == k for k in kinds]))
            return [e], {}, None
        verify_function(ex, qual, setup, post_collect(e))
        execs.append(ex)

    # function application
    def func_loop():
        def init(ex, ctx, seq):
            return {}

        fl = accumulators(mk_exec(facts).find_def("_collect_function"), 0)["appended"][0]

        def inv(ex, ctx, ghost, k, seq):
            return z3.And(k >= 0, k <= M.nargs(e), ctx.env[fl] == CL(e, k), z3.Not(FFr(e, k)))

        def step(ex, ctx, ghost, elem, k, seq):
            return {}, cl_step(e, k) + ff_step(e, k) + [monotone(FFr, e, k + 1)]
        return LoopSpec(inv=inv, step=step, init=init, modifies=(fl,))

    run("_collect_function", [M.K_FUNC], loop_specs={"_collect_function": {0: func_loop()}})

    # dispatcher: the real _cases table, in its real order, with each collector replaced by its contract
    def collector_contract(name, kinds):
        def c(ex, ctx, args, kw):
            a = args[0]
            ex.oblige(f"{UNIT}/collect_quantity_factor_and_dimension/dispatch-precondition:{name}-gets-its-node-kind", ctx,
                      z3.Or([M.kind(a) == k for k in kinds]))
            return collect_contract(ex, ctx, args, kw)
        return c

    coll = {"_collect_quantity": [M.K_QTY], "_collect_prefix": [M.K_PREFIX], "_collect_mul": [M.K_MUL], "_collect_pow": [M.K_POW],
            "_collect_add": [M.K_ADD], "_collect_abs": [M.K_ABS], "_collect_min_max": [M.K_MIN, M.K_MAX],
            "_unsupported_derivative": [M.K_DERIV], "_collect_function": [M.K_FUNC],
            "_collect_default": [M.K_NUM, M.K_SYM, M.K_DIMSYM, M.K_OTHER]}
    ex = mk_exec(facts, {n: collector_contract(n, ks) for n, ks in coll.items()})
    for n in coll:
        ex.globals[n] = ("__contract__", n)
    for cls in ("SymQuantity", "Prefix", "Mul", "Pow", "Add", "Abs", "MinMaxBase", "Derivative", "SymFunction"):
        ex.globals[cls] = TypeRef(cls)
    # evaluate the real `_cases = {...}` literal from the module AST (keys and order as written)
    cases_node = next(st.value for st in ex.tree.body if isinstance(st, (ast.Assign, ast.AnnAssign)) and
                      isinstance(getattr(st, "target", None) or st.targets[0], ast.Name) and
                      (getattr(st, "target", None) or st.targets[0]).id == "_cases")
    (c0, cases), = ex.eval(cases_node, Ctx())
    ex.globals["_cases"] = cases

    def setup(ex, ctx):
        ctx.assume(*spec_axioms(e))
        return [e], {}, None
    verify_function(ex, "collect_quantity_factor_and_dimension", setup, post_collect(e))
    execs.append(ex)
    ndispatch = len(cases)

    from ..contracts import refimpl
    from ..core import seed as _seed
    conc = refimpl.concretizer("collect_quantity", _seed())
    for ex in execs:
        ex.obligations = [(n, h, g_, s_, c_ or conc) for n, h, g_, s_, c_ in ex.obligations]
        obs.extend(discharge(ex, UNIT))

    # structural decrease of every recursive call (termination argument, syntactic)
    src = (PKG / "core/dimensions/collect_quantity.py").read_text()
    tree = ast.parse(src)
    bad_calls = []
    for fn in [n for n in ast.walk(tree) if isinstance(n, ast.FunctionDef)]:
        loopvars = {}
        for n in ast.walk(fn):
            if isinstance(n, ast.For) and isinstance(n.target, ast.Name):
                loopvars[n.target.id] = ast.unparse(n.iter)
        params = {a.arg for a in fn.args.args}
        for n in ast.walk(fn):
            if isinstance(n, ast.Call) and isinstance(n.func, ast.Name) and n.func.id == "collect_quantity_factor_and_dimension":
                a = ast.unparse(n.args[0])
                ok = a in ("expr.args[0]", "expr.base", "expr.exp") or (a in loopvars and loopvars[a] in ("expr.args", "expr.args[1:]")) \
                    or (a == "arg" and fn.name in ("_collect_mul",)) or (fn.name == "__init__")
                if not ok and not (fn.name == "collect_quantity_factor_and_dimension"):
                    bad_calls.append(f"{fn.name}: collect({a})")
    obs.append(Ob(f"{UNIT}/collect_quantity/decreases:every-recursive-call-is-on-a-strict-sub-term", PROVED if not bad_calls else REFUTED,
                  "ast-scan", 0.0, "; ".join(bad_calls), "", None if not bad_calls else {"reproduced": False, "script": None}))
    return execs, obs, ndispatch


def run(report):
    from ..pyvc import GenError as _GenError
    from ..contracts import refimpl as _refimpl
    try:
        _run(report)
    except Exception as e:  # left the modelled subset: fault + executable-contract search
        _refimpl.generation_fallback(report, 'collect_quantity', UNIT, f"{type(e).__name__}: {e}", seed())


def _run(report):
    execs, obs, ndispatch = obligations()
    report.extend(obs)
    src = PKG / "core/dimensions/collect_quantity.py"
    for f in ("_collect_quantity", "_collect_prefix", "_elementwise_wrapper.outer", "_collect_mul", "_collect_pow", "_collect_common_dimension",
              "_collect_add", "_collect_abs", "_collect_min_max", "_collect_function", "_unsupported_derivative", "_collect_default",
              "collect_quantity_factor_and_dimension"):
        report.function(f"symplyphysics.core.dimensions.collect_quantity.{f}", src)
    from . import c05_quantity
    c05_quantity.run(report)
    from . import c04 as _c04
    _c04.shared_callee_obligations(report, UNIT)
    # bounded audit of the model: the executable C05 contract against the real collector on enumerated real trees
    from ..contracts import refimpl as _ri
    budget = 20000 if report.tier == "thorough" else 2500
    t_, why_, n_ = _ri.search_collect_quantity(seed(), budget, 2)
    fails_ = [] if t_ is None else [{"name": f"{UNIT}/audit/collect_quantity/first-disagreement", "detail": f"{t_}: {why_}", "signature": str(t_),
                                     "replay": {"reproduced": True, "script": f"from vf.contracts.refimpl import replay_tree\nreplay_tree('collect_quantity', {seed()}, {n_})\n"}}]
    report.add_bounded("executable C05 contract (SI value and dimension by structural recursion, refusals) vs the real collect_quantity_factor_and_dimension on enumerated real trees "
                       "(sums, products, powers, abs, min/max, functions of one and two arguments; 0 / +-oo / NaN terms)", f"trees of depth <= 2 over 26 leaves, first {budget} in a seeded interleaved order", n_, t_ is None, fails_)
    report.extra["dispatch_table_entries"] = ndispatch
    report.extra["inlined_closures"] = sorted(set().union(*[x.inlined for x in execs]))
    report.extra["callee_contracts_used"] = sorted(set().union(*[x.used_contracts for x in execs]))
    report.extra["library_models_used"] = sorted(set().union(*[x.used_models for x in execs]))
    from ..contracts import audit
    audit.run(report)
    report.trust("CPython 3.12 (subset of DESIGN 3.A)", "z3 5.1 / cvc5 1.4", "SymPy 1.14 expression constructors (value homomorphisms), "
                 "isinstance facts read from the real classes", "sympy.physics.units dimension system")
    report.assume(*[f"{k}: {v}" for k, v in FE.ASSUMED.items()])
    report.assume("A-LIST: Add/Min/Max of values that are all 0, +-oo or NaN is itself 0, +-oo or NaN",
                  "L1: a spec fold of disjunctions is monotone (induction over the remaining suffix), instantiated at the loop index",
                  "values: extended reals and finite complex numbers; zoo and products of an infinity with a non-real number are outside the domain",
                  "termination: structural recursion (checked syntactically), loops over finite tuples")
