"""C10 -- Cartesian vector arithmetic obeys vector-space, dot and cross product laws.

Contract clauses (from the property statement) on the real functions of core/vectors/arithmetics.py, discharged for
all real component values, for every operand-length combination 0..3 (the property's own bound; complete).
"""
from __future__ import annotations

import itertools

import sympy as sp

from ..symx import Law, Case, run_laws
from ..core import PKG

LEVEL = "proof"
MOD = "vf.props.c10"
F = "symplyphysics.core.vectors.arithmetics."


def _api():
    from symplyphysics.core.vectors import arithmetics as A
    from symplyphysics.core.vectors.vectors import Vector
    from symplyphysics.core.coordinate_systems.coordinate_systems import CoordinateSystem
    return A, Vector, CoordinateSystem


def pad3(vec):
    c = list(vec.components)
    assert len(c) <= 3, f"result has {len(c)} components"
    return c + [sp.S.Zero] * (3 - len(c))


def vdiff(v1, v2):
    return [a - b for a, b in zip(pad3(v1), pad3(v2))]


L2 = [(m, n) for m in range(4) for n in range(4)]
L3 = [(m, n, k) for m in range(4) for n in range(4) for k in range(4)]
L1 = [(m,) for m in range(4)]


def laws():
    A, Vector, CS = _api()
    out = []

    def cart():
        return CS(CS.System.CARTESIAN)

    def law(name, shapes, fns, backend="auto"):
        def deco(f):
            out.append(Law(name, shapes, f, functions=[F + x for x in fns], backend=backend, degenerate=True))
            return f
        return deco

    # ------------------------------------------------------------------ addition / subtraction
    @law("add_cartesian_vectors/commutative", L2, ["add_cartesian_vectors", "_extend_two_vectors"])
    def _(s, g):
        c = cart(); u = Vector(g.syms("u", s[0]), c); v = Vector(g.syms("v", s[1]), c)
        return Case(vdiff(A.add_cartesian_vectors(u, v), A.add_cartesian_vectors(v, u)))

    @law("add_cartesian_vectors/associative", L3, ["add_cartesian_vectors"])
    def _(s, g):
        c = cart(); u = Vector(g.syms("u", s[0]), c); v = Vector(g.syms("v", s[1]), c); w = Vector(g.syms("w", s[2]), c)
        l = A.add_cartesian_vectors(A.add_cartesian_vectors(u, v), w)
        r = A.add_cartesian_vectors(u, A.add_cartesian_vectors(v, w))
        return Case(vdiff(l, r) + vdiff(A.add_cartesian_vectors(u, v, w), l))

    @law("add_cartesian_vectors/missing-components-count-as-zero", L2, ["add_cartesian_vectors", "_extend_two_vectors"])
    def _(s, g):
        c = cart(); u = Vector(g.syms("u", s[0]), c); v = Vector(g.syms("v", s[1]), c)
        r = A.add_cartesian_vectors(u, v)
        return Case(vdiff(r, A.add_cartesian_vectors(Vector(pad3(u), c), Vector(pad3(v), c)))
                    + [sp.Integer(len(r.components) - max(s))])

    @law("add_cartesian_vectors/zero-vector-is-identity", L1, ["add_cartesian_vectors"])
    def _(s, g):
        c = cart(); u = Vector(g.syms("u", s[0]), c)
        return Case(vdiff(A.add_cartesian_vectors(u, Vector([0, 0, 0], c)), u) + vdiff(A.add_cartesian_vectors(u), u)
                    + vdiff(A.add_cartesian_vectors(u, Vector([], c)), u))

    @law("subtract_cartesian_vectors/inverse-of-addition", L2, ["subtract_cartesian_vectors", "add_cartesian_vectors", "scale_vector"])
    def _(s, g):
        c = cart(); u = Vector(g.syms("u", s[0]), c); v = Vector(g.syms("v", s[1]), c)
        return Case(vdiff(A.subtract_cartesian_vectors(A.add_cartesian_vectors(u, v), v), u)
                    + vdiff(A.add_cartesian_vectors(A.subtract_cartesian_vectors(u, v), v), u)
                    + pad3(A.subtract_cartesian_vectors(u, u)))

    @law("subtract_cartesian_vectors/subtracts-the-sum-of-the-rest", L3, ["subtract_cartesian_vectors"])
    def _(s, g):
        c = cart(); u = Vector(g.syms("u", s[0]), c); v = Vector(g.syms("v", s[1]), c); w = Vector(g.syms("w", s[2]), c)
        return Case(vdiff(A.subtract_cartesian_vectors(u, v, w),
                          A.subtract_cartesian_vectors(A.subtract_cartesian_vectors(u, v), w)))

    # ------------------------------------------------------------------ scaling
    @law("scale_vector/distributes-over-vector-addition", L2, ["scale_vector", "add_cartesian_vectors"])
    def _(s, g):
        c = cart(); u = Vector(g.syms("u", s[0]), c); v = Vector(g.syms("v", s[1]), c); k = g.sym("k")
        return Case(vdiff(A.scale_vector(k, A.add_cartesian_vectors(u, v)),
                          A.add_cartesian_vectors(A.scale_vector(k, u), A.scale_vector(k, v))))

    @law("scale_vector/distributes-over-scalar-addition;compatible;unit", L1, ["scale_vector", "add_cartesian_vectors"])
    def _(s, g):
        c = cart(); u = Vector(g.syms("u", s[0]), c); k = g.sym("k"); l = g.sym("l")
        return Case(vdiff(A.scale_vector(k + l, u), A.add_cartesian_vectors(A.scale_vector(k, u), A.scale_vector(l, u)))
                    + vdiff(A.scale_vector(k * l, u), A.scale_vector(k, A.scale_vector(l, u)))
                    + vdiff(A.scale_vector(1, u), u)
                    + [sp.Integer(len(A.scale_vector(k, u).components) - s[0])])

    # ------------------------------------------------------------------ dot product, magnitude
    @law("dot_vectors/symmetric", L2, ["dot_vectors", "_multiply_lists_and_sum"])
    def _(s, g):
        c = cart(); u = Vector(g.syms("u", s[0]), c); v = Vector(g.syms("v", s[1]), c)
        return Case([A.dot_vectors(u, v) - A.dot_vectors(v, u)])

    @law("dot_vectors/bilinear", L3, ["dot_vectors", "add_cartesian_vectors", "scale_vector"])
    def _(s, g):
        c = cart(); u = Vector(g.syms("u", s[0]), c); v = Vector(g.syms("v", s[1]), c); w = Vector(g.syms("w", s[2]), c)
        k = g.sym("k")
        ku_w = A.add_cartesian_vectors(A.scale_vector(k, u), w)
        return Case([A.dot_vectors(ku_w, v) - (k * A.dot_vectors(u, v) + A.dot_vectors(w, v)),
                     A.dot_vectors(v, ku_w) - (k * A.dot_vectors(v, u) + A.dot_vectors(v, w))])

    @law("dot_vectors/missing-components-count-as-zero", L2, ["dot_vectors"])
    def _(s, g):
        c = cart(); u = Vector(g.syms("u", s[0]), c); v = Vector(g.syms("v", s[1]), c)
        return Case([A.dot_vectors(u, v) - A.dot_vectors(Vector(pad3(u), c), Vector(pad3(v), c))])

    @law("vector_magnitude/squared-equals-self-dot;nonnegative", L1, ["vector_magnitude", "dot_vectors"], backend="z3")
    def _(s, g):
        c = cart(); u = Vector(g.syms("u", s[0]), c)
        m = A.vector_magnitude(u)
        return Case([m**2 - A.dot_vectors(u, u), sp.Abs(m) - m])

    # "arbitrary symbolic or numeric components": the for-all-values obligations above are decided over the REALS (the SMT
    # translation reads every symbol as a real number).  Non-real numeric components are covered by ground instances: the dot
    # product is bilinear (no conjugation), so magnitude**2 == dot(v, v) and Lagrange's identity are polynomial identities over C.
    CX = {"[I]": [sp.I], "[1+2I]": [1 + 2 * sp.I], "[I,1]": [sp.I, sp.Integer(1)], "[2,3I,1-I]": [sp.Integer(2), 3 * sp.I, 1 - sp.I],
          "[-2]": [sp.Integer(-2)], "[sqrt(2)*I,0,1]": [sp.sqrt(2) * sp.I, sp.Integer(0), sp.Integer(1)]}

    @law("vector_magnitude,cross_cartesian_vectors/complex-numeric-components:squared-magnitude-is-self-dot;lagrange",
         [(a, b) for a in CX for b in ("[I,1]", "[2,3I,1-I]", "[-2]")], ["vector_magnitude", "dot_vectors", "cross_cartesian_vectors"])
    def _(s, g):
        c = cart(); u = Vector(list(CX[s[0]]), c); v = Vector(list(CX[s[1]]), c)
        x = A.cross_cartesian_vectors(u, v)
        return Case([sp.expand(sp.simplify(A.vector_magnitude(u)**2 - A.dot_vectors(u, u))),
                     sp.expand(sp.simplify(A.vector_magnitude(x)**2 - (A.vector_magnitude(u)**2 * A.vector_magnitude(v)**2 - A.dot_vectors(u, v)**2)))])

    # ------------------------------------------------------------------ cross product
    @law("cross_cartesian_vectors/antisymmetric", L2, ["cross_cartesian_vectors", "_extend_two_vectors"])
    def _(s, g):
        c = cart(); u = Vector(g.syms("u", s[0]), c); v = Vector(g.syms("v", s[1]), c)
        l, r = A.cross_cartesian_vectors(u, v), A.cross_cartesian_vectors(v, u)
        return Case([a + b for a, b in zip(pad3(l), pad3(r))])

    @law("cross_cartesian_vectors/bilinear", L3, ["cross_cartesian_vectors", "add_cartesian_vectors", "scale_vector"])
    def _(s, g):
        c = cart(); u = Vector(g.syms("u", s[0]), c); v = Vector(g.syms("v", s[1]), c); w = Vector(g.syms("w", s[2]), c)
        k = g.sym("k")
        ku_w = A.add_cartesian_vectors(A.scale_vector(k, u), w)
        rhs1 = A.add_cartesian_vectors(A.scale_vector(k, A.cross_cartesian_vectors(u, v)), A.cross_cartesian_vectors(w, v))
        rhs2 = A.add_cartesian_vectors(A.scale_vector(k, A.cross_cartesian_vectors(v, u)), A.cross_cartesian_vectors(v, w))
        return Case(vdiff(A.cross_cartesian_vectors(ku_w, v), rhs1) + vdiff(A.cross_cartesian_vectors(v, ku_w), rhs2))

    @law("cross_cartesian_vectors/orthogonal-to-both-factors", L2, ["cross_cartesian_vectors", "dot_vectors"])
    def _(s, g):
        c = cart(); u = Vector(g.syms("u", s[0]), c); v = Vector(g.syms("v", s[1]), c)
        x = A.cross_cartesian_vectors(u, v)
        return Case([A.dot_vectors(x, u), A.dot_vectors(x, v)])

    @law("cross_cartesian_vectors/lagrange-identity", L2, ["cross_cartesian_vectors", "dot_vectors"])
    def _(s, g):
        c = cart(); u = Vector(g.syms("u", s[0]), c); v = Vector(g.syms("v", s[1]), c)
        x = A.cross_cartesian_vectors(u, v)
        return Case([A.dot_vectors(x, x) - (A.dot_vectors(u, u) * A.dot_vectors(v, v) - A.dot_vectors(u, v)**2)])

    @law("cross_cartesian_vectors/missing-components-count-as-zero", L2, ["cross_cartesian_vectors", "_extend_two_vectors"])
    def _(s, g):
        c = cart(); u = Vector(g.syms("u", s[0]), c); v = Vector(g.syms("v", s[1]), c)
        return Case(vdiff(A.cross_cartesian_vectors(u, v), A.cross_cartesian_vectors(Vector(pad3(u), c), Vector(pad3(v), c))))

    # ------------------------------------------------------------------ projection / rejection / unit
    PT = [(m, n) for m in range(4) for n in range(1, 4)]

    @law("project_vector+reject_cartesian_vector/reconstruct;rejection-orthogonal-to-target", PT,
         ["project_vector", "reject_cartesian_vector", "dot_vectors", "scale_vector", "add_cartesian_vectors"], backend="z3")
    def _(s, g):
        c = cart(); u = Vector(g.syms("u", s[0]), c); t = Vector(g.syms("t", s[1]), c)
        p, r = A.project_vector(u, t), A.reject_cartesian_vector(u, t)
        return Case(vdiff(A.add_cartesian_vectors(p, r), u) + [A.dot_vectors(r, t)],
                    assume=[sp.Ne(sum(x**2 for x in t.components), 0)])

    @law("vector_unit/magnitude-one", [(m,) for m in range(1, 4)], ["vector_unit", "vector_magnitude", "scale_vector"], backend="z3")
    def _(s, g):
        c = cart(); u = Vector(g.syms("u", s[0]), c)
        return Case([A.vector_magnitude(A.vector_unit(u)) - 1], assume=[sp.Gt(sum(x**2 for x in u.components), 0)])

    @law("equal_vectors/pads-and-compares", L2, ["equal_vectors", "_extend_two_vectors"])
    def _(s, g):
        # equal_vectors(u, pad(u)) is True; a vector differing in one generic component is not equal
        c = cart(); u = Vector(g.syms("u", s[0]), c)
        n = max(s)
        up = Vector(pad3(u)[:n] if n >= s[0] else list(u.components), c)
        res = [sp.Integer(0 if A.equal_vectors(u, up) else 1), sp.Integer(0 if A.equal_vectors(up, u) else 1)]
        if s[0] > 0:
            d = g.sym("d", positive=True)
            w = Vector([u.components[0] + d] + list(u.components[1:]), c)
            res.append(sp.Integer(1 if A.equal_vectors(u, w) else 0))
        return Case(res)

    # ------------------------------------------------------------------ refusals
    REFUSE = (TypeError, ValueError)
    kinds = {"cart": CS.System.CARTESIAN, "cyl": CS.System.CYLINDRICAL, "sph": CS.System.SPHERICAL}
    mixed = [(a, b, m, n) for a in kinds for b in kinds for m in (0, 2, 3) for n in (0, 1, 3)]  # two DIFFERENT instances
    same_noncart = [(a, m, n) for a in ("cyl", "sph") for m in (0, 2, 3) for n in (0, 1, 3)]

    def refuse(fname, fn):
        @law(f"{fname}/refuses-different-coordinate-systems", mixed, [fname])
        def _(s, g):
            u = Vector(g.syms("u", s[2]), CS(kinds[s[0]])); v = Vector(g.syms("v", s[3]), CS(kinds[s[1]]))
            return Case(raises=REFUSE, thunk=lambda: fn(u, v))

    # two system objects of DIFFERENT kind wrapped around the SAME inner SymPy system (CoordinateSystem(kind, inner)): still two
    # different coordinate systems -- an equality that looks only at the inner system would let them mix
    shared_inner = [(a, b, m, n) for a in ("cart", "cyl", "sph") for b in ("cart", "cyl", "sph") if a != b for m, n in ((3, 3), (2, 3), (0, 1))]

    def refuse_shared(fname, fn):
        @law(f"{fname}/refuses-systems-of-different-kind-sharing-one-inner-system", shared_inner, [fname])
        def _(s, g):
            c1 = CS(kinds[s[0]])
            c2 = CS(kinds[s[1]], c1.coord_system)
            u = Vector(g.syms("u", s[2]), c1); v = Vector(g.syms("v", s[3]), c2)
            return Case(raises=REFUSE, thunk=lambda: fn(u, v))

    for _n, _f in (("add_cartesian_vectors", A.add_cartesian_vectors), ("subtract_cartesian_vectors", A.subtract_cartesian_vectors), ("dot_vectors", A.dot_vectors),
                   ("cross_cartesian_vectors", A.cross_cartesian_vectors), ("equal_vectors", A.equal_vectors), ("reject_cartesian_vector", A.reject_cartesian_vector),
                   ("project_vector", A.project_vector)):
        refuse_shared(_n, _f)

    refuse("add_cartesian_vectors", A.add_cartesian_vectors)
    refuse("subtract_cartesian_vectors", A.subtract_cartesian_vectors)
    refuse("dot_vectors", A.dot_vectors)
    refuse("cross_cartesian_vectors", A.cross_cartesian_vectors)
    refuse("equal_vectors", A.equal_vectors)
    refuse("reject_cartesian_vector", A.reject_cartesian_vector)

    def refuse_nc(fname, fn):
        @law(f"{fname}/refuses-non-cartesian-operands", same_noncart, [fname])
        def _(s, g):
            c = CS(kinds[s[0]]); u = Vector(g.syms("u", s[1]), c); v = Vector(g.syms("v", s[2]), c)
            return Case(raises=REFUSE, thunk=lambda: fn(u, v))

    refuse_nc("add_cartesian_vectors", A.add_cartesian_vectors)
    refuse_nc("subtract_cartesian_vectors", A.subtract_cartesian_vectors)
    refuse_nc("cross_cartesian_vectors", A.cross_cartesian_vectors)
    return out


def run(report):
    ls = laws()
    src = PKG / "core/vectors/arithmetics.py"
    for l in ls:
        for f in l.functions:
            report.function(f, src)
    run_laws(report, MOD, ls, "C10", plain="quick")
    report.extra["exhaustive"] = True
    report.extra["shape_rule"] = ("operand lengths 0..3 x 0..3 (x 0..3 for three-operand clauses); coordinate-system "
                                  "combinations: same Cartesian instance, two different instances of each kind pair, "
                                  "same cylindrical, same spherical -- the property's own bounds, enumerated completely")
    report.trust("CPython 3.12", "SymPy 1.14 construction/auto-evaluation of Add/Mul/Pow is value preserving",
                 "sympy.polys (expand, together, groebner) for the nf back end", "z3 5.1 / cvc5 1.4",
                 "generic execution: control flow of the functions under contract does not depend on component values "
                 "(no Relational.__bool__ is evaluated; SymPy raises TypeError if one were)")
    report.assume("components are real numbers (symbols declared real=True); non-real components are covered only by the ground "
                  "instances of the complex-numeric-components clause (numbers, not symbols)",
                  "degenerate structure (a component that is literally 0, or two equal components) follows the generic "
                  "summary: SymPy auto-evaluation is value preserving")
