"""C06 -- symbolic dimension inference agrees with evaluation on quantities.

pyvc on core/dimensions/collect_expression.py (every function) and Symbolic.__init__.  Scope of the proof: the DIMENSION and the
ERROR behaviour of every function, against list-level specifications written as left folds (the three operand lists of a
product / sum / min / max are universally quantified abstract lists; sub-results of recursive calls are the values of an
unspecified but fixed function -- collect is deterministic).  The "value-equal expression" clause and the commuting diagram
with quantity construction are covered by an executable contract evaluated on enumerated real trees (bounded, labelled).
"""
from __future__ import annotations

import ast

import z3

from ..core import seed, PKG, Ob, PROVED, REFUTED, FAULT, try_replay
from ..pyvc import (Exec, Ctx, Obj, Opt, NONE, ExcVal, Builtin, TypeRef, Seq, GenError, LoopSpec, Closure, verify_function, discharge, accumulators)
from ..contracts import frontend as FE
from ..contracts import model as M
from .. import smt

LEVEL = "proof"
UNIT = "C06"

# ------------------------------------------------------------------------------------------ abstract objects
CX = z3.DeclareSort("CollectedExpr")  # an expression object handled by the collector (number, quantity, symbolic expression)
cx_lit = z3.Function("cx_lit", CX, z3.BoolSort())      # is_any_dimension(x): literally 0, +-oo or NaN
cx_isqty = z3.Function("cx_isqty", CX, z3.BoolSort())  # isinstance(x, SymQuantity)
cx_scale = z3.Function("cx_scale", CX, CX)             # x.scale_factor of a quantity
cx_qdim = z3.Function("cx_qdim", CX, M.Dim)            # x.dimension of a quantity
cx_num = z3.Function("cx_num", CX, z3.RealSort())      # numeric value when used as an exponent
cx_mul = z3.Function("cx_mul", CX, CX, CX)
cx_add = z3.Function("cx_add", CX, CX, CX)
cx_pow = z3.Function("cx_pow", CX, CX, CX)
cx_abs = z3.Function("cx_abs", CX, CX)
cx_mkq = z3.Function("cx_mkq", CX, M.Dim, CX)          # Quantity(factor, dimension=d)
cx_of = z3.Function("cx_of_expr", M.ExprS, CX)         # the input expression itself as an object
CX_ONE, CX_ZERO = z3.Const("cx_one", CX), z3.Const("cx_zero", CX)
BASE_FACTS = [z3.Not(cx_lit(CX_ONE)), cx_lit(CX_ZERO), z3.Not(cx_isqty(CX_ONE)), z3.Not(cx_isqty(CX_ZERO))]

LST = z3.DeclareSort("OperandList")
l_len = z3.Function("l_len", LST, z3.IntSort())
l_cx = z3.Function("l_cx", LST, z3.IntSort(), CX)
l_dim = z3.Function("l_dim", LST, z3.IntSort(), M.Dim)
l_nil = z3.Const("l_nil", LST)
l_app = z3.Function("l_app", LST, CX, M.Dim, LST)
# results of the (deterministic) recursive call on a sub-expression
RX = z3.Function("collected_expr_of", M.ExprS, CX)
RD = z3.Function("collected_dim_of", M.ExprS, M.Dim)
RERR = z3.Function("collect_raises_on", M.ExprS, z3.IntSort())  # 0 no, 1 UnitsError, 2 ValueError
hasdim = z3.Function("has_dimension_attr", M.ExprS, z3.BoolSort())
fn_hasdim = z3.Function("func_has_dimension_attr", M.ExprS, z3.BoolSort())
fn_dim = z3.Function("func_dimension", M.ExprS, M.Dim)


def mkq_facts(f, d):
    q = cx_mkq(f, d)
    return [cx_isqty(q), cx_qdim(q) == d, z3.Not(cx_lit(q)), cx_lit(cx_scale(q)) == cx_lit(f)]


def mul_facts(a, b):
    # ASSUMED (A-PROD): a product of numbers / scale factors is literally 0, +-oo or NaN exactly when one of the factors is
    return [cx_lit(cx_mul(a, b)) == z3.Or(cx_lit(a), cx_lit(b)), z3.Not(cx_isqty(cx_mul(a, b)))]


# prefix folds over operand lists (specification)
ANYP = z3.Function("any_in_prefix", LST, z3.IntSort(), z3.BoolSort())     # some element of the first k is literally any
ALLP = z3.Function("all_any_prefix", LST, z3.IntSort(), z3.BoolSort())    # every element of the first k is literally any
SANYP = z3.Function("scale_any_in_prefix", LST, z3.IntSort(), z3.BoolSort())
QDP = z3.Function("qdim_product_prefix", LST, z3.IntSort(), M.Dim)        # product of dimensions of the non-any quantities
SDP = z3.Function("sdim_product_prefix", LST, z3.IntSort(), M.Dim)        # product of the dimensions of symbolic operands
# unique-dimension fold: state after the numbers (0), after k quantities, after all quantities and k symbolic operands
UK_Q = z3.Function("ud_known_q", LST, LST, z3.IntSort(), z3.BoolSort())
UD_Q = z3.Function("ud_dim_q", LST, LST, z3.IntSort(), M.Dim)
UE_Q = z3.Function("ud_err_q", LST, LST, z3.IntSort(), z3.BoolSort())
UK_S = z3.Function("ud_known_s", LST, LST, LST, z3.IntSort(), z3.BoolSort())
UD_S = z3.Function("ud_dim_s", LST, LST, LST, z3.IntSort(), M.Dim)
UE_S = z3.Function("ud_err_s", LST, LST, LST, z3.IntSort(), z3.BoolSort())


def ud_init(N, Q):
    return [UK_Q(N, Q, 0) == z3.Not(ALLP(N, l_len(N))), UD_Q(N, Q, 0) == M.DIMENSIONLESS, z3.Not(UE_Q(N, Q, 0))]


def ud_step_q(N, Q, k):
    q = l_cx(Q, k)
    sany = cx_lit(cx_scale(q))
    kn, dm = UK_Q(N, Q, k), UD_Q(N, Q, k)
    return [UK_Q(N, Q, k + 1) == z3.Or(kn, z3.Not(sany)),
            UD_Q(N, Q, k + 1) == z3.If(z3.And(z3.Not(sany), z3.Not(kn)), cx_qdim(q), dm),
            UE_Q(N, Q, k + 1) == z3.Or(UE_Q(N, Q, k), z3.And(z3.Not(sany), kn, z3.Not(M.d_equiv(dm, cx_qdim(q)))))]


def ud_link(N, Q, S):
    n = l_len(Q)
    return [UK_S(N, Q, S, 0) == UK_Q(N, Q, n), UD_S(N, Q, S, 0) == UD_Q(N, Q, n), UE_S(N, Q, S, 0) == UE_Q(N, Q, n)]


def ud_step_s(N, Q, S, k):
    x, d = l_cx(S, k), l_dim(S, k)
    lit = cx_lit(x)
    kn, dm = UK_S(N, Q, S, k), UD_S(N, Q, S, k)
    return [UK_S(N, Q, S, k + 1) == z3.Or(kn, z3.Not(lit)),
            UD_S(N, Q, S, k + 1) == z3.If(z3.And(z3.Not(lit), z3.Not(kn)), d, dm),
            UE_S(N, Q, S, k + 1) == z3.Or(UE_S(N, Q, S, k), z3.And(z3.Not(lit), kn, z3.Not(M.d_equiv(dm, d))))]


def mono(F, args, k, n):
    """L1: a fold of disjunctions is monotone (lemma about the specification, instantiated)"""
    return z3.Implies(z3.And(k <= n, F(*args, k)), F(*args, n))


# ------------------------------------------------------------------------------------------ models
def lst_seq(L, with_dim):
    if with_dim:
        return Seq(l_len(L), lambda i: (l_cx(L, i), l_dim(L, i)), "operands")
    return Seq(l_len(L), lambda i: l_cx(L, i), "operands")


class C06Exec(Exec):
    list_kinds: dict = {}

    def iter_items(self, it, ctx):
        if z3.is_expr(it) and it.sort() == LST:
            return None
        return super().iter_items(it, ctx)

    def for_loop(self, st, ctx):
        # iteration over an abstract operand list: view it as a symbolic sequence (pairs for the `syms` list)
        res = []
        self.loop_counter += 1
        outs = self.eval(st.iter, ctx)
        if all(z3.is_expr(v) and v.sort() == LST for _, v in outs):
            for c, L in outs:
                res.extend(self.for_symbolic(st, c, lst_seq(L, isinstance(st.target, ast.Tuple))))
            return res
        self.loop_counter -= 1
        return super().for_loop(st, ctx)

    def call_value(self, f, ctx, args, kwargs, node=None):
        if isinstance(f, tuple) and f and f[0] in ("__type__", "__func__", "__diffm__", "__funcobj__"):
            return [(ctx, self.fresh("built_expr", CX))]
        return super().call_value(f, ctx, args, kwargs, node)


def binop_model(ex, ctx, op, l, r):
    iscx = lambda x: z3.is_expr(x) and x.sort() == CX
    isd = lambda x: z3.is_expr(x) and x.sort() == M.Dim
    if iscx(l) and iscx(r):
        if op == "Mult":
            ctx.assume(*mul_facts(l, r))
            return [(ctx, cx_mul(l, r))]
        if op == "Add":
            return [(ctx, cx_add(l, r))]
        if op == "Pow":
            return [(ctx, cx_pow(l, r))]
    if isd(l) and isd(r):
        if op == "Mult":
            return [(ctx, M.d_mul(l, r))]
        if op == "Div":
            return [(ctx, M.d_div(l, r))]
    if isd(l) and iscx(r) and op == "Pow":
        FE.assumed("Dimension**exponent", "Dimension ** x scales the dimensional exponents by the numeric value of x")
        return [(ctx, M.d_pow(l, cx_num(r)))]
    if isd(l) and (z3.is_expr(r) and (z3.is_real(r) or z3.is_int(r))) and op == "Pow":
        return [(ctx, M.d_pow(l, z3.ToReal(r) if z3.is_int(r) else r))]
    return None


def attr_model(ex, ctx, base, attr):
    if z3.is_expr(base) and base.sort() == CX:
        if attr == "scale_factor":
            return [(ctx, cx_scale(base))]
        if attr == "dimension":
            return [(ctx, cx_qdim(base))]
        if attr == "diff":
            return [(ctx, ("__diffm__", base))]
    if z3.is_expr(base) and base.sort() == M.ExprS:
        if attr == "args":
            return [(ctx, M.args_seq(base))]
        if attr == "base":
            return [(ctx, M.arg(base, 0))]
        if attr == "exp":
            return [(ctx, M.arg(base, 1))]
        if attr == "func":
            return [(ctx, ("__funcobj__", base))]
        if attr == "dimension":  # the declared dimension of an object that has one; AttributeError otherwise
            res = []
            if ex.feasible(ctx, hasdim(base)):
                res.append((ctx.fork(hasdim(base)), M.leaf_dim(base)))
            if ex.feasible(ctx, z3.Not(hasdim(base))):
                res.append((ctx.fork(z3.Not(hasdim(base))), ExcVal("AttributeError", ("dimension",))))
            return res
    if isinstance(base, TypeRef) and base.name == "dimsys_SI":
        if attr == "is_dimensionless":
            return [(ctx, Builtin("dimsys_SI.is_dimensionless", lambda ex, c, a, k: [(c, M.d_is_dimensionless(a[0]))]))]
        if attr == "equivalent_dims":
            return [(ctx, Builtin("dimsys_SI.equivalent_dims", lambda ex, c, a, k: [(c, M.d_equiv(a[0], a[1]))]))]
    if isinstance(base, TypeRef) and base.name == "S":
        if attr == "One":
            return [(ctx, CX_ONE)]
        if attr == "Zero":
            return [(ctx, CX_ZERO)]
    return None


def isinstance_model_factory(facts):
    def im(ex, ctx, v, clsname):
        if z3.is_expr(v) and v.sort() == M.ExprS:
            return M.isinstance_expr(v, clsname, facts)
        if z3.is_expr(v) and v.sort() == CX:
            if clsname == "SymQuantity":
                return cx_isqty(v)
        raise GenError(f"isinstance({v!r}, {clsname})")
    return im


def method_model(ex, ctx, base, attr, args, kw):
    r = FE.dim_subs_method(ex, ctx, base, attr, args, kw)
    if r is not None:
        return r
    if z3.is_expr(base) and base.sort() == LST and attr == "append":
        x = args[0]
        if isinstance(x, tuple):
            cxv, dv = x
        else:
            cxv, dv = x, M.DIMENSIONLESS
        if z3.is_expr(cxv) and cxv.sort() == M.ExprS:
            cxv = cx_of(cxv)
        new = l_app(base, cxv, dv)
        for n, v in list(ctx.env.items()):
            if z3.is_expr(v) and v.sort() == LST and z3.eq(v, base):
                ctx.env[n] = new
        return [(ctx, NONE)]
    return None


def abstract_list(ex, ctx, name, pylist):
    if pylist:
        raise GenError("non-empty concrete list turned abstract")
    return l_nil


def all_any_model(ex, ctx, which, x):
    return None


def comprehension_model(ex, ctx, node, it):
    # generator expressions over operand lists: `all(is_any_dimension(num) for num in nums)` and the splats/sums of
    # scale factors / symbolic parts (their values are not tracked: a fresh object)
    gen = node.generators[0]
    if z3.is_expr(it) and it.sort() == LST:
        src = ast.unparse(node.elt)
        if src.startswith("is_any_dimension("):
            return [(ctx, ("__allany_gen__", it))]
        return [(ctx, ("__gen__", it, src))]
    return None


def b_all(ex, ctx, args, kw):
    x = args[0]
    if isinstance(x, tuple) and x and x[0] == "__allany_gen__":
        L = x[1]
        return [(ctx, ALLP(L, l_len(L)))]
    raise GenError("all() over an unmodelled generator")


def b_sum(ex, ctx, args, kw):
    return [(ctx, ex.fresh("sum", CX))]


def b_getattr(ex, ctx, args, kw):
    base, name = args[0], args[1]
    if isinstance(base, tuple) and base and base[0] == "__funcobj__" and name == "dimension" and len(args) == 3:
        e = base[1]
        FE.assumed("getattr(func, 'dimension', default)", "the function class of an application either carries a declared dimension or not (fixed per application)")
        return [(ctx, z3.If(fn_hasdim(e), fn_dim(e), args[2]))]
    if len(args) == 2 and z3.is_expr(base) and base.sort() == M.ExprS and name == "dimension":
        return [(ctx, M.leaf_dim(base))]
    raise GenError(f"getattr({base!r}, {name!r})")


def b_hasattr(ex, ctx, base, name):
    if z3.is_expr(base) and base.sort() == M.ExprS and name == "dimension":
        return hasdim(base)
    raise GenError("hasattr")


def collect_contract(ex, ctx, args, kw):
    """recursive call: collect is a (deterministic) function -- returns (RX(a), RD(a)) or raises per RERR(a)"""
    a = args[0]
    if isinstance(a, tuple) and a and a[0] == "__funcobj__":
        # collect(func.func): the function CLASS of the differentiated application: its declared dimension or dimensionless
        e = a[1]
        return [(ctx, (ex.fresh("funcobj", CX), z3.If(fn_hasdim(e), fn_dim(e), M.DIMENSIONLESS)))]
    if not (z3.is_expr(a) and a.sort() == M.ExprS):
        raise GenError(f"collect({a!r})")
    res = []
    calls = list(ctx.ghost.get("collect_calls", [])) + [a]
    for cond, val in ((RERR(a) == 0, (RX(a), RD(a))), (RERR(a) == 1, ExcVal("UnitsError", ("propagated", a))), (RERR(a) == 2, ExcVal("ValueError", ("propagated", a)))):
        if ex.feasible(ctx, cond):
            c = ctx.fork(cond, RERR(a) >= 0, RERR(a) <= 2)
            c.ghost["collect_calls"] = calls
            res.append((c, val))
    return res


def mk_exec(facts, extra_contracts=None, loop_specs=None, extra_globals=None):
    contracts = {"collect_expression_and_dimension": collect_contract}
    contracts.update(extra_contracts or {})
    g = {
        "collect_expression_and_dimension": ("__contract__", "collect_expression_and_dimension"),
        "is_any_dimension": Builtin("is_any_dimension[contract C04]", lambda ex, c, a, k: [(c, cx_lit(a[0]) if a[0].sort() == CX else M.v_is_any(M.leaf_val(a[0])))]),
        "is_number": Builtin("is_number[contract C04]", lambda ex, c, a, k: [(c, M.kind(a[0]) == M.K_NUM)]),
        "dimensionless": M.DIMENSIONLESS, "dimsys_SI": TypeRef("dimsys_SI"), "S": TypeRef("S"),
        "Abs": Builtin("Abs", lambda ex, c, a, k: [(c, cx_abs(a[0]))]),
        "Quantity": Builtin("Quantity[contract C05]", lambda ex, c, a, k: (c.assume(*mkq_facts(a[0], k["dimension"])), [(c, cx_mkq(a[0], k["dimension"]))])[1]),
        "all": Builtin("all", b_all), "sum": Builtin("sum", b_sum), "getattr": Builtin("getattr", b_getattr),
        "SymQuantity": TypeRef("SymQuantity"), "UnitsError": TypeRef("UnitsError"),
    }
    g.update(extra_globals or {})
    ex = FE.make_exec("core/dimensions/collect_expression.py", UNIT, globals_extra=g, contracts=contracts,
                      models={"__binop__": binop_model, "__method__": method_model, "__abstract_list__": abstract_list,
                              "__comprehension__": comprehension_model, "__hasattr__": b_hasattr},
                      loop_specs=loop_specs or {}, isinstance_model=isinstance_model_factory(facts), attr_model=attr_model)
    ex.__class__ = C06Exec
    return ex


# ------------------------------------------------------------------------------------------ obligations
def obligations():
    facts = FE.class_facts(extended=True)
    e = z3.Const("expr", M.ExprS)
    N, Q, S = z3.Consts("nums qtys syms", LST)
    obs, execs = [], []
    LENS = [l_len(N) >= 0, l_len(Q) >= 0, l_len(S) >= 0]

    # ---------------- _collect_unique_dimension(nums, qtys, syms)
    _fd = lambda q: mk_exec(facts).find_def(q)
    ud_name = accumulators(_fd("_collect_unique_dimension"), 0)["carried"][0]

    def q_loop():
        def inv(ex, ctx, ghost, k, seq):
            dim = ctx.env[ud_name]
            dn = dim.is_none if isinstance(dim, Opt) else z3.BoolVal(dim is NONE)
            dv = dim.val if isinstance(dim, Opt) else (M.DIMENSIONLESS if dim is NONE else dim)
            return z3.And(k >= 0, k <= l_len(Q), dn == z3.Not(UK_Q(N, Q, k)), z3.Implies(UK_Q(N, Q, k), M.d_equiv(dv, UD_Q(N, Q, k))), z3.Not(UE_Q(N, Q, k)))
        return LoopSpec(init=lambda ex, ctx, seq: {}, inv=inv, step=lambda ex, ctx, ghost, elem, k, seq: ({}, ud_step_q(N, Q, k) + [mono(UE_Q, (N, Q), k + 1, l_len(Q))]))

    def s_loop():
        def inv(ex, ctx, ghost, k, seq):
            dim = ctx.env[ud_name]
            dn = dim.is_none if isinstance(dim, Opt) else z3.BoolVal(dim is NONE)
            dv = dim.val if isinstance(dim, Opt) else (M.DIMENSIONLESS if dim is NONE else dim)
            return z3.And(k >= 0, k <= l_len(S), dn == z3.Not(UK_S(N, Q, S, k)), z3.Implies(UK_S(N, Q, S, k), M.d_equiv(dv, UD_S(N, Q, S, k))),
                          z3.Not(UE_S(N, Q, S, k)), z3.Not(UE_Q(N, Q, l_len(Q))))
        return LoopSpec(init=lambda ex, ctx, seq: {}, inv=inv, step=lambda ex, ctx, ghost, elem, k, seq: ({}, ud_step_s(N, Q, S, k) + [mono(UE_S, (N, Q, S), k + 1, l_len(S))]))

    ex = mk_exec(facts, loop_specs={"_collect_unique_dimension": {0: q_loop(), 1: s_loop()}})

    def setup(ex, ctx):
        ctx.assume(*LENS, *ud_init(N, Q), *ud_link(N, Q, S), *BASE_FACTS)
        return [N, Q, S], {}, None

    def post_ud(ex, ctx, out, info):
        nS = l_len(S)
        known, dm, err = UK_S(N, Q, S, nS), UD_S(N, Q, S, nS), UE_S(N, Q, S, nS)
        if out[0] == "return":
            d = out[1]
            yield "returns=>no-inequivalent-non-zero-terms", z3.Not(err)
            yield "returns=>dimension-of-the-first-non-zero-term(numbers-count-as-dimensionless)", z3.If(known, M.d_equiv(d, dm), d == M.DIMENSIONLESS)
        else:
            yield "raises=>two-non-zero-terms-of-inequivalent-dimension", z3.Or(err, UE_Q(N, Q, l_len(Q)))
            yield "raises-UnitsError", z3.BoolVal(out[1].cls == "UnitsError")

    verify_function(ex, "_collect_unique_dimension", setup, post_ud)
    execs.append(ex)

    def unique_contract(ex, ctx, args, kw):
        n_, q_, s_ = args
        d = ex.fresh("unique_dim", M.Dim)
        nS = l_len(s_)
        known, dm, err = UK_S(n_, q_, s_, nS), UD_S(n_, q_, s_, nS), z3.Or(UE_S(n_, q_, s_, nS), UE_Q(n_, q_, l_len(q_)))
        res = []
        ok = ctx.fork(z3.Not(err), z3.If(known, M.d_equiv(d, dm), d == M.DIMENSIONLESS))
        ok.ghost["unique_result"] = (d, n_, q_, s_)
        if ex.feasible(ok):
            res.append((ok, d))
        bad = ctx.fork(err)
        if ex.feasible(bad):
            res.append((bad, ExcVal("UnitsError", ("from-unique-dimension",))))
        return res

    # ---------------- _split_numeric_and_symbolic(expr): partition of the arguments, in order
    NLs = z3.Function("nums_after", M.ExprS, z3.IntSort(), LST)
    QLs = z3.Function("qtys_after", M.ExprS, z3.IntSort(), LST)
    SLs = z3.Function("syms_after", M.ExprS, z3.IntSort(), LST)
    SERR = z3.Function("some_operand_raises_before", M.ExprS, z3.IntSort(), z3.BoolSort())

    def split_step(k):
        a = M.arg(e, k)
        isq, isn = M.kind(a) == M.K_QTY, M.kind(a) == M.K_NUM
        subq = cx_isqty(RX(a))
        other_ok = z3.And(z3.Not(isq), z3.Not(isn), RERR(a) == 0)
        return [NLs(e, k + 1) == z3.If(isn, l_app(NLs(e, k), cx_of(a), M.DIMENSIONLESS), NLs(e, k)),
                QLs(e, k + 1) == z3.If(isq, l_app(QLs(e, k), cx_of(a), M.DIMENSIONLESS),
                                       z3.If(z3.And(other_ok, subq), l_app(QLs(e, k), RX(a), M.DIMENSIONLESS), QLs(e, k))),
                SLs(e, k + 1) == z3.If(z3.And(other_ok, z3.Not(subq)), l_app(SLs(e, k), RX(a), RD(a)), SLs(e, k)),
                SERR(e, k + 1) == z3.Or(SERR(e, k), z3.And(z3.Not(isq), z3.Not(isn), RERR(a) != 0))]

    sp_names = accumulators(_fd("_split_numeric_and_symbolic"), 0)["appended"]  # numbers, quantities, symbolic operands (order of creation)

    def split_loop():
        def inv(ex, ctx, ghost, k, seq):
            return z3.And(k >= 0, k <= M.nargs(e), ctx.env[sp_names[0]] == NLs(e, k), ctx.env[sp_names[1]] == QLs(e, k), ctx.env[sp_names[2]] == SLs(e, k), z3.Not(SERR(e, k)))
        return LoopSpec(init=lambda ex, ctx, seq: {}, inv=inv, step=lambda ex, ctx, ghost, elem, k, seq: ({}, split_step(k) + [mono(SERR, (e,), k + 1, M.nargs(e))]),
                        modifies=tuple(sp_names))

    ex = mk_exec(facts, loop_specs={"_split_numeric_and_symbolic": {0: split_loop()}})

    def setup_split(ex, ctx):
        ctx.assume(M.expr_wf(e), NLs(e, 0) == l_nil, QLs(e, 0) == l_nil, SLs(e, 0) == l_nil, z3.Not(SERR(e, 0)), M.nargs(e) >= 0)
        return [e], {}, None

    def post_split(ex, ctx, out, info):
        n = M.nargs(e)
        if out[0] == "return":
            a, b, c = out[1]
            yield "returns=>no-operand-raised", z3.Not(SERR(e, n))
            yield "returns=>numbers,quantities(and-sub-results-that-are-quantities),symbolic-sub-results-in-order", z3.And(a == NLs(e, n), b == QLs(e, n), c == SLs(e, n))
        else:
            yield "raises=>some-operand's-inference-raised(propagated)", SERR(e, n)
            yield "propagates-the-operand's-error-class", z3.BoolVal(out[1].parts[:1] == ("propagated",))

    verify_function(ex, "_split_numeric_and_symbolic", setup_split, post_split)
    execs.append(ex)

    def split_contract(ex, ctx, args, kw):
        a = args[0]
        n_, q_, s_ = ex.fresh("nums", LST), ex.fresh("qtys", LST), ex.fresh("syms", LST)
        res = []
        ok = ctx.fork(l_len(n_) >= 0, l_len(q_) >= 0, l_len(s_) >= 0, *ud_init(n_, q_), *ud_link(n_, q_, s_))
        ok.ghost["split_result"] = (n_, q_, s_)
        res.append((ok, (n_, q_, s_)))
        res.append((ctx.fork(), ExcVal("UnitsError", ("propagated",))))
        res.append((ctx.fork(), ExcVal("ValueError", ("propagated",))))
        return res

    # ---------------- _collect_mul
    mfd = _fd("_collect_mul")
    m_factor = accumulators(mfd, 0)["carried"][0]
    m_factor2, m_qdim = accumulators(mfd, 1)["carried"][:2]
    m_expr, m_dim = accumulators(mfd, 2)["carried"][:2]

    def mul_loops():
        def n_inv(ex, ctx, ghost, k, seq):
            n_ = ctx.ghost["split_result"][0]
            return z3.And(k >= 0, k <= l_len(n_), cx_lit(ctx.env[m_factor]) == ANYP(n_, k))

        def n_step(ex, ctx, ghost, elem, k, seq):
            n_ = ctx.ghost["split_result"][0]
            return {}, [ANYP(n_, k + 1) == z3.Or(ANYP(n_, k), cx_lit(l_cx(n_, k)))]

        def q_inv(ex, ctx, ghost, k, seq):
            n_, q_, _ = ctx.ghost["split_result"]
            return z3.And(k >= 0, k <= l_len(q_), cx_lit(ctx.env[m_factor2]) == z3.Or(ANYP(n_, l_len(n_)), SANYP(q_, k)), M.d_equiv(ctx.env[m_qdim], QDP(q_, k)))

        def q_step(ex, ctx, ghost, elem, k, seq):
            q_ = ctx.ghost["split_result"][1]
            sany = cx_lit(cx_scale(l_cx(q_, k)))
            return {}, [SANYP(q_, k + 1) == z3.Or(SANYP(q_, k), sany), QDP(q_, k + 1) == z3.If(sany, QDP(q_, k), M.d_mul(QDP(q_, k), cx_qdim(l_cx(q_, k))))]

        def s_inv(ex, ctx, ghost, k, seq):
            n_, q_, s_ = ctx.ghost["split_result"]
            return z3.And(k >= 0, k <= l_len(s_), M.d_equiv(ctx.env[m_dim], M.d_mul(QDP(q_, l_len(q_)), SDP(s_, k))),
                          z3.Not(z3.Or(ANYP(n_, l_len(n_)), SANYP(q_, l_len(q_)))), z3.Implies(k > 0, z3.Not(cx_isqty(ctx.env[m_expr]))),
                          z3.Implies(k == 0, z3.If(M.d_is_dimensionless(QDP(q_, l_len(q_))), z3.BoolVal(True),
                                                   z3.And(cx_isqty(ctx.env[m_expr]), M.d_equiv(cx_qdim(ctx.env[m_expr]), QDP(q_, l_len(q_))), z3.Not(cx_lit(cx_scale(ctx.env[m_expr])))))))

        def s_step(ex, ctx, ghost, elem, k, seq):
            s_ = ctx.ghost["split_result"][2]
            return {}, [SDP(s_, k + 1) == M.d_mul(SDP(s_, k), l_dim(s_, k))]
        I = lambda ex, ctx, seq: {}
        return {0: LoopSpec(init=I, inv=n_inv, step=n_step), 1: LoopSpec(init=I, inv=q_inv, step=q_step), 2: LoopSpec(init=I, inv=s_inv, step=s_step)}

    ex = mk_exec(facts, {"split": split_contract}, loop_specs={"_collect_mul": mul_loops()}, extra_globals={"_split_numeric_and_symbolic": ("__contract__", "split")})

    def setup_mul(ex, ctx):
        ctx.assume(M.expr_wf(e), M.kind(e) == M.K_MUL, *BASE_FACTS)
        return [e], {}, None

    def post_mul(ex, ctx, out, info):
        sr = ctx.ghost.get("split_result")
        if out[0] == "return":
            x, d = out[1]
            n_, q_, s_ = sr
            ctx.assume(z3.Not(ANYP(n_, 0)), z3.Not(SANYP(q_, 0)), QDP(q_, 0) == M.DIMENSIONLESS, SDP(s_, 0) == M.DIMENSIONLESS)
            anyprod = z3.Or(ANYP(n_, l_len(n_)), SANYP(q_, l_len(q_)))
            yield "zero/inf/nan-numeric-factor=>literal-value-and-dimensionless", z3.Implies(anyprod, z3.And(cx_lit(x), d == M.DIMENSIONLESS))
            yield "otherwise=>dimension-is-the-product-of-operand-dimensions", z3.Implies(z3.Not(anyprod), M.d_equiv(d, M.d_mul(QDP(q_, l_len(q_)), SDP(s_, l_len(s_)))))
            yield "pure-quantity-product-stays-a-quantity-of-that-dimension", z3.Implies(z3.And(z3.Not(anyprod), l_len(s_) == 0, z3.Not(M.d_is_dimensionless(QDP(q_, l_len(q_))))),
                                                                                  z3.And(cx_isqty(x), M.d_equiv(cx_qdim(x), d)))
        else:
            yield "raises-only-what-an-operand-raised", z3.BoolVal(out[1].parts[:1] == ("propagated",))

    # initial fold facts must be available inside the loops too
    def setup_mul2(ex, ctx):
        a, k, i = setup_mul(ex, ctx)
        return a, k, i

    def split_contract_mul(ex, ctx, args, kw):
        outs = split_contract(ex, ctx, args, kw)
        for c, v in outs:
            if isinstance(v, tuple):
                n_, q_, s_ = v
                c.assume(z3.Not(ANYP(n_, 0)), z3.Not(SANYP(q_, 0)), QDP(q_, 0) == M.DIMENSIONLESS, SDP(s_, 0) == M.DIMENSIONLESS)
        return outs
    ex.contracts["split"] = split_contract_mul
    verify_function(ex, "_collect_mul", setup_mul2, post_mul)
    execs.append(ex)

    # ---------------- _collect_add / _collect_min_max: dimension is the unique dimension of the operands
    for qual, kinds in (("_collect_add", [M.K_ADD]), ("_collect_min_max", [M.K_MIN, M.K_MAX])):
        ex = mk_exec(facts, {"split": split_contract, "unique": unique_contract},
                     extra_globals={"_split_numeric_and_symbolic": ("__contract__", "split"), "_collect_unique_dimension": ("__contract__", "unique")})

        def setup_add(ex, ctx, kinds=kinds):
            ctx.assume(M.expr_wf(e), z3.Or([M.kind(e) == k for k in kinds]), *BASE_FACTS)
            return [e], {}, None

        def post_add(ex, ctx, out, info):
            if out[0] == "return":
                x, d = out[1]
                ur = ctx.ghost.get("unique_result")
                sr = ctx.ghost.get("split_result")
                yield "dimension-is-the-unique-dimension-of-its-own-operand-lists", z3.BoolVal(ur is not None and sr is not None and all(z3.eq(a, b) for a, b in zip(ur[1:], sr))) if ur else z3.BoolVal(False)
                if ur:
                    yield "returns-that-dimension", d == ur[0]
            else:
                yield "raises-only-what-an-operand-or-the-unique-dimension-check-raised", z3.BoolVal(out[1].parts[:1] in (("propagated",), ("from-unique-dimension",)))

        verify_function(ex, qual, setup_add, post_add)
        execs.append(ex)

    # ---------------- _collect_pow, _collect_abs
    ex = mk_exec(facts)

    def setup_k(kinds):
        def s(ex, ctx):
            ctx.assume(M.expr_wf(e), z3.Or([M.kind(e) == k for k in kinds]), *BASE_FACTS)
            return [e], {}, None
        return s

    b_, x_ = M.arg(e, 0), M.arg(e, 1)

    def post_pow(ex, ctx, out, info):
        local_bad = z3.And(z3.Not(cx_lit(RX(x_))), z3.Not(M.d_is_dimensionless(RD(x_))))
        if out[0] == "return":
            x, d = out[1]
            yield "returns=>exponent-dimensionless(or-literally-0/oo/NaN)", z3.Not(local_bad)
            num = z3.If(cx_isqty(RX(x_)), cx_num(cx_scale(RX(x_))), cx_num(RX(x_)))
            yield "dimension-is-the-base-dimension-scaled-by-the-exponent's-numeric-value", d == M.d_pow(RD(b_), num)
        elif out[1].parts[:1] == ("propagated",):
            yield "propagated-error-comes-from-exponent-or-base", z3.Or(RERR(x_) != 0, RERR(b_) != 0)
        else:
            yield "raises=>exponent-is-dimensional", local_bad
            yield "raises-ValueError", z3.BoolVal(out[1].cls == "ValueError")

    verify_function(ex, "_collect_pow", setup_k([M.K_POW]), post_pow)
    verify_function(ex, "_collect_abs", setup_k([M.K_ABS]),
                    lambda ex, ctx, out, info: iter([("keeps-the-operand's-dimension", out[1][1] == RD(b_)) if out[0] == "return" else ("propagates-operand-error", RERR(b_) != 0)]))
    execs.append(ex)

    # ---------------- _collect_function
    FERR = z3.Function("some_argument_raises_before", M.ExprS, z3.IntSort(), z3.BoolSort())

    def func_loop():
        return LoopSpec(init=lambda ex, ctx, seq: {}, inv=lambda ex, ctx, ghost, k, seq: z3.And(k >= 0, k <= M.nargs(e), z3.Not(FERR(e, k))),
                        step=lambda ex, ctx, ghost, elem, k, seq: ({}, [FERR(e, k + 1) == z3.Or(FERR(e, k), RERR(M.arg(e, k)) != 0), mono(FERR, (e,), k + 1, M.nargs(e))]),
                        modifies=("factors",))

    ex = mk_exec(facts, loop_specs={"_collect_function": {0: func_loop()}})
    ex.models["__abstract_list__"] = lambda ex_, ctx, name, pl: l_nil
    verify_function(ex, "_collect_function", lambda ex, ctx: (ctx.assume(M.expr_wf(e), M.kind(e) == M.K_FUNC, z3.Not(FERR(e, 0))), ([e], {}, None))[1],
                    lambda ex, ctx, out, info: iter([("dimension-is-the-function's-declared-dimension-or-dimensionless", out[1][1] == z3.If(fn_hasdim(e), fn_dim(e), M.DIMENSIONLESS)),
                                                     ("returns=>no-argument-raised", z3.Not(FERR(e, M.nargs(e))))] if out[0] == "return" else
                                                    [("raises=>some-argument's-inference-raised", FERR(e, M.nargs(e)))]))
    execs.append(ex)

    # ---------------- dispatcher with the real _cases table
    def collector_contract(name, kinds):
        def c(ex, ctx, args, kw):
            a = args[0]
            ex.oblige(f"{UNIT}/collect_expression_and_dimension/dispatch-precondition:{name}-gets-its-node-kind", ctx, z3.Or([M.kind(a) == k for k in kinds]))
            cc = ctx.fork()
            cc.ghost["dispatched"] = name
            return [(cc, (ex.fresh("x", CX), ex.fresh("d", M.Dim))), (ctx.fork(), ExcVal("UnitsError|ValueError", ("propagated",)))]
        return c

    coll = {"_collect_mul": [M.K_MUL], "_collect_pow": [M.K_POW], "_collect_add": [M.K_ADD], "_collect_abs": [M.K_ABS], "_collect_min_max": [M.K_MIN, M.K_MAX],
            "_collect_derivative": [M.K_DERIV], "_collect_function": [M.K_FUNC]}
    ex = mk_exec(facts, {n: collector_contract(n, ks) for n, ks in coll.items()}, extra_globals={n: ("__contract__", n) for n in coll})
    for cls in ("Mul", "Pow", "Add", "Abs", "Min", "Max", "Derivative", "SymFunction"):
        ex.globals[cls] = TypeRef(cls)
    ex.globals["Abs"] = TypeRef("Abs")
    cases_node = next(st.value for st in ex.tree.body if isinstance(st, (ast.Assign, ast.AnnAssign)) and
                      isinstance(getattr(st, "target", None) or st.targets[0], ast.Name) and (getattr(st, "target", None) or st.targets[0]).id == "_cases")
    (c0, cases), = ex.eval(cases_node, Ctx())
    ex.globals["_cases"] = cases

    def setup_disp(ex, ctx):
        compound = [M.K_MUL, M.K_POW, M.K_ADD, M.K_ABS, M.K_MIN, M.K_MAX, M.K_DERIV, M.K_FUNC, M.K_NUM, M.K_SYM, M.K_OTHER]
        # every object that declares a dimension: quantities, symplyphysics symbols, Symbolic wrappers (Average, FiniteDifference, ...)
        ctx.assume(M.expr_wf_upto(e, M.K_SYMBOLIC), hasdim(e) == z3.Or(M.kind(e) == M.K_QTY, M.kind(e) == M.K_DIMSYM, M.kind(e) == M.K_SYMBOLIC), M.d_wf(M.leaf_dim(e)))
        return [e], {}, None

    def post_disp(ex, ctx, out, info):
        k = M.kind(e)
        leafdim = z3.Or(k == M.K_QTY, k == M.K_DIMSYM, k == M.K_SYMBOLIC)
        plain = z3.Or(k == M.K_NUM, k == M.K_SYM, k == M.K_OTHER, k == M.K_PREFIX)
        if out[0] == "return":
            x, d = out[1]
            disp = ctx.ghost.get("dispatched")
            yield "declared-leaf=>its-declared-dimension", z3.Implies(leafdim, d == M.leaf_dim(e))
            yield "number-or-plain-symbol=>dimensionless", z3.Implies(plain, d == M.DIMENSIONLESS)
            yield "compound-node=>handled-by-its-own-collector", z3.BoolVal(True) if disp is None else z3.Not(z3.Or(leafdim, plain))
            if disp is None:
                yield "no-collector=>leaf", z3.Or(leafdim, plain)
        else:
            yield "leaves-never-raise", z3.Not(z3.Or(leafdim, plain))

    verify_function(ex, "collect_expression_and_dimension", setup_disp, post_disp)
    execs.append(ex)
    ndispatch = len(cases)

    from ..contracts import refimpl
    conc = refimpl.concretizer("collect_expression", seed(), 4000)
    for ex in execs:
        ex.obligations = [(n, h, g_, s_, c_ or conc) for n, h, g_, s_, c_ in ex.obligations]
        obs.extend(discharge(ex, UNIT))
    return execs, obs, ndispatch


def run(report):
    from ..contracts import refimpl as _refimpl
    try:
        execs, obs, ndispatch = obligations()
    except Exception as e:  # left the modelled subset: fault + executable-contract search
        _refimpl.generation_fallback(report, "collect_expression", UNIT, f"{type(e).__name__}: {e}", seed(), 4000)
        return
    _run(report, execs, obs, ndispatch)


def _run(report, execs, obs, ndispatch):
    report.extend(obs)
    src = PKG / "core/dimensions/collect_expression.py"
    for f in ("_split_numeric_and_symbolic", "_collect_mul", "_collect_pow", "_collect_unique_dimension", "_collect_add", "_collect_abs", "_collect_min_max",
              "_collect_function", "collect_expression_and_dimension"):
        report.function(f"symplyphysics.core.dimensions.collect_expression.{f}", src)
    report.function("symplyphysics.core.dimensions.collect_expression._collect_derivative", src, note="bounded only (executable contract)")
    from ..contracts import refimpl
    budget = 20000 if report.tier == "thorough" else 3000
    listed = {}
    t, why, n = refimpl.search_collect_expression(seed(), budget, 2, known=listed)
    fails = [] if t is None else [{"name": f"{UNIT}/audit/collect_expression/first-disagreement", "detail": f"{t}: {why}", "signature": str(t),
                                   "replay": {"reproduced": True, "script": f"from vf.contracts.refimpl import replay_tree\nreplay_tree('collect_expression', {seed()}, {n})\n"}}]
    # disagreements with a recognised root cause are reported under that cause (one entry each; known_findings.json may list it) and the search goes on
    for cause, (kt, kwhy, kn) in listed.items():
        fails.append({"name": f"{UNIT}/audit/collect_expression/disagreement-with-cause:{cause}", "detail": f"{kt}: {kwhy}", "signature": cause,
                      "replay": {"reproduced": True, "script": f"from vf.contracts.refimpl import replay_tree\nreplay_tree('collect_expression', {seed()}, {kn})\n"}})
    report.add_bounded("executable C06 contract (dimension by combining declared leaf dimensions, error classes, VALUE-EQUAL returned expression at a random valuation) "
                       "vs the real collect_expression_and_dimension on enumerated real trees", f"all trees of depth <= 2 over 25 leaves, first {budget} in a seeded order", n, not fails, fails)
    diagram_bounded(report)
    report.extra["dispatch_table_entries"] = ndispatch
    report.add_out_of_reach("value-equality of the returned expression and the quantity-substitution diagram as for-all proofs",
                            "expression values are abstracted in the sidecar model (only literal-zero/quantity flags and dimensions are tracked); bounded executable contract instead")
    from . import c04 as _c04
    _c04.shared_callee_obligations(report, UNIT)
    from ..contracts import audit
    audit.run(report)
    report.trust("CPython 3.12 (subset of DESIGN 3.A)", "z3 5.1 / cvc5 1.4", "SymPy constructors, isinstance facts from the real classes", "sympy.physics.units dimension system")
    report.assume(*[f"{k}: {v}" for k, v in FE.ASSUMED.items()])
    report.assume("A-PROD: a product of numbers / scale factors is literally 0, +-oo or NaN exactly when one factor is",
                  "L1: a spec fold of disjunctions is monotone, instantiated at the loop index",
                  "collect is deterministic: the result of a recursive call on a sub-expression is a fixed (unspecified) value",
                  "list semantics: an operand list built by appends holds what was appended, in order (the producers' postcondition is stated on append chains, "
                  "the consumers are proved for arbitrary lists)",
                  "the multiplication of real dimensions is commutative and associative (the specification groups numbers, quantities and symbolic operands)")


def diagram_bounded(report):
    """last sentence of the statement: whenever inference succeeds, replacing the symbols by non-zero quantities of their declared
    dimensions yields a quantity of the inferred dimension (bounded: enumerated trees, 2 substitutions each)"""
    import random
    import sympy as sp
    from sympy.physics import units as U
    from symplyphysics import Quantity, Symbol
    from symplyphysics.core.dimensions import collect_expression_and_dimension, dimension_to_si_unit
    from ..contracts import refimpl as R
    rng = random.Random(seed() + 11)
    x, t, m, k = Symbol("x", U.length), Symbol("t", U.time), Symbol("m", U.mass), Symbol("k")
    leaves = [x, t, m, k, sp.Integer(2), sp.Rational(1, 2), Quantity(3 * U.meter), Quantity(2 * U.second)]
    count, fails = 0, []
    trees = list(R.trees(leaves, 2, rng, 1500 if report.tier == "thorough" else 400))

    def one(tr):
        """None = not applicable / agrees; str = disagreement"""
        _, d = collect_expression_and_dimension(tr)
        sub = {s_: Quantity(sp.Rational(rng.randint(1, 9), rng.randint(1, 4)) * dimension_to_si_unit(s_.dimension)) for s_ in tr.free_symbols if hasattr(s_, "dimension")}
        q = Quantity(tr.subs(sub))
        if R.is_any_value(q.scale_factor):
            return None
        dv = {kk: sp.sympify(vv).subs({s_: v_.scale_factor for s_, v_ in sub.items()}) for kk, vv in R.dim_vec(d).items()}
        if not R.dims_equiv(R.dim_vec(q.dimension), dv):
            return f"{tr}: inferred {R.dim_vec(d)}, quantity {R.dim_vec(q.dimension)}"
        return ""

    for tr in trees:
        if not isinstance(tr, sp.Expr) or tr.has(sp.Min, sp.Max, sp.sin, sp.exp):
            continue
        for _ in range(2):
            try:
                r = one(tr)
            except Exception:
                break  # inference or construction refuses this tree / substitution: the clause does not apply
            if r is None:
                continue
            count += 1
            if r:
                fails.append({"name": f"{UNIT}/bounded/diagram", "detail": r, "signature": str(tr), "replay": {"reproduced": True, "script": None}})
                break
    report.add_bounded("commuting diagram: inferred dimension == dimension of the quantity obtained by substituting non-zero quantities of the declared dimensions",
                       f"{len(trees)} enumerated trees x 2 seeded substitutions", count, not fails, fails[:5])
