"""C04 -- the dimension gate admits exactly dimensionally equivalent arguments and results.

pyvc (from the real AST): is_any_dimension, is_number, assert_equivalent_dimension (all four operand forms),
_assert_expected_unit, the three wrapper_validate closures, CoordinateSystem.is_angle_component,
QuantityVector.__init__.  The collector is used through its contract (C05).
Catalogue: every decoration site of the tree must satisfy the decorators' preconditions (guard keywords name
parameters); thorough tier additionally calls every decorated function with a wrong-dimension argument (bounded).
"""
from __future__ import annotations

import ast
import itertools
import os

import z3

from ..core import seed, PKG, REPO, Ob, PROVED, REFUTED, FAULT, try_replay
from ..pyvc import (Exec, Ctx, Obj, Opt, NONE, NoneVal, ExcVal, Builtin, TypeRef, Seq, Closure, GenError, LoopSpec, verify_function, discharge)
from ..contracts import frontend as FE
from ..contracts import model as M
from . import c05 as C

LEVEL = "proof"
UNIT = "C04"


# ------------------------------------------------------------------------------------------ gate specification
def erased(d):
    return M.d_erase_angle(d)


def gate_spec(arg_is_dim, a, exp_is_dim, x):
    """(returns, typeerror, unitserror, valueerror) as z3 Bools for assert_equivalent_dimension(a, .., x).
    a / x are Dim terms (when given as Dimension objects) or Expr terms (anything else)."""
    T, F = z3.BoolVal(True), z3.BoolVal(False)
    if exp_is_dim:
        x_refused, x_wild, xd = F, F, x
    else:
        x_refused = C.SR(x)
        x_wild = z3.Or(M.v_is_any(C.SV(x)), M.d_anycls(C.SD(x)))
        xd = C.SD(x)
    if arg_is_dim:
        a_refused, a_wild, ad = F, F, a
    else:
        a_refused = C.SR(a)
        a_wild = z3.Or(M.v_is_any(C.SV(a)), M.d_anycls(C.SD(a)))
        ad = C.SD(a)
    eq = M.d_equiv(erased(ad), erased(xd))
    number_like = z3.And(M.d_is_dimensionless(erased(ad)), z3.Not(M.d_is_dimensionless(erased(xd))))
    valueerror = z3.Or(x_refused, z3.And(z3.Not(x_wild), a_refused))
    live = z3.And(z3.Not(x_refused), z3.Not(x_wild), z3.Not(a_refused), z3.Not(a_wild))
    returns = z3.And(z3.Not(valueerror), z3.Or(x_wild, a_wild, eq))
    typeerror = z3.And(live, z3.Not(eq), number_like)
    unitserror = z3.And(live, z3.Not(eq), z3.Not(number_like))
    return returns, typeerror, unitserror, valueerror


# ------------------------------------------------------------------------------------------ models
def S_attr(ex, ctx, base, attr):
    if isinstance(base, TypeRef) and base.name == "S":
        vals = {"Zero": M.v_fin(0), "One": M.v_fin(1), "Infinity": M.v_mk(M.PINF), "NegativeInfinity": M.v_mk(M.NINF), "NaN": M.v_mk(M.NAN)}
        if attr in vals:
            return [(ctx, vals[attr])]
    if isinstance(base, TypeRef) and base.name == "dimsys_SI":
        return C.attr_model(ex, ctx, base, attr)
    if z3.is_expr(base) and base.sort() == M.Dim and attr == "name":
        return [(ctx, ("__dimname__", base))]
    if z3.is_expr(base) and base.sort() == M.Val:
        tri = FE.val_assumption(base, attr)
        if tri is not None:
            return [(ctx, tri)]
    return None


def getattr_default(ex, ctx, base, name, default):
    if z3.is_expr(base) and base.sort() == M.Val:
        tri = FE.val_assumption(base, name)
        if tri is not None:
            return [(ctx, tri)]
    return None


def complex_model(ex, ctx, args, kw):
    FE.assumed("complex(x)", "complex(x) succeeds for every numeric SymPy value (incl. +-oo, NaN) and raises TypeError when free symbols remain (KNOWN EXCEPTION, SymPy 1.14: complex((-1)**(x + oo)) returns nan+nan*I for a symbolic x -- finding D30; the executable C06 contract covers it, the VCs do not)")
    v = C.as_val(args[0])
    res = []
    if ex.feasible(ctx, M.v_is_number(v)):
        res.append((ctx.fork(M.v_is_number(v)), ("__complex__", v)))
    if ex.feasible(ctx, z3.Not(M.v_is_number(v))):
        res.append((ctx.fork(z3.Not(M.v_is_number(v))), ExcVal("TypeError")))
    return res


def dim_method(ex, ctx, base, attr, args, kw):
    if z3.is_expr(base) and base.sort() == M.Dim and attr == "subs":
        if args and args[0] == "angle":
            FE.assumed("Dimension.subs('angle', 1)", "erases the angle exponent of a dimension and nothing else")
            return [(ctx, M.d_erase_angle(base))]
        raise GenError(f"Dimension.subs({args!r})")
    return None


def isinstance_model(ex, ctx, v, clsname):
    if clsname == "Dimension":
        return z3.is_expr(v) and v.sort() == M.Dim
    if clsname == "AnyDimension":
        if z3.is_expr(v) and v.sort() == M.Dim:
            return M.d_anycls(v)
        return False
    if clsname == "Sequence":
        return isinstance(v, (list, tuple))
    if isinstance(v, Obj):
        sub = {"Quantity": {"Quantity", "SymQuantity", "DimensionSymbol"}, "Symbol": {"Symbol", "DimensionSymbol"},
               "Symbolic": {"Symbolic"}, "QuantityVector": {"QuantityVector", "DimensionSymbol"}}
        return clsname in sub.get(v.cls, {v.cls})
    if z3.is_expr(v) and v.sort() == M.ExprS:
        if clsname in ("SymQuantity", "Quantity"):
            return M.kind(v) == M.K_QTY
        if clsname in ("DimensionSymbol",):
            return z3.Or(M.kind(v) == M.K_QTY, M.kind(v) == M.K_DIMSYM)
        if clsname == "Symbolic":
            return False
    if z3.is_expr(v) and v.sort() == M.Dim:
        return False
    raise GenError(f"isinstance({v!r}, {clsname})")


def gate_exec():
    g = {"S": TypeRef("S"), "dimsys_SI": TypeRef("dimsys_SI"), "complex": Builtin("complex", complex_model),
         "collect_quantity_factor_and_dimension": ("__contract__", "collect"),
         "Dimension": TypeRef("Dimension"), "AnyDimension": TypeRef("AnyDimension")}
    return g


def collect_contract_for_gate(ex, ctx, args, kw):
    """contract of the collector (C05) + the class flag of the returned dimension (see model.d_wf)"""
    res = []
    for c, v in C.collect_contract(ex, ctx, args, kw):
        if isinstance(v, tuple):
            f, d = v
            c.assume(M.d_wf(d), M.d_wf(C.SD(args[0])), z3.Implies(z3.Not(M.v_is_any(f)), M.d_anycls(d) == M.d_anycls(C.SD(args[0]))))
        res.append((c, v))
    return res


def obligations_core():
    obs, execs = [], []
    # ---------------- is_any_dimension, is_number (core/dimensions/miscellaneous.py)
    v = z3.Const("factor", M.Val)
    ex = FE.make_exec("core/dimensions/miscellaneous.py", UNIT, globals_extra={"S": TypeRef("S"), "complex": Builtin("complex", complex_model)},
                      models={"__getattr_default__": getattr_default}, attr_model=S_attr)

    def setup(ex, ctx):
        ctx.assume(M.v_wf(v))
        return [v], {}, None

    def post_any(ex, ctx, out, info):
        if out[0] != "return":
            yield "never-raises", z3.BoolVal(False)
        else:
            yield "result<=>zero-or-infinite-or-nan", ex.zbool(ex.truth(out[1])) == M.v_is_any(v)

    verify_function(ex, "is_any_dimension", setup, post_any)

    def post_num(ex, ctx, out, info):
        if out[0] != "return":
            yield "never-raises", z3.BoolVal(False)
        else:
            yield "result<=>complex()-succeeds", ex.zbool(ex.truth(out[1])) == M.v_is_number(v)

    verify_function(ex, "is_number", setup, post_num)
    execs.append(ex)

    # ---------------- assert_equivalent_dimension: four operand forms
    for arg_is_dim in (False, True):
        for exp_is_dim in (False, True):
            g = gate_exec()
            g["is_any_dimension"] = Builtin("is_any_dimension[contract]", lambda ex, c, a, k: [(c, M.v_is_any(C.as_val(a[0])))])
            g["is_number"] = Builtin("is_number[contract]", lambda ex, c, a, k: [(c, M.v_is_number(C.as_val(a[0])))])
            ex = FE.make_exec("core/dimensions/dimensions.py", UNIT, globals_extra=g, contracts={"collect": collect_contract_for_gate},
                              models={"__method__": dim_method}, isinstance_model=isinstance_model, attr_model=S_attr)
            a = z3.Const("arg_dimension", M.Dim) if arg_is_dim else z3.Const("arg", M.ExprS)
            x = z3.Const("expected_dimension", M.Dim) if exp_is_dim else z3.Const("expected_unit", M.ExprS)
            pname, fname = z3.String("param_name"), z3.String("func_name")

            def setup(ex, ctx, a=a, x=x, arg_is_dim=arg_is_dim, exp_is_dim=exp_is_dim):
                ctx.assume(M.d_wf(a) if arg_is_dim else z3.And(*C.spec_axioms(a)), M.d_wf(x) if exp_is_dim else z3.And(*C.spec_axioms(x)))
                if not arg_is_dim:
                    ctx.assume(M.d_wf(C.SD(a)))
                if not exp_is_dim:
                    ctx.assume(M.d_wf(C.SD(x)))
                return [a, pname, fname, x], {}, None

            def post(ex, ctx, out, info, a=a, x=x, arg_is_dim=arg_is_dim, exp_is_dim=exp_is_dim):
                ret, te, ue, ve = gate_spec(arg_is_dim, a, exp_is_dim, x)
                if out[0] == "return":
                    yield "returns=>equivalent-or-zero/inf/nan-or-wildcard", ret
                else:
                    cls = out[1].cls
                    yield f"raises-{cls}=>specified", {"TypeError": te, "UnitsError": ue, "ValueError": ve}.get(cls, z3.BoolVal(False))
                    if cls in ("TypeError", "UnitsError"):
                        named = any(p is pname or (z3.is_expr(p) and z3.eq(p, pname)) for p in (out[1].parts[0][2] if out[1].parts and isinstance(out[1].parts[0], tuple) and out[1].parts[0][0] == "__fstr__" else ()))
                        yield "error-message-names-the-parameter", z3.BoolVal(bool(named))

            verify_function(ex, "assert_equivalent_dimension", setup, post)
            tag = f"assert_equivalent_dimension[arg={'Dimension' if arg_is_dim else 'value'},expected={'Dimension' if exp_is_dim else 'value'}]"
            ex.obligations = [(n.replace("/assert_equivalent_dimension/", f"/{tag}/"), h, g_, s_, c_) for n, h, g_, s_, c_ in ex.obligations]
            execs.append(ex)

    # corollaries (lemmas over the gate contract): the verdict is a function of (value class, dimension vector) only;
    # exactly one of returns / TypeError / UnitsError / ValueError
    a, x = z3.Const("arg", M.ExprS), z3.Const("expected_dimension", M.Dim)
    ret, te, ue, ve = gate_spec(False, a, True, x)
    from .. import smt
    ob, _ = smt.prove(f"{UNIT}/lemma/gate-outcomes-are-exhaustive-and-exclusive", C.spec_axioms(a) + [M.d_wf(x)],
                      z3.And(z3.Or(ret, te, ue, ve), z3.Not(z3.And(ret, te)), z3.Not(z3.And(ret, ue)), z3.Not(z3.And(te, ue)), z3.Not(z3.And(ret, ve))))
    obs.append(ob)
    # bare non-zero number vs dimensional quantity -> TypeError ; quantity of another dimension -> UnitsError
    ob, _ = smt.prove(f"{UNIT}/lemma/bare-nonzero-number-where-dimensional-expected=>TypeError",
                      C.spec_axioms(a) + [M.d_wf(x), M.kind(a) == M.K_NUM, z3.Not(M.v_is_any(M.leaf_val(a))), z3.Not(M.d_is_dimensionless(erased(x)))], te)
    obs.append(ob)
    ob, _ = smt.prove(f"{UNIT}/lemma/quantity-of-another-dimension=>UnitsError",
                      C.spec_axioms(a) + [M.d_wf(x), M.d_wf(M.leaf_dim(a)), M.kind(a) == M.K_QTY, z3.Not(M.v_is_any(M.leaf_val(a))), z3.Not(M.d_anycls(M.leaf_dim(a))),
                                          z3.Not(M.d_is_dimensionless(erased(M.leaf_dim(a)))), z3.Not(M.d_equiv(erased(M.leaf_dim(a)), erased(x)))], ue)
    obs.append(ob)
    # magnitude / prefix independence: two quantities with the same dimension and non-any scale factors get the same verdict
    b = z3.Const("arg2", M.ExprS)
    ret2, te2, ue2, ve2 = gate_spec(False, b, True, x)
    ob, _ = smt.prove(f"{UNIT}/lemma/verdict-independent-of-magnitude-and-prefix",
                      C.spec_axioms(a) + C.spec_axioms(b) + [M.d_wf(x), M.kind(a) == M.K_QTY, M.kind(b) == M.K_QTY, M.leaf_dim(a) == M.leaf_dim(b),
                                                             z3.Not(M.v_is_any(M.leaf_val(a))), z3.Not(M.v_is_any(M.leaf_val(b)))],
                      z3.And(ret == ret2, te == te2, ue == ue2))
    obs.append(ob)

    # ---------------- CoordinateSystem.is_angle_component
    ex = FE.make_exec("core/coordinate_systems/coordinate_systems.py", UNIT,
                      globals_extra={"CoordinateSystem": TypeRef("CoordinateSystem")},
                      attr_model=lambda ex, ctx, base, attr: ([(ctx, TypeRef("CoordinateSystem.System"))] if isinstance(base, TypeRef) and base.name == "CoordinateSystem" and attr == "System"
                                                              else ([(ctx, {"CARTESIAN": 0, "CYLINDRICAL": 1, "SPHERICAL": 2}[attr])] if isinstance(base, TypeRef) and base.name == "CoordinateSystem.System" else None)))
    kind_, idx = z3.Int("coord_system_type"), z3.Int("component_idx")

    def setup(ex, ctx):
        ctx.assume(kind_ >= 0, kind_ <= 2, idx >= 0)
        return [kind_, idx], {}, None

    def post(ex, ctx, out, info):
        want = z3.Or(z3.And(kind_ == 1, idx == 1), z3.And(kind_ == 2, z3.Or(idx == 1, idx == 2)))
        yield "angle-slots:cylindrical-theta;spherical-theta-and-phi", (ex.zbool(ex.truth(out[1])) == want) if out[0] == "return" else z3.BoolVal(False)

    verify_function(ex, "CoordinateSystem.is_angle_component", setup, post)
    execs.append(ex)
    return obs, execs


# ------------------------------------------------------------------------------------------ decorator layer
def gate_recording_contract(ex, ctx, args, kw):
    """assert_equivalent_dimension as a callee: records the call, returns or raises per the gate contract.
    Arguments here are abstract `GItem`s: ('item', i) with verdict booleans pass_i(j) = item i passes against unit j."""
    item, pname, fname, unit = args
    calls = list(ctx.ghost.get("gate_calls", []))
    calls.append((item, pname, fname, unit))
    ok = PASS(item_id(item), unit_id(unit))
    res = []
    if ex.feasible(ctx, ok):
        c = ctx.fork(ok)
        c.ghost["gate_calls"] = calls
        res.append((c, NONE))
    if ex.feasible(ctx, z3.Not(ok)):
        c = ctx.fork(z3.Not(ok))
        c.ghost["gate_calls"] = calls
        res.append((c, ExcVal("UnitsError|TypeError", (pname, item, unit))))
    return res


PASS = z3.Function("gate_passes", z3.IntSort(), z3.IntSort(), z3.BoolSort())


def item_id(v):
    if isinstance(v, Obj):
        return v.fields["__id__"]
    raise GenError(f"gate called with {v!r}")


def unit_id(v):
    if isinstance(v, Obj):
        return v.fields["__id__"]
    raise GenError(f"gate called with unit {v!r}")


def mk_item(kind_, i):
    """value item kinds: SymQuantity, DimensionSymbol, Symbolic, other.  What reaches the gate is the item itself or its .dimension"""
    ident = z3.IntVal(i)
    proj = Obj("GateOperand", {"__id__": ident})
    if kind_ == "quantity":
        return Obj("Quantity", {"__id__": ident, "dimension": Obj("GateOperand", {"__id__": z3.IntVal(100 + i)})}), ident
    if kind_ in ("dimsymbol", "symbolic"):
        return Obj("Symbol" if kind_ == "dimsymbol" else "Symbolic", {"__id__": z3.IntVal(200 + i), "dimension": proj}), ident
    return Obj("Other", {"__id__": ident}), ident


def mk_unit(kind_, j):
    ident = z3.IntVal(1000 + j)
    if kind_ == "dimension":
        return Obj("Dimension", {"__id__": ident}), ident
    if kind_ == "quantity":
        # an expected unit given as a QUANTITY (validate_output_same hands over the argument's value): what must reach the gate is
        # its DIMENSION -- as a quantity, a zero / infinite reference would make the gate accept everything
        return Obj("Quantity", {"__id__": z3.IntVal(3000 + j), "dimension": Obj("Dimension", {"__id__": ident})}), ident
    return Obj("Symbol" if kind_ == "dimsymbol" else "Symbolic", {"__id__": z3.IntVal(2000 + j), "dimension": Obj("Dimension", {"__id__": ident})}), ident


def deco_isinstance(ex, ctx, v, clsname):
    if clsname == "Sequence":
        return isinstance(v, (list, tuple))
    if isinstance(v, Obj):
        sub = {"Quantity": {"SymQuantity", "Quantity", "DimensionSymbol"}, "Symbol": {"DimensionSymbol", "Symbol"}, "Symbolic": {"Symbolic"},
               "Other": set(), "Dimension": {"Dimension"}, "GateOperand": set()}
        return clsname in sub[v.cls]
    if isinstance(v, (list, tuple)):
        return False
    raise GenError(f"isinstance({v!r}, {clsname})")


def obligations_decorators():
    obs, execs = [], []
    item_kinds = ("quantity", "dimsymbol", "symbolic", "other")
    unit_kinds = ("dimension", "dimsymbol", "symbolic", "quantity")
    pname, fname = z3.String("param_name"), z3.String("function_name")
    nshape = 0
    # ---- _assert_expected_unit : scalar value, and sequences of length 0..2 (3 in the thorough tier), x scalar / tuple units
    maxlen = 3 if os.environ.get("VERIF_TIER") == "thorough" else 2
    shapes = [("scalar", (k,), "scalar", (u,)) for k in item_kinds for u in unit_kinds]
    for n in range(0, maxlen + 1):
        for ks in itertools.product(item_kinds, repeat=n):
            shapes.append(("seq", ks, "scalar", ("dimension",)))
            shapes.append(("seq", ks, "scalar", ("dimsymbol",)))
            if n >= 1:
                shapes.append(("seq", ks, "tuple", tuple(unit_kinds[(i + n) % 4] for i in range(n))))
    for vshape, ks, ushape, us in shapes:
        nshape += 1
        g = {"assert_equivalent_dimension": ("__contract__", "gate"), "SymQuantity": TypeRef("SymQuantity"), "DimensionSymbol": TypeRef("DimensionSymbol"),
             "Symbolic": TypeRef("Symbolic"), "Sequence": TypeRef("Sequence")}
        ex = FE.make_exec("core/quantity_decorator.py", UNIT, globals_extra=g, contracts={"gate": gate_recording_contract}, isinstance_model=deco_isinstance)
        items = [mk_item(k, i) for i, k in enumerate(ks)]
        units = [mk_unit(u, j) for j, u in enumerate(us)]
        value = items[0][0] if vshape == "scalar" else [it for it, _ in items]
        expected = units[0][0] if ushape == "scalar" else tuple(u for u, _ in units)

        def setup(ex, ctx, value=value, expected=expected):
            return [value, expected, pname, fname], {}, None

        def post(ex, ctx, out, info, items=items, units=units, vshape=vshape, ushape=ushape):
            calls = ctx.ghost.get("gate_calls", [])
            n = len(items)
            # what must reach the gate for item i: the item itself (quantity / other) or its dimension (symbols, wrappers)
            def operand(i):
                it, ident = items[i]
                return ident
            unit_for = lambda i: units[i][1] if ushape == "tuple" else units[0][1]
            allpass = z3.And([PASS(operand(i), unit_for(i)) for i in range(n)]) if n else z3.BoolVal(True)
            if out[0] == "return":
                yield "returns=>every-element-passes-against-its-own-unit", allpass
                yield "every-element-is-checked-once-in-order", z3.BoolVal(len(calls) == n and all(
                    z3.eq(item_id(c[0]), operand(i)) and z3.eq(unit_id(c[3]), unit_for(i)) for i, c in enumerate(calls)))
            else:
                k = len(calls) - 1
                ok_shape = 0 <= k < n and z3.eq(item_id(calls[k][0]), operand(k)) and z3.eq(unit_id(calls[k][3]), unit_for(k))
                yield "raises=>the-failing-element-was-checked-against-its-own-unit", z3.BoolVal(bool(ok_shape))
                if ok_shape:
                    yield "raises=>that-element-does-not-pass", z3.Not(PASS(operand(k), unit_for(k)))
                    nm = calls[k][1]
                    if vshape == "seq":
                        good = isinstance(nm, tuple) and nm[0] == "__fstr__" and any(p is pname for p in nm[2]) and any(isinstance(p, int) and p == k for p in nm[2])
                    else:
                        good = nm is pname
                    yield "error-names-the-parameter(and-index)", z3.BoolVal(bool(good))
                    yield "error-names-the-function", z3.BoolVal(calls[k][2] is fname)

        verify_function(ex, "_assert_expected_unit", setup, post)
        tag = f"_assert_expected_unit[value={vshape}:{','.join(ks)};units={ushape}:{','.join(us)}]"
        ex.obligations = [(nm.replace("/_assert_expected_unit/", f"/{tag}/"), h, g_, s_, c_) for nm, h, g_, s_, c_ in ex.obligations]
        execs.append(ex)

    # ---- the three wrappers, on representative signatures (positional / keyword / mixed call styles)
    def aeu_contract(ex, ctx, args, kw):
        value, unit, name, fn = args
        calls = list(ctx.ghost.get("aeu_calls", []))
        calls.append((value, unit, name, fn))
        ok = PASS(item_id(value), unit_id(unit))
        res = []
        for cond, val in ((ok, NONE), (z3.Not(ok), ExcVal("UnitsError|TypeError", (name,)))):
            if ex.feasible(ctx, cond):
                c = ctx.fork(cond)
                c.ghost["aeu_calls"] = calls
                res.append((c, val))
        return res

    RET = Obj("Other", {"__id__": z3.IntVal(77)})

    def func_contract(ex, ctx, args, kw):
        c = ctx.fork()
        c.ghost["func_called_with"] = (tuple(args), dict(kw))
        return [(c, RET)]

    def signature_model(ex, ctx, args, kw):
        FE.assumed("inspect.signature/bind", "signature(f).parameters lists f's parameters in order; bind(*a, **k).arguments maps each explicitly "
                   "passed parameter to its value (positional or keyword), .args is the prefix of positionally-passable bound parameters, "
                   ".kwargs the rest; omitted defaulted parameters are absent")
        return [(ctx, Obj("Signature", {"parameters": Obj("Params", {})}))]

    # signature shapes: (name, kind, has_default); kind: "pk" positional-or-keyword, "ko" keyword-only
    SIGS = {
        "three-required": (("alpha", "pk", False), ("beta", "pk", False), ("gamma", "pk", False)),
        "defaults": (("alpha", "pk", False), ("beta", "pk", True), ("gamma", "pk", True)),
        "keyword-only": (("alpha", "pk", False), ("gamma", "ko", False)),
    }
    cur_sig = {}

    def wrapper_method(ex, ctx, base, attr, args, kw):
        sig = cur_sig["sig"]
        if isinstance(base, Obj) and base.cls == "Signature" and attr == "bind":
            bound = {}
            pos = list(args)
            for name, kind_, _ in sig:
                if kind_ == "pk" and pos:
                    bound[name] = pos.pop(0)
                elif name in kw:
                    bound[name] = kw[name]
            a_ = []
            for name, kind_, _ in sig:
                if kind_ == "ko" or name not in bound:
                    break
                a_.append(bound[name])
            k_ = {n: v for n, v in bound.items() if not any(v is x for x in a_)}
            return [(ctx, Obj("Bound", {"arguments": bound, "args": tuple(a_), "kwargs": k_}))]
        if isinstance(base, Obj) and base.cls == "Params" and attr == "values":
            return [(ctx, [Obj("Param", {"name": n}) for n, _, _ in sig])]
        if isinstance(base, Obj) and base.cls == "Params" and attr in ("keys", "items"):
            ps = [Obj("Param", {"name": n}) for n, _, _ in sig]
            return [(ctx, [n for n, _, _ in sig] if attr == "keys" else [(p.fields["name"], p) for p in ps])]
        return None

    allnames = ("alpha", "beta", "gamma")
    vals = {p: Obj("Other", {"__id__": z3.IntVal(10 + i)}) for i, p in enumerate(allnames)}
    CALLS = {
        "three-required": {"positional": ([vals[p] for p in allnames], {}), "keyword": ([], dict(vals)),
                           "mixed": ([vals["alpha"]], {"gamma": vals["gamma"], "beta": vals["beta"]})},
        "defaults": {"skip-defaulted-middle": ([vals["alpha"]], {"gamma": vals["gamma"]}), "all-positional": ([vals[p] for p in allnames], {}),
                     "only-required": ([vals["alpha"]], {})},
        "keyword-only": {"keyword-only-passed": ([vals["alpha"]], {"gamma": vals["gamma"]})},
    }
    guards_sets = [{"alpha": 0, "gamma": 1}, {"beta": 0}, {}, {"alpha": 0, "beta": 1, "gamma": 2}, {"gamma": 0}]
    styles = CALLS["three-required"]
    attr_hook = lambda ex, ctx, base, attr: ([(ctx, Builtin("inspect.signature", signature_model))] if isinstance(base, TypeRef) and base.name == "inspect" and attr == "signature"
                                             else ([(ctx, z3.String("func.__name__"))] if attr == "__name__" else None))
    for signame, sig in SIGS.items():
        signames = [n for n, _, _ in sig]
        for style, (a_, k_) in CALLS[signame].items():
            passed = set(signames[:len(a_)]) | set(k_)
            for gi, guards in enumerate(guards_sets):
                if not set(guards) <= set(signames):
                    continue
                nshape += 1
                units = {p: Obj("Dimension", {"__id__": z3.IntVal(1000 + j)}) for p, j in guards.items()}
                g = {"_assert_expected_unit": ("__contract__", "aeu"), "inspect": TypeRef("inspect"), "functools": TypeRef("functools")}
                ex = FE.make_exec("core/quantity_decorator.py", UNIT, globals_extra=g, contracts={"aeu": aeu_contract, "func": func_contract},
                                  models={"__method__": wrapper_method}, attr_model=attr_hook)
                env = {"decorator_kwargs": dict(units), "func": ("__contract__", "func")}
                cur_sig["sig"] = sig

                def setup(ex, ctx, a_=a_, k_=k_, sig=sig):
                    cur_sig["sig"] = sig
                    return list(a_), dict(k_), None

                def post(ex, ctx, out, info, guards=guards, units=units, signames=signames, passed=passed):
                    calls = ctx.ghost.get("aeu_calls", [])
                    guarded = [p for p in signames if p in guards and p in passed]
                    omitted = [p for p in signames if p in guards and p not in passed]
                    allpass = z3.And([PASS(item_id(vals[p]), unit_id(units[p])) for p in guarded]) if guarded else z3.BoolVal(True)
                    called = "func_called_with" in ctx.ghost
                    if out[0] == "return":
                        yield "function-runs=>every-guarded-argument-passes", allpass
                        yield "function-is-invoked-and-its-result-returned", z3.BoolVal(called and isinstance(out[1], Obj) and out[1].cls == "Other" and z3.eq(item_id(out[1]), item_id(RET)))
                        yield "every-guarded-passed-parameter-is-checked-with-its-own-unit-and-name", z3.BoolVal(
                            len(calls) == len(guarded) and all(isinstance(c[0], Obj) and z3.eq(item_id(c[0]), item_id(vals[p])) and z3.eq(unit_id(c[1]), unit_id(units[p])) and c[2] == p
                                                               for c, p in zip(calls, guarded)))
                    else:
                        yield "refused=>function-not-invoked", z3.BoolVal(not called)
                        if out[1].cls == "KeyError":
                            yield "KeyError-only-for-an-omitted-guarded-parameter", z3.BoolVal(bool(omitted))
                        else:
                            k = len(calls) - 1
                            p = guarded[k] if 0 <= k < len(guarded) and isinstance(calls[k][0], Obj) and z3.eq(item_id(calls[k][0]), item_id(vals[guarded[k]])) else None
                            yield "refused=>a-guarded-argument-fails", z3.Not(PASS(item_id(vals[p]), unit_id(units[p]))) if p else z3.BoolVal(False)
                            yield "error-names-that-parameter", z3.BoolVal(p is not None and calls[k][2] == p)

                verify_function(ex, "validate_input.validate_func.wrapper_validate", setup, post, closure_env=env)
                tag = f"validate_input.wrapper_validate[{signame};{style};guards={'+'.join(sorted(guards)) or 'none'}]"
                ex.obligations = [(nm.replace("/validate_input.validate_func.wrapper_validate/", f"/{tag}/"), h, g_, s_, c_) for nm, h, g_, s_, c_ in ex.obligations]
                execs.append(ex)
    cur_sig["sig"] = SIGS["three-required"]

    # validate_output / validate_output_same
    for which in ("validate_output", "validate_output_same"):
        for style, (a_, k_) in styles.items():
            nshape += 1
            g = {"_assert_expected_unit": ("__contract__", "aeu"), "inspect": TypeRef("inspect"), "functools": TypeRef("functools")}
            ex = FE.make_exec("core/quantity_decorator.py", UNIT, globals_extra=g, contracts={"aeu": aeu_contract, "func": func_contract},
                              models={"__method__": wrapper_method},
                              attr_model=lambda ex, ctx, base, attr: ([(ctx, Builtin("inspect.signature", signature_model))] if isinstance(base, TypeRef) and base.name == "inspect" and attr == "signature"
                                                                      else ([(ctx, z3.String("func.__name__"))] if attr == "__name__" else None)))
            unit = Obj("Dimension", {"__id__": z3.IntVal(1000)})
            env = {"func": ("__contract__", "func")}
            if which == "validate_output":
                env["expected_unit"] = unit
            else:
                env["param_name"] = "beta"

            def setup(ex, ctx, a_=a_, k_=k_):
                return list(a_), dict(k_), None

            def post(ex, ctx, out, info, which=which, unit=unit):
                calls = ctx.ghost.get("aeu_calls", [])
                want_unit = unit if which == "validate_output" else vals["beta"]
                if out[0] == "return":
                    yield "returns=>result-passes-against-the-declared-unit", PASS(item_id(RET), unit_id(want_unit))
                    yield "result-is-checked-as-'return'", z3.BoolVal(len(calls) == 1 and calls[0][0] is not None and z3.eq(item_id(calls[0][0]), item_id(RET)) and
                                                                   z3.eq(unit_id(calls[0][1]), unit_id(want_unit)) and calls[0][2] == "return")
                    yield "returns-the-function's-result", z3.BoolVal(isinstance(out[1], Obj) and z3.eq(item_id(out[1]), item_id(RET)))
                else:
                    yield "refused=>result-does-not-pass", z3.Not(PASS(item_id(RET), unit_id(want_unit))) if len(calls) == 1 else z3.BoolVal(False)

            q = f"{which}.validate_func.wrapper_validate"
            verify_function(ex, q, setup, post, closure_env=env)
            ex.obligations = [(nm.replace(f"/{q}/", f"/{which}.wrapper_validate[{style}]/"), h, g_, s_, c_) for nm, h, g_, s_, c_ in ex.obligations]
            execs.append(ex)
    # validate_output_same with a parameter name that does not exist: refuses with TypeError (its own precondition check)
    g = {"_assert_expected_unit": ("__contract__", "aeu"), "inspect": TypeRef("inspect"), "functools": TypeRef("functools")}
    ex = FE.make_exec("core/quantity_decorator.py", UNIT, globals_extra=g, contracts={"aeu": aeu_contract, "func": func_contract}, models={"__method__": wrapper_method},
                      attr_model=lambda ex, ctx, base, attr: ([(ctx, Builtin("inspect.signature", signature_model))] if isinstance(base, TypeRef) and base.name == "inspect" and attr == "signature"
                                                              else ([(ctx, z3.String("func.__name__"))] if attr == "__name__" else None)))
    a_, k_ = styles["positional"]
    verify_function(ex, "validate_output_same.validate_func.wrapper_validate", lambda ex, ctx: (list(a_), dict(k_), None),
                    lambda ex, ctx, out, info: iter([("unknown-parameter-name=>TypeError-and-function-not-invoked",
                                                      z3.BoolVal(out[0] == "raise" and out[1].cls == "TypeError" and "func_called_with" not in ctx.ghost))]),
                    closure_env={"func": ("__contract__", "func"), "param_name": "delta"})
    ex.obligations = [(nm.replace("/validate_output_same.validate_func.wrapper_validate/", "/validate_output_same.wrapper_validate[param-name-missing]/"), h, g_, s_, c_)
                      for nm, h, g_, s_, c_ in ex.obligations]
    execs.append(ex)
    return obs, execs, nshape


# ------------------------------------------------------------------------------------------ catalogue call sites
def callsite_obligations():
    """precondition of the decorators at every decoration site of the tree: guard keywords are parameters of the function"""
    obs = []
    nsites = 0
    for sub in ("laws", "definitions", "conditions"):
        for p in sorted((PKG / sub).rglob("*.py")):
            try:
                tree = ast.parse(p.read_text())
            except SyntaxError:
                continue
            mod = ".".join(p.relative_to(PKG).with_suffix("").parts)
            for fn in [n for n in ast.walk(tree) if isinstance(n, ast.FunctionDef)]:
                a = fn.args
                names = {x.arg for x in a.posonlyargs + a.args + a.kwonlyargs}
                for dec in fn.decorator_list:
                    if not (isinstance(dec, ast.Call) and isinstance(dec.func, ast.Name)):
                        continue
                    if dec.func.id == "validate_input":
                        nsites += 1
                        kws = [k.arg for k in dec.keywords if k.arg]
                        missing = [k for k in kws if k not in names]
                        ok = not missing and a.vararg is None and a.kwarg is None or (not missing)
                        obs.append(Ob(f"{UNIT}/callsite/{mod}.{fn.name}/guard-keywords-name-parameters", PROVED if not missing else REFUTED, "ast-scan", 0.0,
                                      "" if not missing else f"guard keyword(s) {missing} name no parameter of {fn.name}({', '.join(sorted(names))})", f"{mod}.{fn.name}",
                                      None if not missing else callsite_replay(mod, fn.name, missing)))
                    if dec.func.id == "validate_output_same":
                        nsites += 1
                        nm = dec.args[0].value if dec.args and isinstance(dec.args[0], ast.Constant) else None
                        okk = nm in names
                        obs.append(Ob(f"{UNIT}/callsite/{mod}.{fn.name}/validate_output_same-names-a-parameter", PROVED if okk else REFUTED, "ast-scan", 0.0,
                                      "" if okk else f"{nm!r} is not a parameter", f"{mod}.{fn.name}", None if okk else {"reproduced": False, "script": None}))
    return obs, nsites


def callsite_replay(mod, fn, missing):
    script = (
        "import importlib, inspect\n"
        f"m = importlib.import_module('symplyphysics.{mod}')\nf = getattr(m, {fn!r})\n"
        "g = f\nkw = None\n"
        "while g is not None:\n"
        "    cv = inspect.getclosurevars(g)\n"
        "    if 'decorator_kwargs' in cv.nonlocals:\n        kw = cv.nonlocals['decorator_kwargs']\n"
        "    g = getattr(g, '__wrapped__', None)\n"
        "params = set(inspect.signature(f).parameters)\n"
        "assert kw is not None and set(kw) <= params, ('guard keywords', sorted(set(kw or ()) - params), 'name no parameter of', sorted(params))\n")
    return try_replay(script)


def shared_callee_obligations(report, user: str):
    """The functions that C05-C08 use through their C04 contracts (is_any_dimension, is_number, assert_equivalent_dimension) are
    re-verified inside the run of each property that depends on them: a change to a callee that breaks the CALLER's property fails
    that property's own check, not only C04's (modular verification: the caller is checked against the callee's contract, so the
    contract itself must be discharged in the same run)."""
    from ..contracts import refimpl
    try:
        obs, execs = obligations_core()
        conc = refimpl.concretizer("gate", seed())
        for ex in execs:
            ex.obligations = [(n, h, g_, s_, c_ or conc) for n, h, g_, s_, c_ in ex.obligations]
            obs.extend(discharge(ex, UNIT))
        report.extend(obs)
        from . import c04_probe
        c04_probe.run(report)
        report.extra["shared_callee_obligations"] = f"{len(obs)} obligations of the C04 contracts of is_any_dimension / is_number / assert_equivalent_dimension re-discharged for {user}"
    except Exception as e:  # the callee left the modelled subset: fault + executable-contract search
        refimpl.generation_fallback(report, "gate", user, f"shared callee contracts: {type(e).__name__}: {e}", seed())
    for f, rel in (("dimensions.miscellaneous.is_any_dimension", "core/dimensions/miscellaneous.py"), ("dimensions.miscellaneous.is_number", "core/dimensions/miscellaneous.py"),
                   ("dimensions.dimensions.assert_equivalent_dimension", "core/dimensions/dimensions.py")):
        report.function("symplyphysics.core." + f, PKG / rel, note="callee contract (C04), re-discharged in this run")


def run(report):
    from ..pyvc import GenError as _GenError
    from ..contracts import refimpl as _refimpl
    try:
        _run(report)
    except Exception as e:  # left the modelled subset: fault + executable-contract search
        _refimpl.generation_fallback(report, 'gate', UNIT, f"{type(e).__name__}: {e}", seed())


def _run(report):
    obs, execs = obligations_core()
    o2, e2, nshape = obligations_decorators()
    obs += o2
    execs += e2
    from ..contracts import refimpl
    conc = refimpl.concretizer("gate", seed())
    for ex in execs:
        ex.obligations = [(n, h, g_, s_, c_ or conc) for n, h, g_, s_, c_ in ex.obligations]
        obs.extend(discharge(ex, UNIT))
    o3, nsites = callsite_obligations()
    obs += o3
    report.extend(obs)
    if nsites < 600:
        report.fault(f"only {nsites} decoration sites found (vacuity guard: expected > 600)")
    for f, rel in (("dimensions.miscellaneous.is_any_dimension", "core/dimensions/miscellaneous.py"), ("dimensions.miscellaneous.is_number", "core/dimensions/miscellaneous.py"),
                   ("dimensions.dimensions.assert_equivalent_dimension", "core/dimensions/dimensions.py"),
                   ("quantity_decorator._assert_expected_unit", "core/quantity_decorator.py"), ("quantity_decorator.validate_input.wrapper_validate", "core/quantity_decorator.py"),
                   ("quantity_decorator.validate_output.wrapper_validate", "core/quantity_decorator.py"), ("quantity_decorator.validate_output_same.wrapper_validate", "core/quantity_decorator.py"),
                   ("coordinate_systems.coordinate_systems.CoordinateSystem.is_angle_component", "core/coordinate_systems/coordinate_systems.py")):
        report.function("symplyphysics.core." + f, PKG / rel)
    report.extra["decoration_sites"] = nsites
    report.extra["decorator_shapes"] = nshape
    report.add_bounded("sequence length in _assert_expected_unit / number of parameters in the wrappers",
                       "value sequences of length 0..2 (quick) / 0..3 (thorough) over 4 item kinds, 3-parameter signatures in 3 call styles; "
                       "each shape is proved for ALL values (gate verdicts are uninterpreted)", nshape, True)
    from . import c04_probe, c04_qvector
    c04_probe.run(report)
    report.extra["quantity_vector_shapes"] = c04_qvector.run(report, 3 if report.tier == "thorough" else 2)
    report.extra["callee_contracts_used"] = sorted(set().union(*[x.used_contracts for x in execs]))
    report.extra["library_models_used"] = sorted(set().union(*[x.used_models for x in execs]))
    from ..contracts import audit
    audit.run(report)
    report.trust("CPython 3.12 (subset of DESIGN 3.A)", "z3 5.1 / cvc5 1.4", "inspect.signature/bind, functools.wraps (assumed)",
                 "contract of collect_quantity_factor_and_dimension (proved in C05)", "sympy.physics.units dimension system")
    report.assume(*[f"{k}: {v}" for k, v in FE.ASSUMED.items()])
    report.assume("reading: a dimensionless argument (bare number or dimensionless/angle quantity) is the statement's 'bare number'",
                  "a declared dimension given as the wildcard any_dimension OBJECT is compared as an ordinary dimension name (code path for Dimension arguments)",
                  "floats are mathematical reals; zoo excluded")
