"""C17 -- the plain-text ('code') rendering of formulas is meaning preserving.

Translation validation (engine T, vf/tv.py): for every rendering s = code_str(e) the postcondition
    read_code(s) == e   for all values of the symbols of e
is discharged deductively (normal form over opaque atoms, then z3 over the reals with denominators non-zero).
Populations: (1) every documented catalogue member in SOURCE form through the repository's docs pipeline, and the
canonical (imported) form of every catalogue equation -- exhaustive; (2) general canonical trees -- bounded, labelled.
"""
from __future__ import annotations

from .. import tv

LEVEL = "translation_validation"


def run(report):
    tv.run_property(report, "C17", "code")
    report.trust(
        "CPython 3.12",
        "SymPy 1.14: construction/auto-evaluation of Add/Mul/Pow/functions is value preserving (used by the reader and by "
        "the normal form of the original)",
        "sympy.polys (together, expand, groebner) for the nf back end", "z3 5.1 / cvc5 1.4",
        "the reference reader vf.tv.CodeReader (reviewed against the statement: ordinary precedence, ^ right-associative, "
        "function-call syntax, names = display names of the expression's own atoms)",
        "vf.sym2smt (SymPy -> z3 reals; opaque atoms keyed by canonical form)")
    report.assume(
        "symbols range over the reals; all denominators are non-zero (domain of definition)",
        "a Float leaf denotes its decimal at the precision it carries (15 significant digits for a double), which is what "
        "the printers show; a decimal literal in a rendering denotes exactly that decimal",
        "derivatives, integrals, indexed sums/products, averages/differentials, Order terms, applications of undefined "
        "functions, quantities and indexed symbols are value-opaque atoms keyed by their canonical form and independent of "
        "each other",
        "`dX` with X a display name reads as the exact differential of X (the documented code form of ExactDifferential)")
    report.assume(
        "a canonical (imported) form is an obligation only if every node lies in the expression space the property states for "
        "canonical forms (symbols, numbers, rationals, pi/E/I, named quantity constants, + * ^, elementary functions); the "
        "other canonical forms are rendered and validated too, but reported as observations under "
        "coverage.canonical_outside_stated_space; every documented SOURCE form is an obligation")
    report.explanation = (
        "programs = renderings validated (one for-all-values equivalence each); a rendering whose reading needs a construct "
        "outside the reader, or whose atoms share a display name, is listed under out_of_reach and not counted")
