"""Model audit for C04 (DESIGN 9): the assumed library contracts and the executable gate contract are evaluated against the
real code on a fixed sample.  A disagreement with an ASSUMED contract is a checker fault (the model is wrong); a disagreement
of the real gate with its executable contract is reported as a refuted obligation with the concrete input."""
from ..core import Ob, PROVED, REFUTED
from ..contracts import refimpl


def run(report):
    import sympy as sp
    from sympy import S, oo, nan, Float
    from symplyphysics.core.dimensions.miscellaneous import is_any_dimension, is_number
    # native probe of is_any_dimension on every value class of the model (exact zero, float zero, finite, infinities, NaN, symbolic)
    samples = [(S.Zero, True), (Float(0.0), True), (sp.sympify(-0.0), True), (S.One, False), (Float(1e-300), False), (oo, True), (-oo, True), (nan, True),
               (sp.Symbol("x"), False), (sp.Rational(1, 3), False), (sp.I, False), (sp.sympify(0j), True)]
    for v, want in samples:
        got = bool(is_any_dimension(v))
        name = f"C04/probe/is_any_dimension({sp.srepr(v)})"
        report.add(Ob(name, PROVED if got == want else REFUTED, "exec-native", 0.0, "" if got == want else f"returned {got}, contract says {want}", sp.srepr(v),
                      None if got == want else {"reproduced": True, "script":
                                                "import sympy as sp\nfrom sympy import *\nfrom symplyphysics.core.dimensions.miscellaneous import is_any_dimension\n"
                                                f"assert bool(is_any_dimension({sp.srepr(v)})) == {want}, 'is_any_dimension({sp.srepr(v)}) != {want}'\n"}))
    for v, want in [(S.One, True), (oo, True), (nan, True), (sp.Symbol("x"), False), (sp.pi, True), (sp.I, True), (sp.sin(2), True)]:
        if bool(is_number(v)) != want:
            report.fault(f"model audit: is_number({v}) is {not want}, the model assumes {want}")
    t, why, n = refimpl.search_gate()
    report.add_bounded("executable gate contract vs the real assert_equivalent_dimension / decorators on a fixed pool (model audit)",
                       "31 argument forms x 15 expected forms + 17 decorator scenarios", n, t is None,
                       [] if t is None else [{"name": f"C04/audit/{t}", "detail": why,
                                              "replay": {"reproduced": True, "script": f"from vf.contracts.refimpl import replay_gate\nreplay_gate({t!r})\n"}}])
