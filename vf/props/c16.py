"""C16 -- vector-equation rearrangement is equivalence preserving.

Contracts on solve_for_vector, solve_for_scalar, apply, vector_equals (core/experimental/solvers) and on the term
helpers split_factor / into_terms, stated under the R^3 semantics of vf/vecsem.py and discharged for all real
assignments on templates with generic scalar coefficients (term count <= 4: stated bound).
"""
from __future__ import annotations

import itertools
import os

import sympy as sp

from ..symx import Law, Case, run_laws
from ..core import PKG
from ..vecsem import Env, sem, _asvec

LEVEL = "proof"
MOD = "vf.props.c16"
F = "symplyphysics.core.experimental."


def _api():
    from symplyphysics.core.experimental import solvers as S
    from symplyphysics.core.experimental import vectors as V
    return S, V


def vsub(a, b):
    return [x - y for x, y in zip(a, b)]


# term templates: (name, build(V, sy, k) -> expr); sy[0] is the unknown, sy[1..3] other vectors, k scalars
TERMS = {
    "k0*u": lambda V, sy, k: k[0] * sy[0],
    "-u": lambda V, sy, k: -sy[0],
    "(k0+k1)*u": lambda V, sy, k: (k[0] + k[1]) * sy[0],
    "u*k0/k1": lambda V, sy, k: sy[0] * k[0] / k[1],
    "dot(b,c)*u": lambda V, sy, k: V.VectorDot(sy[1], sy[2]) * sy[0],
    "k2*b": lambda V, sy, k: k[2] * sy[1],
    "-c": lambda V, sy, k: -sy[2],
    "k3*cross(b,c)": lambda V, sy, k: k[3] * V.VectorCross(sy[1], sy[2]),
    "dot(b,d)*c": lambda V, sy, k: V.VectorDot(sy[1], sy[3]) * sy[2],
    "k4*d": lambda V, sy, k: k[4] * sy[3],
    "k5*cross(u,b)": lambda V, sy, k: k[5] * V.VectorCross(sy[0], sy[1]),   # the unknown inside another term
    "dot(u,b)*c": lambda V, sy, k: V.VectorDot(sy[0], sy[1]) * sy[2],       # coefficient depending on the unknown
    "norm(b)*c": lambda V, sy, k: V.VectorNorm(sy[1]) * sy[2],
}
UNKNOWN_TERMS = ["k0*u", "-u", "(k0+k1)*u", "u*k0/k1", "dot(b,c)*u"]
OTHER_FREE = ["k2*b", "-c", "k3*cross(b,c)", "dot(b,d)*c", "k4*d", "norm(b)*c"]
OTHER_WITH_U = ["k5*cross(u,b)", "dot(u,b)*c"]


def _combos(full):
    res = []
    others = OTHER_FREE + OTHER_WITH_U
    maxn = 3 if full else 2
    for ut in UNKNOWN_TERMS:
        for n in range(0, maxn + 1):
            for oth in itertools.combinations(others, n):
                # terms that reduce to the same vector would merge; keep distinct-vector combinations only
                res.append((ut,) + oth)
    if not full:
        res = [c for i, c in enumerate(res) if len(c) <= 2 or i % 3 == 0]
    return res


def _own_terms(V, expr):
    """independent term splitter for the oracle: expanded additive terms as (vector factor, scalar factor)"""
    from ..vecsem import sem as _sem
    out = []
    for t in sp.Add.make_args(sp.expand(expr)):
        if t == 0:
            continue
        fs = sp.Mul.make_args(t)
        vec = [f for f in fs if isinstance(f, V.VectorExpr)]
        if len(vec) != 1:
            raise AssertionError(f"oracle cannot split term {t}")
        out.append((vec[0], sp.Mul(*[f for f in fs if f is not vec[0]])))
    return out


def laws():
    S, V = _api()
    full = os.environ.get("VERIF_TIER", "quick") == "thorough"
    out = []

    def law(name, shapes, fns, backend="auto"):
        def deco(f):
            out.append(Law(name, shapes, f, functions=[F + x for x in fns], backend=backend, timeout_s=30))
            return f
        return deco

    def setup(g):
        sy = [V.VectorSymbol(n) for n in ("u", "b", "c", "d")]
        env = Env(g)
        for s_, n in zip(sy, ("u", "b", "c", "d")):
            env.names[s_] = n
        k = [g.var(f"k{i}") for i in range(6)]  # coefficients stay symbolic in the replay too: the term structure matters
        return sy, env, k

    SV = [(c, form, red) for c in _combos(full) for form in ("expr", "eq") for red in (True, False)]

    @law("solve_for_vector/sides-differ-by-expression-over-coefficient", SV,
         ["solvers.solve_for_vector", "solvers.vector_equals", "vectors.split_factor", "vectors.into_terms", "vectors.is_vector_expr"])
    def _(s, g):
        combo, form, red = s
        sy, env, k = setup(g)
        terms = [TERMS[t](V, sy, k) for t in combo]
        expr = sp.Add(*terms)
        if form == "eq" and len(terms) > 1:
            arg = sp.Eq(sp.Add(*terms[:1]), -sp.Add(*terms[1:]), evaluate=False)
        elif form == "eq":
            arg = sp.Eq(expr, 0, evaluate=False)
        else:
            arg = expr
        res = S.solve_for_vector(arg, sy[0], reduce_factor=red)
        if not isinstance(res, sp.Eq):
            raise AssertionError(f"result is not an equation: {res}")
        diff = _asvec(*sem(res.lhs - res.rhs, env))
        e = _asvec(*sem(expr, env))
        # kappa: coefficient of (one of) the term(s) whose vector is the unknown, computed by the oracle's own splitter
        kappas = [sem(f, env)[1] for v, f in _own_terms(V, expr) if v == sy[0]]
        if not kappas:
            raise AssertionError("template has no term in the unknown")
        assume = [sp.Ne(kp, 0) for kp in kappas] + [sp.Ne(k[1], 0)]
        if any("norm" in t for t in combo):
            assume.append(sp.Gt(sem(V.VectorNorm(sy[1]), env)[1] ** 2, 0))
        kp = kappas[0]
        # property: with reduction, lhs - rhs == expr / kappa ; without, the sides differ by the expression itself
        # (either sign: "differ by")
        if red:
            residual = [kp * d - x for d, x in zip(diff, e)]
            alt = None
        else:
            residual = [d + x for d, x in zip(diff, e)]
            alt = [d - x for d, x in zip(diff, e)]
        extra = []
        if red:
            extra.append(sp.Integer(0 if res.lhs == sy[0] else 1))
            if not any(t in OTHER_WITH_U for t in combo) and len(kappas) == 1:
                extra.append(sp.Integer(1 if res.rhs.has(sy[0]) else 0))  # rhs is the solution: free of the unknown
        if alt is not None:
            from ..sym2smt import nf_is_zero
            if all(nf_is_zero(r) is True for r in alt):
                residual = alt
        return Case(residual + extra, assume=assume)

    # an equation whose left-hand side is the bare unknown while the unknown ALSO occurs on the right: the expression is lhs - rhs
    # (NUMERIC coefficients of the unknown on the right, so that SymPy merges the two occurrences into one term and "the coefficient of
    # that term" is unambiguous; with a symbolic coefficient the unknown stays in two terms and either may be chosen)
    @law("solve_for_vector/equation-with-the-unknown-on-both-sides", [(f, r) for f in ("2*u+b", "3*u+k1*b+cross", "u/2+b") for r in (True, False)],
         ["solvers.solve_for_vector"])
    def _(s, g):
        sy, env, k = setup(g)
        u, b, c = sy[0], sy[1], sy[2]
        rhs = {"2*u+b": 2 * u + b, "3*u+k1*b+cross": 3 * u + k[1] * b + V.VectorCross(b, c), "u/2+b": u / 2 + b}[s[0]]
        expr = u - rhs
        res = S.solve_for_vector(sp.Eq(u, rhs, evaluate=False), u, reduce_factor=s[1])
        if not isinstance(res, sp.Eq):
            raise AssertionError(f"result is not an equation: {res}")
        diff = _asvec(*sem(res.lhs - res.rhs, env))
        e = _asvec(*sem(expr, env))
        kappa = {"2*u+b": sp.Integer(-1), "3*u+k1*b+cross": sp.Integer(-2), "u/2+b": sp.Rational(1, 2)}[s[0]]
        if s[1]:
            # lhs - rhs == expr / kappa, and the solved side no longer contains the unknown
            res_ = [kappa * d - x for d, x in zip(diff, e)]
            res_.append(sp.Integer(1 if sp.sympify(res.rhs).has(u) else 0))
            return Case(res_, assume=[sp.Ne(kappa, 0)])
        alt1 = [d - x for d, x in zip(diff, e)]
        alt2 = [d + x for d, x in zip(diff, e)]
        from ..sym2smt import nf_is_zero
        return Case(alt2 if all(nf_is_zero(r) is True for r in alt2) else alt1)

    # coefficients that are NOT generic symbols: unit-modulus complex numbers as the coefficient of the unknown (a shortcut that
    # treats |kappa| == 1 as kappa == +-1 inverts them wrongly), and radicals / logarithms of a PRODUCT of real symbols of unknown
    # sign as other coefficients (splitting them, sqrt(x*y) -> sqrt(x)*sqrt(y), changes the value for negative x, y)
    KAPPA = {"I": lambda x, y: sp.I, "-I": lambda x, y: -sp.I, "exp(I*x)": lambda x, y: sp.exp(sp.I * x),
             "-1": lambda x, y: sp.Integer(-1), "x": lambda x, y: x}  # (not (1+I)/sqrt(2): SymPy keeps it as TWO terms in the unknown)
    COEF = {"x": lambda x, y: x, "sqrt(x*y)": lambda x, y: sp.sqrt(x * y), "cbrt(x*y)": lambda x, y: (x * y) ** sp.Rational(1, 3),
            "log(x*y)": lambda x, y: sp.log(x * y), "(x*y)**x": lambda x, y: (x * y) ** x}

    @law("solve_for_vector/unit-modulus-and-non-polynomial-coefficients",
         [(kn, cn, form, red) for kn in KAPPA for cn in COEF for form in ("expr", "eq") for red in (True, False)
          if kn == "x" or cn == "x" or (kn, cn) in (("I", "sqrt(x*y)"), ("-1", "log(x*y)"))],
         ["solvers.solve_for_vector", "vectors.into_terms", "vectors.split_factor"])
    def _(s, g):
        kn, cn, form, red = s
        sy, env, k = setup(g)
        u, b, c = sy[0], sy[1], sy[2]
        x, y = g.var("x"), g.var("y")
        kappa, coef = KAPPA[kn](x, y), COEF[cn](x, y)
        expr = kappa * u + coef * b + 2 * c
        arg = sp.Eq(kappa * u, -(coef * b + 2 * c), evaluate=False) if form == "eq" else expr
        res = S.solve_for_vector(arg, u, reduce_factor=red)
        if not isinstance(res, sp.Eq):
            raise AssertionError(f"result is not an equation: {res}")
        diff = _asvec(*sem(res.lhs - res.rhs, env))
        e = _asvec(*sem(expr, env))
        assume = [sp.Ne(x, 0), sp.Ne(y, 0)]
        # the imaginary unit is outside the SMT translation: complex residuals are expanded here (exp(I*x)*exp(-I*x) and I*I
        # combine on construction); what is left over is decided by normal form / a numeric witness
        tidy = (lambda r: sp.expand(r)) if kappa.has(sp.I) else (lambda r: r)
        if red:
            out_ = [tidy(kappa * d - t) for d, t in zip(diff, e)]
            out_.append(sp.Integer(1 if sp.sympify(res.rhs).has(u) else 0))
            return Case(out_, assume=assume)
        alt1 = [tidy(d - t) for d, t in zip(diff, e)]
        alt2 = [tidy(d + t) for d, t in zip(diff, e)]
        from ..sym2smt import nf_is_zero
        return Case(alt2 if all(nf_is_zero(r) is True for r in alt2) else alt1, assume=assume)

    @law("solve_for_vector/unknown-is-not-a-term(eq-with-cancelling-unknown);non-atomic-unknown-is-refused",
         [("eq-cancels",), ("2*u",), ("-u",), ("u/k",), ("3*cross(b,c)",), ("u+b",)], ["solvers.solve_for_vector"])
    def _(s, g):
        sy, env, k = setup(g)
        u, b, c = sy[0], sy[1], sy[2]
        if s[0] == "eq-cancels":
            return Case(raises=(ValueError, TypeError), thunk=lambda: S.solve_for_vector(sp.Eq(u, u + b, evaluate=False), u))
        unknown = {"2*u": 2 * u, "-u": -u, "u/k": u / k[0], # (not -cross(b, c): depending on the memory order of b and c that IS the canonical atomic cross(c, b))
                   "3*cross(b,c)": 3 * V.VectorCross(b, c), "u+b": u + b}[s[0]]
        expr = k[1] * V.VectorCross(b, c) + k[2] * u + k[3] * sy[3]
        return Case(raises=(ValueError, TypeError), thunk=lambda: S.solve_for_vector(expr, unknown))

    @law("solve_for_vector/refuses-non-member-vector-and-non-vector-expression", [("nonmember",), ("nonvector",), ("nonvector-eq",), ("vector-in-denominator",), ("product-of-two-vectors",), ("scalar-plus-vector",)],
         ["solvers.solve_for_vector", "vectors.is_vector_expr"])
    def _(s, g):
        sy, env, k = setup(g)
        if s[0] == "vector-in-denominator":
            return Case(raises=(TypeError, ValueError), thunk=lambda: S.solve_for_vector(k[0] * sy[0] + sy[1] / sy[2], sy[0]))
        if s[0] == "product-of-two-vectors":
            return Case(raises=(TypeError, ValueError), thunk=lambda: S.solve_for_vector(sp.Mul(sy[0], sy[1], evaluate=False) + sy[2], sy[2]))
        if s[0] == "scalar-plus-vector":
            return Case(raises=(TypeError, ValueError), thunk=lambda: S.solve_for_vector(k[0] + sy[0], sy[0]))
        if s[0] == "nonmember":
            return Case(raises=ValueError, thunk=lambda: S.solve_for_vector(k[0] * sy[1] + sy[2], sy[0]))
        if s[0] == "nonvector":
            return Case(raises=TypeError, thunk=lambda: S.solve_for_vector(k[0] * k[1] + V.VectorDot(sy[0], sy[1]), sy[0]))
        return Case(raises=TypeError, thunk=lambda: S.solve_for_vector(sp.Eq(V.VectorDot(sy[0], sy[1]), k[0]), sy[0]))

    # ------------------------------------------------------------------ solve_for_scalar
    # radical-*: concrete equations whose squared form has an extraneous root (sympy must check candidates against the equation)
    SC = ["linear", "linear-dot-coefficients", "quadratic", "rational", "eq-form", "system-like",
          "radical-sqrt(x)=x-2", "radical-sqrt(2x+3)=x", "radical-sqrt(x+6)=x", "radical-sqrt(x-1)=x-3", "radical-k*sqrt(x)=k*(x-2)"]

    @law("solve_for_scalar/each-returned-equation-is-satisfied-by-its-solution", [(t,) for t in SC], ["solvers.solve_for_scalar"], backend="z3")
    def _(s, g):
        sy, env, k = setup(g)
        x = sp.Symbol("x", real=True)
        f = {
            "linear": k[0] * x + k[1],
            "linear-dot-coefficients": V.VectorNorm(sy[1]) * x + V.VectorNorm(sy[3]) - k[0],
            "quadratic": x**2 - (k[0] + k[1]) * x + k[0] * k[1],
            "rational": k[0] / x - k[1],
            "eq-form": sp.Eq(k[0] * x + k[2], k[1] * x + k[3]),
            "system-like": sp.Eq(V.VectorNorm(sy[1]), V.VectorNorm(sy[2]) * x),
            "radical-sqrt(x)=x-2": sp.Eq(sp.sqrt(x), x - 2),
            "radical-sqrt(2x+3)=x": sp.Eq(sp.sqrt(2 * x + 3), x),
            "radical-sqrt(x+6)=x": sp.Eq(sp.sqrt(x + 6), x),
            "radical-sqrt(x-1)=x-3": sp.Eq(sp.sqrt(x - 1), x - 3),
            "radical-k*sqrt(x)=k*(x-2)": sp.Eq(k[0] * sp.sqrt(x), k[0] * (x - 2)),
        }[s[0]]
        eqs = S.solve_for_scalar(f, x)
        if not eqs:
            raise AssertionError("no equation returned")
        res = []
        fz = f.lhs - f.rhs if isinstance(f, sp.Eq) else f
        for e in eqs:
            if not isinstance(e, sp.Eq) or e.lhs != x:
                raise AssertionError(f"returned {e}")
            val = fz.subs(x, e.rhs)
            res.append(sp.together(sem(val, env)[1]))
        assume = [sp.Ne(k[0], 0), sp.Ne(k[1], 0), sp.Ne(k[0] - k[1], 0),
                  sp.Gt(sem(V.VectorNorm(sy[1]), env)[1] ** 2, 0), sp.Gt(sem(V.VectorNorm(sy[2]), env)[1] ** 2, 0)]
        return Case(res, assume=assume)

    # ------------------------------------------------------------------ apply
    BARE = ["dot(a,b)", "cross(a,b)", "mixed(a,b,c)", "norm(a)", "a+b", "k*a", "k0*dot(a,b)+k1", "a<b(relational-not-Eq)"]

    @law("apply/bare-expression-is-the-left-hand-side-and-zero-the-right", [(t,) for t in BARE], ["solvers.apply"])
    def _(s, g):
        sy, env, k = setup(g)
        a, b, c, d = sy[0], sy[1], sy[2], sy[3]
        E = {"dot(a,b)": lambda: V.VectorDot(a, b), "cross(a,b)": lambda: V.VectorCross(a, b), "mixed(a,b,c)": lambda: V.VectorMixedProduct(a, b, c),
             "norm(a)": lambda: V.VectorNorm(a), "a+b": lambda: a + b, "k*a": lambda: k[0] * a, "k0*dot(a,b)+k1": lambda: k[0] * V.VectorDot(a, b) + k[1],
             "a<b(relational-not-Eq)": lambda: sp.Lt(k[0], k[1], evaluate=False)}[s[0]]()
        vector_valued = s[0] in ("cross(a,b)", "a+b", "k*a")
        seen = []
        fn = (lambda e: (seen.append(e), V.VectorDot(e, d))[1]) if vector_valued else (lambda e: (seen.append(e), sp.Function("F")(e))[1])
        r = S.apply(E, fn)
        # the function is applied exactly to the expression itself and to zero, in that order, and the result is Eq(f(expr), f(0))
        ok = isinstance(r, sp.Eq) and len(seen) == 2 and seen[0] == sp.sympify(E) and seen[1] == sp.S.Zero
        return Case([sp.Integer(0 if ok else 1)])

    @law("apply/applies-the-function-to-both-sides", [("eq",), ("expr",), ("vector-eq",)], ["solvers.apply"])
    def _(s, g):
        sy, env, k = setup(g)
        Fn = sp.Function("F")
        if s[0] == "eq":
            r = S.apply(sp.Eq(k[0] + k[1], k[2], evaluate=False), Fn)
            ok = r.lhs == Fn(k[0] + k[1]) and r.rhs == Fn(k[2])
        elif s[0] == "expr":
            r = S.apply(k[0] * k[1], Fn)
            ok = r.lhs == Fn(k[0] * k[1]) and r.rhs == Fn(sp.S.Zero)
        else:
            fn = lambda e: V.VectorDot(e, sy[3])
            r = S.apply(sp.Eq(k[0] * sy[1], sy[2], evaluate=False), fn)
            ok = r.lhs == fn(k[0] * sy[1]) and r.rhs == fn(sy[2])
        return Case([sp.Integer(0 if (ok and isinstance(r, sp.Eq)) else 1)])

    # ------------------------------------------------------------------ vector_equals
    VE = ["a+b|b+a", "k(a+b)|ka+kb", "axb|-bxa", "a|b", "a|2a", "axb|bxa", "0|a-a", "dot-coeff"]

    @law("vector_equals/true-iff-values-agree-on-templates", [(t,) for t in VE], ["solvers.vector_equals", "vectors.VectorNorm.__new__"])
    def _(s, g):
        sy, env, k = setup(g)
        a, b, c = sy[1], sy[2], sy[3]
        l, r = {
            "a+b|b+a": (a + b, b + a),
            "k(a+b)|ka+kb": (k[0] * (a + b), k[0] * a + k[0] * b),
            "axb|-bxa": (V.VectorCross(a, b), -V.VectorCross(b, a)),
            "a|b": (a, b),
            "a|2a": (a, 2 * a),
            "axb|bxa": (V.VectorCross(a, b), V.VectorCross(b, a)),
            "0|a-a": (sp.S.Zero, a - a),
            "dot-coeff": (V.VectorDot(a, b) * c + k[0] * c, (k[0] + V.VectorDot(b, a)) * c),
        }[s[0]]
        verdict = S.vector_equals(l, r)
        d = vsub(_asvec(*sem(l, env)), _asvec(*sem(r, env)))
        from ..sym2smt import nf_is_zero
        truth = all(nf_is_zero(x) is True for x in d)
        return Case([sp.Integer(0 if bool(verdict) == truth else 1)])

    # ------------------------------------------------------------------ split_factor / into_terms
    @law("into_terms,split_factor/terms-sum-to-the-expression;factor-times-vector-is-the-term", [(c,) for c in _combos(full)],
         ["vectors.into_terms", "vectors.split_factor"])
    def _(s, g):
        sy, env, k = setup(g)
        expr = sp.Add(*[TERMS[t](V, sy, k) for t in s[0]])
        terms = V.into_terms(expr)
        total = [sp.S.Zero] * 3
        res = []
        for t in terms:
            v, f = V.split_factor(t)
            kv, sv = sem(v, env)
            kf, sf = sem(f, env)
            if kv != "v" or kf != "s":
                raise AssertionError(f"split_factor({t}) = ({v}, {f}) is not (vector, scalar)")
            tv = _asvec(*sem(t, env))
            res += [sf * x - y for x, y in zip(sv, tv)]
            total = [x + y for x, y in zip(total, tv)]
        res += vsub(total, _asvec(*sem(expr, env)))
        assume = [sp.Ne(k[1], 0)]
        return Case(res, assume=assume)

    return out


def run(report):
    ls = laws()
    for l in ls:
        for f in l.functions:
            sub = f[len(F):].split(".")[0]
            report.function(f, PKG / "core/experimental" / sub / "__init__.py")
    run_laws(report, MOD, ls, "C16", plain="quick")
    full = os.environ.get("VERIF_TIER", "quick") == "thorough"
    report.add_bounded("term count of the linear combination", f"unknown term + up to {3 if full else 2} other terms from a pool of 8 "
                       "(generic, compound, dot-valued and unknown-dependent coefficients; cross-product terms)",
                       sum(len(l.shapes) for l in ls), True)
    report.add_out_of_reach("solve_for_scalar on equations whose coefficients are VectorDot objects",
                            "sympy.solve returns [] for them (VectorDot.is_commutative is None) and the function raises IndexError: nothing "
                            "is returned, so the clause 'each returned equation is satisfied' does not apply; observed, not a violation")
    report.add_out_of_reach("linear combinations with unboundedly many terms", "needs induction over into_terms / Add.args; not attempted")
    report.trust("CPython 3.12", "SymPy 1.14: expand, Add/Mul canonical forms, solve (scalar equations), simplify",
                 "R^3 semantics vf/vecsem.py", "sympy.polys (nf)", "z3 5.1 / cvc5 1.4")
    report.assume("coefficient of the unknown's term is non-zero (property text)", "vector symbols denote real 3-vectors",
                  "'differ by the expression itself' (reduce_factor=False) is read up to sign")
