"""C20 -- physical constants carry reference values and dimensions (engine G `ground`, DESIGN 3.G / C20).

Every name of ``symplyphysics.quantities.__all__`` is a row of the embedded reference table (set equality is a
vacuity/harvest guard: a constant without a row, or a row without a constant, is a checker fault).  From the REAL
objects (``.dimension``, ``.scale_factor``) and the REAL source text (numeric literal and docstring, read from the AST
of quantities/__init__.py) three kinds of ground obligations over exact rationals are generated on every run and
discharged by z3:

  C20/quantities.<name>/dimension   the SI exponent vector of ``.dimension`` equals the reference row's vector
  C20/quantities.<name>/value       |SI value - reference| <= tolerance  (for every pi in the stated interval)
  C20/identity/<label>              the seven identities of the statement, relative residual <= stated tolerance

Numbers.  A SymPy ``Float`` scale factor is taken as the exact binary rational it stores (IEEE floats are treated as
mathematical reals); ``pi`` inside a scale factor stays symbolic: every value is a monomial  a * pi**k  with exact
rational ``a``, and ``pi`` is a z3 real constrained only by  3.14159265358979 < pi < 3.14159265358980.
SymPy's SI is gram-referenced (kilogram.scale_factor == 1000, joule.scale_factor == 1000): the true SI value is
scale_factor / 1000**mass_exponent; the convention is re-checked against units.joule/newton/kilogram on every run.

Tolerance rule (mechanical, from DESIGN C20):
  tol = max( 10 * CODATA standard uncertainty of the reference edition,
             |ref| * (half a unit in the last digit of the literal as written in the source) / |literal|,
             1e-9 * |ref| for exact constants )
  except that a precision stated in the constant's own docstring ("relative uncertainty ... is X") replaces the rule.
A value clause holds if it holds for the CODATA 2018 row or for the CODATA 2022 row (the literals in the catalogue are
of mixed vintage; the statement says "CODATA reference" without an edition).
"""
from __future__ import annotations

import ast
import re
from decimal import Decimal
from fractions import Fraction as Fr

import z3

from ..core import PKG, Ob, FAULT
from ..smt import prove

LEVEL = "proof"

PI_LO, PI_HI = Fr("3.14159265358979"), Fr("3.14159265358980")
PI_MID = Fr("3.14159265358979323846264338327950288")  # only used to evaluate references that contain pi (error < 1e-35)
ULP = Fr(1, 2**53)  # unit round-off of one correctly rounded binary64 operation

# order of the exponent vector
BASE = ("mass", "length", "time", "current", "temperature", "amount_of_substance", "luminous_intensity")


def F(s) -> Fr:
    return Fr(str(s))


# ------------------------------------------------------------------------------------------------ reference data
# SI defining constants (exact)
c_ = F(299792458)
h_ = F("6.62607015e-34")
e_ = F("1.602176634e-19")
k_ = F("1.380649e-23")
NA_ = F("6.02214076e23")
g_ = F("9.80665")
X_WIEN = F("4.965114231744276303698759131322893944")  # root of x = 5 (1 - exp(-x))
G_2018 = F("6.67430e-11")  # CODATA 2018 = 2022, u = 1.5e-15
JULIAN_YEAR = F(31557600)  # IAU: 365.25 d of 86400 s

# measured constants: edition -> (value, standard uncertainty)
ME = {"CODATA2018": (F("9.1093837015e-31"), F("2.8e-40")), "CODATA2022": (F("9.1093837139e-31"), F("2.8e-40"))}
A0 = {"CODATA2018": (F("5.29177210903e-11"), F("8.0e-21")), "CODATA2022": (F("5.29177210544e-11"), F("8.2e-21"))}
RY_J = {"CODATA2018": (F("2.1798723611035e-18"), F("4.2e-30")), "CODATA2022": (F("2.1798723611030e-18"), F("2.4e-30"))}
RY_HZ = {"CODATA2018": (F("3.2898419602508e15"), F("6.4e3")), "CODATA2022": (F("3.2898419602500e15"), F("3.6e3"))}
MU0 = {"CODATA2018": (F("1.25663706212e-6"), F("1.9e-16")), "CODATA2022": (F("1.25663706127e-6"), F("2.0e-16"))}
EPS0 = {"CODATA2018": (F("8.8541878128e-12"), F("1.3e-21")), "CODATA2022": (F("8.8541878188e-12"), F("1.4e-21"))}
Z0 = {"CODATA2018": (F("376.730313668"), F("5.7e-8")), "CODATA2022": (F("376.730313412"), F("5.9e-8"))}
UR_MU0 = F("1.6e-10")  # relative standard uncertainty of mu0 (= that of Z0 and eps0), CODATA 2022 (2018: 1.5e-10)


def _richardson(ed):
    m, u = ME[ed]
    v = 4 * PI_MID * m * k_**2 * e_ / h_**3
    return (v, v * u / m)


# name -> row.  refs: list of (label, value, standard uncertainty, pi_power) ; reference = value * pi**pi_power
#          exact: the reference is exact by definition (SI 2019 / IAU resolution / convention)
#          scipy: key of scipy.constants.physical_constants used for the run-time cross-check of the embedded number
#          doc:   regex that must be found in the docstring when the docstring states the precision (rel. tolerance)
def table():
    T = {}

    def row(name, dim, refs, exact=False, scipy=None, source="", doc=None):
        T[name] = dict(dim=dict(zip(BASE, dim)), refs=refs, exact=exact, scipy=scipy, source=source, doc=doc)

    def both(d):
        return [(ed, d[ed][0], d[ed][1], 0) for ed in ("CODATA2018", "CODATA2022")]

    #                                         M  L  T  I  Th N  J
    row("standard_conditions_temperature", (0, 0, 0, 0, 1, 0, 0), [("IUPAC-STP", F("273.15"), 0, 0)], exact=True,
        source="0 degC = 273.15 K exactly (SI definition of the Celsius scale)")
    row("standard_laboratory_temperature", (0, 0, 0, 0, 1, 0, 0), [("25degC", F("298.15"), 0, 0)], exact=True,
        source="25 degC = 298.15 K; the docstring says 'approximately 25 degrees Celsius', literal precision decides")
    row("electron_rest_mass", (1, 0, 0, 0, 0, 0, 0), both(ME), scipy="electron mass")
    row("bohr_radius", (0, 1, 0, 0, 0, 0, 0), both(A0), scipy="Bohr radius")
    row("hydrogen_ionization_energy", (1, 2, -2, 0, 0, 0, 0), both(RY_J), scipy="Rydberg constant times hc in J",
        source="Bohr-model ionisation energy = Rydberg energy hc R_inf (the docstring links the Bohr model)")
    row("solar_mass", (1, 0, 0, 0, 0, 0, 0), [("IAU2015-B3/CODATA-G", F("1.3271244e20") / G_2018, 0, 0)],
        source="IAU 2015 B3 nominal (GM)_sun = 1.3271244e20 m^3 s^-2 divided by CODATA G",
        doc=(r"relative uncertainty of the measurement is :math:`4 \\cdot 10\^\{-5\}`", F("4e-5")))
    row("earth_mass", (1, 0, 0, 0, 0, 0, 0), [("IAU2015-B3/CODATA-G", F("3.986004e14") / G_2018, 0, 0)],
        source="IAU 2015 B3 nominal (GM)_earth = 3.986004e14 m^3 s^-2 divided by CODATA G",
        doc=(r"relative uncertainty of the measurement is :math:`10\^\{-4\}`", F("1e-4")))
    row("boltzmann_constant", (1, 2, -2, 0, -1, 0, 0), [("SI2019", k_, 0, 0)], exact=True, scipy="Boltzmann constant")
    row("molar_gas_constant", (1, 2, -2, 0, -1, -1, 0), [("SI2019", k_ * NA_, 0, 0)], exact=True, scipy="molar gas constant")
    row("speed_of_light", (0, 1, -1, 0, 0, 0, 0), [("SI2019", c_, 0, 0)], exact=True, scipy="speed of light in vacuum")
    row("vacuum_permittivity", (-1, -3, 4, 2, 0, 0, 0), both(EPS0), scipy="vacuum electric permittivity")
    row("vacuum_permeability", (1, 1, -2, -2, 0, 0, 0), both(MU0), scipy="vacuum mag. permeability")
    row("elementary_charge", (0, 0, 1, 1, 0, 0, 0), [("SI2019", e_, 0, 0)], exact=True, scipy="elementary charge")
    row("hbar", (1, 2, -1, 0, 0, 0, 0), [("SI2019", h_ / 2, 0, -1)], exact=True, scipy="reduced Planck constant")
    row("planck", (1, 2, -1, 0, 0, 0, 0), [("SI2019", h_, 0, 0)], exact=True, scipy="Planck constant")
    row("avogadro_constant", (0, 0, 0, 0, 0, -1, 0), [("SI2019", NA_, 0, 0)], exact=True, scipy="Avogadro constant")
    row("acceleration_due_to_gravity", (0, 1, -2, 0, 0, 0, 0), [("CGPM1901", g_, 0, 0)], exact=True,
        scipy="standard acceleration of gravity")
    row("stefan_boltzmann_constant", (1, 0, -3, 0, -4, 0, 0), [("SI2019", 2 * k_**4 / (15 * h_**3 * c_**2), 0, 5)],
        exact=True, scipy="Stefan-Boltzmann constant")
    row("richardson_constant", (0, -2, 0, 1, -2, 0, 0),
        [(ed,) + _richardson(ed) + (0,) for ed in ("CODATA2018", "CODATA2022")],
        source="A_0 = 4 pi m_e k_B^2 e / h^3 from the CODATA electron mass (pi evaluated to 35 digits)")
    row("rydberg_frequency", (0, 0, -1, 0, 0, 0, 0), both(RY_HZ), scipy="Rydberg constant times c in Hz")
    row("wien_displacement_constant", (0, 1, 0, 0, 1, 0, 0), [("SI2019", h_ * c_ / (X_WIEN * k_), 0, 0)], exact=True,
        scipy="Wien wavelength displacement law constant")
    row("hubble_constant", (0, 0, -1, 0, 0, 0, 0), [("documented-7%/Gyr", F("7e-11") / JULIAN_YEAR, 0, 0)],
        source="the constant's own documented value, 7 % per 1e9 Julian years (IAU year)",
        doc=(r"7%", None))
    row("zero_point_luminosity", (1, 2, -3, 0, 0, 0, 0), [("IAU2015-B2", F("3.0128e28"), 0, 0)], exact=True)
    # DORMANT rows: constants that the module defines but does not export today; they become obligations when they are exported
    row("sun_luminosity", (1, 2, -3, 0, 0, 0, 0), [("IAU2015-B3", F("3.828e26"), 0, 0)],
        source="IAU 2015 Resolution B3: nominal solar luminosity 3.828e26 W")
    row("gravitational_constant", (-1, 3, -2, 0, 0, 0, 0), [("CODATA2018", G_2018, F("1.5e-15"), 0), ("CODATA2022", G_2018, F("1.5e-15"), 0)],
        scipy="Newtonian constant of gravitation")
    row("faraday_constant", (0, 0, 1, 1, 0, -1, 0), [("SI2019", e_ * NA_, 0, 0)], exact=True, scipy="Faraday constant")
    row("vacuum_impedance", (1, 2, -3, -2, 0, 0, 0), both(Z0), scipy="characteristic impedance of vacuum")
    return T


# ------------------------------------------------------------------------------------------------ helpers
class Mono:
    """a * pi**k, a exact rational"""

    def __init__(self, a, k=0):
        self.a, self.k = Fr(a), int(k)

    def __mul__(self, o):
        o = o if isinstance(o, Mono) else Mono(o)
        return Mono(self.a * o.a, self.k + o.k)

    __rmul__ = __mul__

    def __pow__(self, n):
        return Mono(self.a**n, self.k * n)

    def __str__(self):
        return f"{self.a}" + (f"*pi**{self.k}" if self.k else "")


def rv(x: Fr):
    return z3.RealVal(f"{x.numerator}/{x.denominator}")


PI = z3.Real("pi")
PI_HYP = [PI > rv(PI_LO), PI < rv(PI_HI)]


def within_rel(lhs: Mono, rhs: Mono, tol_rel: Fr):
    """z3 formula for |lhs - rhs| <= tol_rel * rhs (rhs > 0) for monomials in pi.
    Both sides are multiplied by pi**(-min(k)) > 0 so that only non-negative powers of pi appear."""
    m = min(lhs.k, rhs.k)

    def z(mono):
        t = rv(mono.a)
        for _ in range(mono.k - m):
            t = t * PI
        return t
    L, R = z(lhs), z(rhs)
    T = rv(tol_rel) * R
    return z3.And(R > 0, L - R <= T, R - L <= T)


def to_mono(sf):
    """SymPy scale factor -> a * pi**k with exact rational a (Float -> the binary rational it stores)."""
    import sympy as sp
    sf = sp.sympify(sf)
    coeff, rest = sf.as_independent(sp.pi, as_Add=False)
    k = None
    if (coeff.is_Rational or coeff.is_Float) and coeff.is_finite:
        if rest == 1:
            k = 0
        elif rest == sp.pi:
            k = 1
        elif rest.is_Pow and rest.base == sp.pi and rest.exp.is_Integer:
            k = int(rest.exp)
    if k is None:
        # a closed numeric expression that is not a*pi**k (a special function, a root, a sum with pi): its value is read
        # with SymPy's arbitrary-precision evaluation to 60 digits (trusted; 1e-59 relative is far below every tolerance)
        if sf.free_symbols or not sf.is_number:
            raise ValueError(f"scale factor {sf!r} is not a number")
        val = sf.evalf(60)
        if not (val.is_Float and val.is_finite):
            raise ValueError(f"scale factor {sf!r} does not evaluate to a finite real number ({val!r})")
        r = sp.Rational(val)
        m = Mono(Fr(int(r.p), int(r.q)), 0)
        m.numeric = True
        return m
    r = sp.Rational(coeff)
    return Mono(Fr(int(r.p), int(r.q)), k)


def source_facts(path):
    """name -> {'literal': text or None, 'doc': docstring} from the AST of the real quantities/__init__.py"""
    src = path.read_text()
    tree = ast.parse(src)
    out = {}
    body = tree.body
    for i, node in enumerate(body):
        if not (isinstance(node, ast.Assign) and len(node.targets) == 1 and isinstance(node.targets[0], ast.Name)):
            continue
        name = node.targets[0].id
        if not (isinstance(node.value, ast.Call) and node.value.args):
            continue
        arg0 = node.value.args[0]
        exps = {id(n.right) for n in ast.walk(arg0) if isinstance(n, ast.BinOp) and isinstance(n.op, ast.Pow)}
        lits = [n for n in ast.walk(arg0) if isinstance(n, ast.Constant) and isinstance(n.value, (int, float))
                and not isinstance(n.value, bool) and id(n) not in exps]
        doc = ""
        if i + 1 < len(body) and isinstance(body[i + 1], ast.Expr) and isinstance(body[i + 1].value, ast.Constant) \
                and isinstance(body[i + 1].value.value, str):
            doc = body[i + 1].value.value
        out[name] = {"literals": [ast.get_source_segment(src, n) for n in lits], "doc": doc, "lineno": node.lineno}
    return out


# literal precisions of the PINNED tree (half a unit in the last written digit, relative): frozen here so that a coarser literal in a
# changed source cannot widen its own tolerance
PINNED_LIT_REL = {'standard_conditions_temperature': '1/54630', 'standard_laboratory_temperature': '1/596', 'electron_rest_mass': '1/182187674030', 'bohr_radius': '1/1058', 'hydrogen_ionization_energy': '1/272', 'solar_mass': '1/39768', 'earth_mass': '1/119444', 'richardson_constant': '1/24034', 'rydberg_frequency': '1/65796839205000', 'wien_displacement_constant': '1/9930228', 'hubble_constant': '1/14', 'zero_point_luminosity': '1/60256', 'sun_luminosity': '1/7654', 'vacuum_impedance': '1/753460626824'}


def literal_rel_half_ulp(text: str) -> Fr:
    """half a unit in the last written digit of a decimal literal, relative to the literal"""
    d = Decimal(text.replace("_", ""))
    exp = d.as_tuple().exponent
    return Fr(5) * Fr(10) ** (exp - 1) / abs(Fr(d))


REPLAY_HEAD = '''import os, sys
sys.path.insert(0, os.environ.get("VERIF_REPO", "/repo"))
from fractions import Fraction as Fr
import sympy as sp
from sympy.physics.units.systems.si import dimsys_SI
from symplyphysics import quantities as Q
BASE = %r
def dimvec(q):
    d = {str(getattr(k, "name", k)): v for k, v in dimsys_SI.get_dimensional_dependencies(q.dimension).items()}
    return {b: Fr(str(d.get(b, 0))) for b in BASE}
def si(q, pi):
    """exact SI value of the constant with pi replaced by the rational `pi` (mass is gram-referenced in SymPy)"""
    coeff, rest = sp.sympify(q.scale_factor).as_independent(sp.pi, as_Add=False)
    k = 0 if rest == 1 else 1 if rest == sp.pi else int(rest.exp) if rest.is_Pow and rest.base == sp.pi and rest.exp.is_Integer else None
    if k is None or not coeff.is_Number:  # not a*pi**k: a closed numeric expression, evaluated to 60 digits
        coeff, k = sp.sympify(q.scale_factor).evalf(60), 0
    r = sp.Rational(coeff)  # a Float is taken as the exact binary rational it stores
    return Fr(int(r.p), int(r.q)) * pi**k / Fr(1000) ** dimvec(q)["mass"]
PIS = [Fr(%r), Fr(%r)]
''' % (BASE, str(PI_LO + Fr(1, 10**16)), str(PI_HI - Fr(1, 10**16)))


def dimvec(q):
    from sympy.physics.units.systems.si import dimsys_SI
    deps = dimsys_SI.get_dimensional_dependencies(q.dimension)
    d = {str(getattr(k, "name", k)): v for k, v in deps.items()}
    unknown = set(d) - set(BASE)
    if unknown:
        raise ValueError(f"non-SI base dimension(s) {unknown}")
    return {b: Fr(str(d.get(b, 0))) for b in BASE}


# ------------------------------------------------------------------------------------------------ run
def run(report):
    import sympy as sp
    from sympy.physics import units
    from symplyphysics import quantities as Q

    src = PKG / "quantities" / "__init__.py"
    T = table()
    names = list(Q.__all__)
    report.extra["constants"] = len(names)
    dormant = sorted(n for n in set(T) - set(names) if hasattr(Q, n))  # defined, not exported: not under the property today
    report.extra["dormant_reference_rows"] = dormant
    if set(names) - set(T) or set(T) - set(names) - set(dormant) or len(names) != len(set(names)):
        report.fault(f"quantities.__all__ and the reference table differ: exported constants without a reference row {sorted(set(names) - set(T))}, "
                     f"rows without constant {sorted(set(T) - set(names) - set(dormant))}")
    # public Quantity attributes that are defined but not exported: reported, not under contract
    not_exported = sorted(n for n, v in vars(Q).items() if not n.startswith("_") and n not in names
                          and isinstance(v, units.Quantity) and getattr(v, "__module__", "") != "sympy.physics.units")
    report.extra["defined_but_not_in___all__"] = [n for n in not_exported if n != "Quantity"]

    # unit-scale convention audit (trusted base probe)
    conv = [(units.kilogram, 1000), (units.joule, 1000), (units.newton, 1000), (units.meter, 1), (units.watt, 1000),
            (units.ohm, 1000), (units.coulomb, 1), (units.gram, 1)]
    for u, want in conv:
        if sp.sympify(u.scale_factor) != want:
            report.fault(f"unit-scale convention audit: {u}.scale_factor = {u.scale_factor}, expected {want} "
                         "(gram-referenced SI)")

    # embedded table vs scipy.constants (CODATA 2022 in scipy >= 1.15)
    try:
        from scipy.constants import physical_constants as PC
    except Exception as ex:  # pragma: no cover
        PC = None
        report.fault(f"scipy.constants unavailable for the cross-check of the embedded table: {ex}")
    crossed = 0
    if PC is not None:
        for name, row in T.items():
            key = row["scipy"]
            if not key:
                continue
            if key not in PC:
                report.fault(f"scipy.constants has no entry {key!r} (row {name})")
                continue
            sv = Fr(PC[key][0])
            for label, val, u, pk in row["refs"]:
                ref = val * PI_MID**pk
                rel = abs(ref - sv) / abs(sv)
                lim = Fr(1, 10**6)
                if rel > lim:
                    report.fault(f"embedded reference {name}@{label} = {float(ref)!r} disagrees with scipy.constants "
                                 f"[{key}] = {float(sv)!r} (relative {float(rel):.3e} > 1e-6)")
                crossed += 1
    report.extra["scipy_cross_checked_rows"] = crossed

    facts = source_facts(src)
    SI = {}  # name -> Mono, true SI value
    value_details = {}
    for name in names:
        report.function(f"symplyphysics.quantities.{name}", src)
        if name not in T:
            continue
        row = T[name]
        q = getattr(Q, name)
        oname = f"C20/quantities.{name}"
        # ---------------------------------------------------------------- (1) dimension
        try:
            dv = dimvec(q)
        except Exception as ex:
            report.add(Ob(f"{oname}/dimension", FAULT, "gen", 0, f"cannot read dimension: {ex}"))
            continue
        goal = z3.And(*[rv(dv[b]) == rv(Fr(row["dim"][b])) for b in BASE])
        ob, _ = prove(f"{oname}/dimension", [], goal, cover=False, signature=name)
        if ob.verdict == "refuted":
            ob.detail = f"dimension exponents {_fmt(dv)} differ from the reference {_fmt(row['dim'])}"
            ob.replay = {"reproduced": True, "script": REPLAY_HEAD + (
                f"q = Q.{name}\nwant = {dict((b, str(Fr(row['dim'][b]))) for b in BASE)!r}\n"
                "got = {b: str(v) for b, v in dimvec(q).items()}\n"
                f"print('{name}: dimension exponents', got, 'reference', want)\n"
                f"assert got == want, 'C20 {name}: dimension ' + str(got) + ' != reference ' + str(want)\n")}
        report.add(ob)
        # ---------------------------------------------------------------- (2) value
        try:
            raw = to_mono(q.scale_factor)
        except Exception as ex:
            report.add(Ob(f"{oname}/value", FAULT, "gen", 0, f"cannot read scale factor: {ex}"))
            continue
        v = raw * Mono(Fr(1, 1000) ** dv["mass"])
        SI[name] = v
        if getattr(raw, "numeric", False):
            report.extra.setdefault("numerically_read_scale_factors", []).append(name)
        f = facts.get(name)
        if f is None:
            report.add(Ob(f"{oname}/value", FAULT, "gen", 0, "no `name = Quantity(...)` statement found in the source AST"))
            continue
        lits = f["literals"]
        # the precision of the literal is the FROZEN one of the pinned tree (PINNED_LIT_REL): a definition that is rewritten with
        # more digits or as an arithmetic expression of several literals is held to the same band
        lit_rel = Fr(PINNED_LIT_REL[name]) if name in PINNED_LIT_REL else Fr(0)
        doc_rel = None
        if row["doc"]:
            rx, rel = row["doc"]
            if not re.search(rx, f["doc"]):
                report.fault(f"{name}: docstring no longer states the precision/value the reference row quotes (/{rx}/)")
            doc_rel = rel
        alts, descr = [], []
        for label, val, u, pk in row["refs"]:
            ref = Mono(val, pk)
            if doc_rel is not None:
                tol, why = doc_rel * val, f"docstring relative precision {float(doc_rel):g}"
            else:
                cands = [(10 * Fr(u), "10 x CODATA standard uncertainty"), (lit_rel * val, f"half a unit in the last digit of literal {lits[0] if lits else None}")]
                if row["exact"]:
                    cands.append((val * Fr(1, 10**9), "relative 1e-9 (exact constant)"))
                tol, why = max(cands, key=lambda t: t[0])
            # tolerance is attached to the reference monomial: |v - ref| <= tol * pi**pk
            alts.append(_within_abs(v, ref, tol))
            vmid, rmid = v.a * PI_MID**v.k, val * PI_MID**pk
            descr.append(f"{label}: ref={float(rmid):.15g} tol={float(tol * PI_MID**pk):.3g} ({why}) "
                         f"|v-ref|={float(abs(vmid - rmid)):.3g}")
        goal = z3.Or(*alts) if len(alts) > 1 else alts[0]
        ob, _ = prove(f"{oname}/value", PI_HYP, goal, signature=name)
        vmid = v.a * PI_MID**v.k
        value_details[name] = f"SI value {float(vmid):.15g}; " + "; ".join(descr)
        if ob.verdict == "refuted":
            ob.detail = f"SI value {float(vmid):.15g} (= {v}) outside every reference band: " + "; ".join(descr)
            bands = [(label, str(val), pk, str(_tol_for(row, label, lit_rel, doc_rel))) for label, val, u, pk in row["refs"]]
            ob.replay = {"reproduced": True, "script": REPLAY_HEAD + (
                f"q = Q.{name}\nbands = {bands!r}\n"
                "ok = []\n"
                "for pi in PIS:\n"
                "    v = si(q, pi)\n"
                "    ok.append(any(abs(v - Fr(val) * pi**pk) <= Fr(tol) * pi**pk for _, val, pk, tol in bands))\n"
                "    print('SI value', float(v), [(l, float(Fr(val) * pi**pk), float(Fr(tol) * pi**pk)) for l, val, pk, tol in bands])\n"
                f"assert all(ok), 'C20 {name}: SI value ' + repr(float(si(q, PIS[0]))) + ' is outside the reference band(s) ' + "
                "repr([(l, float(Fr(val) * PIS[0]**pk), float(Fr(tol) * PIS[0]**pk)) for l, val, pk, tol in bands])\n")}
        report.add(ob)
    report.extra["value_clauses"] = value_details

    # ---------------------------------------------------------------- (3) identities
    need = ["molar_gas_constant", "boltzmann_constant", "avogadro_constant", "faraday_constant", "elementary_charge",
            "hbar", "planck", "vacuum_permittivity", "vacuum_permeability", "speed_of_light", "vacuum_impedance",
            "stefan_boltzmann_constant", "wien_displacement_constant"]
    missing = [n for n in need if n not in SI]
    if missing:
        report.fault(f"identities not generated, constants unavailable: {missing}")
    else:
        R, kB, NA, Fc, e, hb, h, eps0, mu0, c, Z, sig, b = (SI[n] for n in need)
        z0_lits = facts.get("vacuum_impedance", {}).get("literals") or []
        z0_lit_rel = Fr(PINNED_LIT_REL.get("vacuum_impedance", "0"))
        rounding = 8 * ULP  # allowance for <= 8 correctly rounded binary64 operations/parses on the two sides (8.9e-16)
        idents = [
            ("R=k_B*N_A", R, kB * NA, rounding,
             "both sides products of exact SI-2019 literals; 8 binary64 roundings (8.9e-16)",
             "si(Q.molar_gas_constant, pi)", "si(Q.boltzmann_constant, pi) * si(Q.avogadro_constant, pi)"),
            ("F=e*N_A", Fc, e * NA, rounding,
             "exact by definition in the source; 8 binary64 roundings (8.9e-16)",
             "si(Q.faraday_constant, pi)", "si(Q.elementary_charge, pi) * si(Q.avogadro_constant, pi)"),
            ("hbar=h/(2*pi)", hb * Mono(2, 1), h, rounding,
             "exact by definition; posed as hbar*2*pi = h; 8 binary64 roundings (8.9e-16)",
             "si(Q.hbar, pi) * 2 * pi", "si(Q.planck, pi)"),
            ("eps0*mu0*c^2=1", eps0 * mu0 * c**2, Mono(1), rounding,
             "eps0 is defined from mu0 and c; 8 binary64 roundings (8.9e-16)",
             "si(Q.vacuum_permittivity, pi) * si(Q.vacuum_permeability, pi) * si(Q.speed_of_light, pi)**2", "Fr(1)"),
            ("Z0=mu0*c", Z, mu0 * c, 10 * UR_MU0 + z0_lit_rel + rounding,
             "Z0 is an independent decimal literal and, since SI 2019, mu0 (hence Z0) is a measured quantity: "
             "10 x its CODATA relative standard uncertainty 1.6e-10 + half a unit in the last digit of the literal "
             f"({float(z0_lit_rel):.2g}) + rounding",
             "si(Q.vacuum_impedance, pi)", "si(Q.vacuum_permeability, pi) * si(Q.speed_of_light, pi)"),
            ("sigma=2*pi^5*k_B^4/(15*h^3*c^2)", sig * Mono(15) * h**3 * c**2, Mono(2, 5) * kB**4, rounding,
             "exact by definition (SymPy builds sigma from k_B, hbar, c); posed as sigma*15 h^3 c^2 = 2 pi^5 k_B^4; "
             "8 binary64 roundings (8.9e-16)",
             "si(Q.stefan_boltzmann_constant, pi) * 15 * si(Q.planck, pi)**3 * si(Q.speed_of_light, pi)**2",
             "2 * pi**5 * si(Q.boltzmann_constant, pi)**4"),
            ("b=h*c/(4.965114*k_B)", b * Mono(F("4.965114")) * kB, h * c, rounding,
             "the statement fixes the divisor 4.965114, so only binary64 rounding of the source expression remains: "
             "8 roundings (8.9e-16); posed as b*4.965114*k_B = h*c",
             "si(Q.wien_displacement_constant, pi) * Fr('4.965114') * si(Q.boltzmann_constant, pi)",
             "si(Q.planck, pi) * si(Q.speed_of_light, pi)"),
        ]
        report.extra["identity_tolerances"] = {}
        for label, lhs, rhs, tol, why, lsrc, rsrc in idents:
            goal = within_rel(lhs, rhs, tol)
            ob, _ = prove(f"C20/identity/{label}", PI_HYP, goal, signature=label)
            lm, rm = lhs.a * PI_MID**lhs.k, rhs.a * PI_MID**rhs.k
            resid = abs(lm - rm) / abs(rm)
            report.extra["identity_tolerances"][label] = {"relative_tolerance": float(tol), "justification": why,
                                                          "relative_residual_at_pi": float(resid)}
            if ob.verdict == "refuted":
                ob.detail = f"relative residual {float(resid):.3e} exceeds tolerance {float(tol):.3e} ({why})"
                ob.replay = {"reproduced": True, "script": REPLAY_HEAD + (
                    f"tol = Fr({str(tol)!r})\nworst = 0\nfor pi in PIS:\n"
                    f"    lhs = {lsrc}\n    rhs = {rsrc}\n"
                    "    worst = max(worst, abs(lhs - rhs) / abs(rhs))\n"
                    f"print('identity {label}: relative residual', float(worst), 'tolerance', float(tol))\n"
                    f"assert worst <= tol, 'C20 identity {label}: relative residual ' + repr(float(worst)) + ' > ' + repr(float(tol))\n")}
            report.add(ob)

    _history_stage(report, names)
    report.extra["exhaustive"] = True
    report.extra["pi_interval"] = [str(PI_LO), str(PI_HI)]
    report.extra["tolerance_rule"] = ("max(10 x CODATA standard uncertainty, |ref| x half-unit-in-last-digit of the source "
                                      "literal / |literal|, 1e-9 relative for exact constants); docstring-stated relative "
                                      "precision overrides (solar_mass 4e-5, earth_mass 1e-4); a value clause is the "
                                      "disjunction over the CODATA 2018 and CODATA 2022 rows")
    report.trust("CPython 3.12", "z3 5.1 linear/non-linear real arithmetic (ground and univariate-in-pi queries)",
                 "sympy.physics.units unit scale table and dimension system (dimsys_SI.get_dimensional_dependencies), "
                 "including the gram-referenced mass scale (kilogram.scale_factor == 1000; audited each run on "
                 "kilogram/joule/newton/watt/ohm/coulomb/meter/gram)",
                 "embedded reference table (CODATA 2018 and 2022 recommended values, IAU 2015 B2/B3 nominal values, "
                 "CGPM standard gravity; typed from memory, cross-checked at run time against scipy.constants at 1e-6)",
                 "sympy.Rational(Float) returns the exact binary value of the Float",
                 "sympy evalf(60) for a scale factor that is a closed numeric expression other than a*pi**k (none on the "
                 "unchanged tree; listed under numerically_read_scale_factors when used)",
                 "ast.get_source_segment returns the literal as written")
    report.assume("IEEE binary64 scale factors are treated as the exact rationals they store",
                  "pi is any real in (3.14159265358979, 3.14159265358980)",
                  "'SI value' means scale_factor / 1000**mass_exponent (SymPy SI is gram-referenced)",
                  "the reference for hydrogen_ionization_energy is the Rydberg energy (Bohr model, as the docstring links)",
                  "the reference for hubble_constant is its own documented 7 %/Gyr with the IAU Julian year",
                  "solar_mass/earth_mass references are IAU 2015 nominal GM divided by CODATA G; their tolerance is the "
                  "relative uncertainty stated in the docstring",
                  "references containing pi (hbar, sigma, Richardson) carry pi symbolically (hbar, sigma) or to 35 digits")


HISTORY_SCRIPT = '''import os, sys, threading
sys.path.insert(0, os.environ.get("VERIF_REPO", "/repo"))
from concurrent.futures import ThreadPoolExecutor
from sympy.physics import units
from symplyphysics import Quantity, quantities as Q
def snapshot():
    return {n: (str(getattr(Q, n).name), str(getattr(Q, n).scale_factor), str(getattr(Q, n).dimension)) for n in Q.__all__}
def make(k, out):
    out.extend(str(Quantity((i + 2) * units.meter).name) for i in range(k))
before = snapshot()
made = {"main thread": [], "worker thread": [], "thread pool": []}
make(%(k)d, made["main thread"])
t = threading.Thread(target=make, args=(%(k)d, made["worker thread"])); t.start(); t.join()
with ThreadPoolExecutor(1) as pool:  # one pool thread: the callers never overlap (a race between callers is out of reach)
    list(pool.map(lambda _: make(%(k)d // 4, made["thread pool"]), range(4)))
# frame clause: the public functions that take a quantity read it; none of them may write the constant they are handed
from symplyphysics.core import convert as CV
from symplyphysics.core.dimensions import dimension_to_si_unit
from symplyphysics.core.symbols.quantities import scale_factor
from symplyphysics.docs.printer_code import code_str
from symplyphysics.docs.printer_latex import latex_str
readers = {
    "evaluate_quantity(q, n=4)": lambda q: CV.evaluate_quantity(q, n=4),
    "evaluate_quantity(q)": lambda q: CV.evaluate_quantity(q),
    "evaluate_expression(q*2, True, n=3)": lambda q: CV.evaluate_expression(q * 2, True, n=3),
    "convert_to_si(q)": lambda q: CV.convert_to_si(q),
    "convert_to(q, SI unit)": lambda q: CV.convert_to(q, dimension_to_si_unit(q.dimension)),
    "scale_factor(q)": lambda q: scale_factor(q),
    "Quantity(q), Quantity(2*q)": lambda q: (Quantity(q), Quantity(2 * q)),
    "abs(q), -q, q**2, q.n(3), q.evalf(5)": lambda q: (abs(q), -q, q**2, q.n(3), q.evalf(5)),
    "str(q), code_str(q), latex_str(q)": lambda q: (str(q), code_str(q), latex_str(q)),
}
reader_calls = 0
for n in Q.__all__:
    for label, f in readers.items():
        try:
            f(getattr(Q, n))
        except Exception:  # a refusal is not a write
            pass
        reader_calls += 1
for _ in range(%(extra)d):  # thorough tier: a long-lived process
    Quantity(3 * units.second)
after = snapshot()
bad = [f"{n}: (name, scale factor, dimension) {before[n]} -> {after[n]}" for n in before if before[n] != after[n]]
taken = {v[0] for v in before.values()}
allnames = [x for v in made.values() for x in v]
clash = sorted({x for x in allnames if x in taken})
dup = sorted({x for x in allnames if allnames.count(x) > 1})
'''


def _history_stage(report, names):
    """Bounded history clause: the table read above is a property of the process state, and every Quantity registers its scale
    factor and dimension in SymPy's SI tables under its generated name, so a later quantity that reuses the name of a
    constant silently replaces that constant's value.  Contract of the name source (id_generator.next_id through
    symbols.next_name): every generated name is fresh for the whole process, whichever thread asks."""
    K = 40
    extra = 120000 if report.tier == "thorough" else 0
    script = HISTORY_SCRIPT % {"k": K, "extra": extra}
    env: dict = {}
    try:
        exec(compile(script, "<C20 history stage>", "exec"), env)  # pylint: disable=exec-used
    except Exception as ex:  # noqa: BLE001
        report.fault(f"C20 history stage could not run: {type(ex).__name__}: {ex}")
        return
    fails = []
    if env["bad"] or env["clash"] or env["dup"]:
        detail = (f"after {K} quantities created in the main thread, {K} in a worker thread and {K} in a pool thread, "
                  f"{env['reader_calls']} calls of reading functions on the constants and {extra} further quantities: "
                  f"{len(env['bad'])} exported constant(s) changed ({'; '.join(env['bad'][:3])}); generated names equal to a "
                  f"constant's name: {env['clash'][:5]}; names generated twice: {env['dup'][:5]}")
        fails.append({"name": "C20/history/fresh-names", "signature": "history", "detail": detail,
                      "replay": {"reproduced": True, "script": script + (
                          "print(len(bad), 'constants changed;', 'clashing names', clash[:5], 'duplicated names', dup[:5])\n"
                          "assert not bad and not clash and not dup, 'C20 history: ' + '; '.join(bad[:3]) + ' clash=' + "
                          "repr(clash[:5]) + ' dup=' + repr(dup[:5])\n")}})
    report.add_bounded(
        "history clause: every exported constant keeps its name, scale factor and dimension, and no generated quantity name is "
        "issued twice or equals a constant's name, after further quantities are created in the main thread, a worker thread and "
        "a pool thread, one caller at a time, and after the public reading functions were applied to every constant (the SI tables are "
        "keyed by the generated name; overlapping callers are a concurrency question outside this family's reach)",
        f"{K} quantities per stage, 3 stages; 9 reading calls (evaluate_quantity, convert_to_si, convert_to, scale_factor, "
        f"Quantity(q), arithmetic, printers) on each constant; {extra} further quantities (thorough tier: 120000); one process",
        len(names), not fails, fails)
    report.function("symplyphysics.core.symbols.id_generator.next_id", PKG / "core" / "symbols" / "id_generator.py",
                    "bounded history clause only")


def _fmt(d):
    return "{" + ", ".join(f"{k}: {v}" for k, v in d.items() if Fr(v) != 0) + "}"


def _within_abs(v: Mono, ref: Mono, tol: Fr):
    """|v - ref| <= tol * pi**ref.k, multiplied through by a positive power of pi so that only pi**n, n >= 0 appear"""
    m = min(v.k, ref.k)

    def z(a, k):
        t = rv(a)
        for _ in range(k - m):
            t = t * PI
        return t
    L, R, Tt = z(v.a, v.k), z(ref.a, ref.k), z(tol, ref.k)
    return z3.And(L - R <= Tt, R - L <= Tt)


def _tol_for(row, label, lit_rel, doc_rel):
    for lab, val, u, pk in row["refs"]:
        if lab == label:
            if doc_rel is not None:
                return doc_rel * val
            c = [10 * Fr(u), lit_rel * val]
            if row["exact"]:
                c.append(val * Fr(1, 10**9))
            return max(c)
    raise KeyError(label)
