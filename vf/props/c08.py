"""C08 -- approximate-equality oracle accepts only same-dimension values in tolerance.

pyvc on core/approx.py: each function gets its STRONGEST postcondition proved from the real AST
(approx_equal_numbers: result <=> |l-r| <= max(rho*|r|, alpha'), ...), callers are checked against callee contracts,
and the clauses of the property are lemmas over those contracts.  rho defaults to 0.001 -- the literal of the
property statement, not read from the code.
"""
from __future__ import annotations

from fractions import Fraction

import z3

from ..core import PKG, Ob, PROVED, REFUTED, try_replay
from ..pyvc import Exec, Ctx, Obj, Opt, NONE, ExcVal, Builtin, TypeRef, Seq, GenError, LoopSpec, verify_function, discharge
from ..contracts import frontend as FE
from ..contracts import model as M
from .. import smt

LEVEL = "proof"
RHO_DEFAULT = Fraction(1, 1000)  # "default 0.1%" -- from the property statement


def A(x):
    return z3.If(x >= 0, x, -x)


def MX(a, b):
    return z3.If(a >= b, a, b)


def opt_real(name):
    return Opt(z3.Bool(name + "_is_none"), z3.Real(name))


def O(x):
    """normalise an Optional[float] argument: callers may pass an Opt, None, or a value known not to be None"""
    if isinstance(x, Opt):
        return x
    if x is NONE:
        return Opt(z3.BoolVal(True), z3.RealVal(0))
    from fractions import Fraction
    if isinstance(x, (int, Fraction)):
        return Opt(z3.BoolVal(False), z3.RealVal(str(Fraction(x))))
    return Opt(z3.BoolVal(False), x)


def rho_of(rt: Opt):
    rt = O(rt)
    return z3.If(rt.is_none, z3.RealVal(RHO_DEFAULT), rt.val)


def numbers_ok(l, r, rt: Opt, at: Opt):
    """strongest postcondition of approx_equal_numbers (spec function)"""
    rt, at = O(rt), O(at)
    rho = rho_of(rt)
    alpha = z3.If(at.is_none, A(l * rho), at.val)
    return A(l - r) <= MX(rho * A(r), alpha)


def tol_pre(rt: Opt, at: Opt):
    rt, at = O(rt), O(at)
    return [z3.Or(rt.is_none, rt.val >= 0), z3.Or(at.is_none, at.val >= 0)]


# ------------------------------------------------------------------------------------------ models
def approx_model(ex, ctx, args, kw):
    FE.assumed("pytest.approx", "x == approx(e, rel=r, abs=a)  <=>  |x - e| <= tol  for finite reals, where (pytest's ApproxScalar.tolerance) "
               "tol = a if r is None and a is given; otherwise max((1e-6 if r is None else r)*|e|, (1e-12 if a is None else a)); "
               "negative tolerances raise ValueError; nan never equal; inf only to itself")
    e = ex.unopt(args[0], ctx)
    rel, ab = O(kw.get("rel", NONE)), O(kw.get("abs", NONE))
    return [(ctx, Obj("approx", {"expected": ex.znum(e), "rel": rel, "abs": ab}))]


def eq_model(ex, l, r):
    if isinstance(r, Obj) and r.cls == "approx":
        l = ex.znum(l)
        e, rel, ab = r.fields["expected"], r.fields["rel"], r.fields["abs"]
        a_eff = z3.If(ab.is_none, z3.RealVal("1e-12"), ab.val)
        r_eff = z3.If(rel.is_none, z3.RealVal("1e-6"), rel.val)
        tol = z3.If(z3.And(rel.is_none, z3.Not(ab.is_none)), a_eff, MX(r_eff * A(e), a_eff))
        return A(l - e) <= tol
    return None


def re_model(ex, ctx, args, kw):
    FE.assumed("sympy.re/im", "re(x), im(x) of a finite SymPy number are its real and imaginary parts")
    v = args[0]
    return [(ctx, M.v_mk(M.v_kind(v), M.Val.re(v), 0))]


def im_model(ex, ctx, args, kw):
    v = args[0]
    return [(ctx, M.v_mk(M.v_kind(v), M.Val.im(v), 0))]


def gate_ok(ls, ld, rs, rd):
    """normal-return condition of assert_equivalent_dimension(lhs_quantity, .., rhs_quantity)  (contract proved in C04)"""
    return z3.Or(M.v_is_any(rs), M.d_anycls(rd), M.v_is_any(ls), M.d_anycls(ld),
                 M.d_equiv(M.d_erase_angle(ld), M.d_erase_angle(rd)))


def gate_contract(ex, ctx, args, kw):
    """assert_equivalent_dimension(arg: Quantity, name, fn, expected: Quantity) -- callee contract (C04)"""
    q, _, _, e = args
    if isinstance(e, Opt):
        e = ex.unopt(e, ctx, "gate-argument")
    if z3.is_expr(e) and e.sort() == M.Dim:
        # expected given as a Dimension object (contract C04, Dimension form: no zero/wildcard escape on the expected side)
        ed = e
        ok = z3.Or(M.v_is_any(q.fields["scale_factor"]), M.d_anycls(q.fields["dimension"]),
                   M.d_equiv(M.d_erase_angle(q.fields["dimension"]), M.d_erase_angle(ed)))
    else:
        ed = e.fields["dimension"]
        ok = gate_ok(q.fields["scale_factor"], q.fields["dimension"], e.fields["scale_factor"], ed)
    typ = z3.And(M.d_is_dimensionless(M.d_erase_angle(q.fields["dimension"])),
                 z3.Not(M.d_is_dimensionless(M.d_erase_angle(ed))))
    res = []
    for cond, val in ((ok, NONE), (z3.And(z3.Not(ok), typ), ExcVal("TypeError")), (z3.And(z3.Not(ok), z3.Not(typ)), ExcVal("UnitsError"))):
        if ex.feasible(ctx, cond):
            res.append((ctx.fork(cond), val))
    return res


def quantity_ctor(ex, ctx, args, kw):
    """Quantity(number, dimension=d) -- callee contract (C05): scale factor = the number, dimension = d or dimensionless.
    Quantity(quantity) is not used on the paths under contract."""
    v = args[0] if args else M.v_fin(1)
    if isinstance(v, Obj) and v.cls == "Quantity":
        raise GenError("Quantity(Quantity) not modelled")
    d = kw.get("dimension", NONE)
    if isinstance(d, Opt):
        dim = z3.If(d.is_none, M.DIMENSIONLESS, d.val)
    elif d is NONE:
        dim = M.DIMENSIONLESS
    else:
        dim = d
    return [(ctx, Obj("Quantity", {"scale_factor": v, "dimension": dim}))]


def isinstance_model(ex, ctx, v, clsname):
    if clsname == "Quantity":
        return isinstance(v, Obj) and v.cls == "Quantity"
    raise GenError(f"isinstance(_, {clsname})")


def attr_model(ex, ctx, base, attr):
    if z3.is_expr(base) and base.sort() == M.Dim and attr == "name":
        return [(ctx, ("__dimname__", base))]
    return None


def N_model(ex, ctx, args, kw):
    return [(ctx, ("__N__", args[0]))]


def mk_exec(contracts=None):
    g = {"approx": Builtin("approx", approx_model), "re": Builtin("re", re_model), "im": Builtin("im", im_model),
         "N": Builtin("N", N_model), "Quantity": TypeRef("Quantity")}
    return FE.make_exec("core/approx.py", "C08", globals_extra=g, contracts=contracts or {}, models={"__eq__": eq_model},
                        isinstance_model=isinstance_model, attr_model=attr_model)


# ------------------------------------------------------------------------------------------ obligations
def quantities_ok(ls, ld, rs, rd, rt, at):
    """spec of approx_equal_quantities on quantities with finite scale factors"""
    return z3.And(numbers_ok(M.Val.im(ls), M.Val.im(rs), rt, at), numbers_ok(M.Val.re(ls), M.Val.re(rs), rt, at))


def obligations():
    obs = []
    execs = []
    # ---------------- approx_equal_numbers: strongest postcondition from the code
    ex = mk_exec()
    l, r = z3.Reals("lhs rhs")
    rt, at = opt_real("relative_tolerance"), opt_real("absolute_tolerance")

    def setup(ex, ctx):
        ctx.assume(*tol_pre(rt, at))
        return [l, r], {"relative_tolerance": rt, "absolute_tolerance": at}, None

    def post(ex, ctx, out, info):
        if out[0] != "return":
            yield "never-raises-on-its-domain", z3.BoolVal(False)
        else:
            yield "result<=>within-max(rho*|rhs|,alpha)", ex.zbool(ex.truth(out[1])) == numbers_ok(l, r, rt, at)

    def conc(m, name):
        g = lambda t: m.eval(t, model_completion=True)
        fr = lambda t: str(g(t).as_fraction()) if z3.is_rational_value(g(t)) else str(g(t).approx(20)).rstrip("?")
        rtv = "None" if z3.is_true(g(rt.is_none)) else f"float(Fraction('{fr(rt.val)}'))"
        atv = "None" if z3.is_true(g(at.is_none)) else f"float(Fraction('{fr(at.val)}'))"
        script = (
            "from fractions import Fraction\nfrom symplyphysics.core.approx import approx_equal_numbers\n"
            f"l, r = float(Fraction('{fr(l)}')), float(Fraction('{fr(r)}'))\nrt, at = {rtv}, {atv}\n"
            "got = approx_equal_numbers(l, r, relative_tolerance=rt, absolute_tolerance=at)\n"
            "rho = 0.001 if rt is None else rt\nalpha = abs(l * rho) if at is None else at\n"
            "want = abs(l - r) <= max(rho * abs(r), alpha)\n"
            "assert got == want, ('approx_equal_numbers', l, r, rt, at, 'returned', got, 'contract says', want)\n")
        return try_replay(script)

    verify_function(ex, "approx_equal_numbers", setup, post, concretize=conc)
    execs.append(ex)

    # ---------------- approx_equal_quantities (callee contracts: approx_equal_numbers, gate, Quantity)
    def numbers_contract(ex, ctx, args, kw):
        a, b = ex.znum(args[0]), ex.znum(args[1])
        rt_, at_ = kw["relative_tolerance"], kw["absolute_tolerance"]
        ex.oblige(f"C08/{ex.current_fn}/callee-pre:approx_equal_numbers-tolerances>=0", ctx, z3.And(tol_pre(rt_, at_)))
        return [(ctx, numbers_ok(a, b, rt_, at_))]

    def q(name):
        s = z3.Const(name + "_scale", M.Val)
        d = z3.Const(name + "_dim", M.Dim)
        return Obj("Quantity", {"scale_factor": s, "dimension": d}), s, d

    for rhs_kind in ("quantity", "number"):
        ex = mk_exec({"approx_equal_numbers": numbers_contract, "assert_equivalent_dimension": gate_contract, "Quantity": quantity_ctor})
        ex.globals["approx_equal_numbers"] = ("__contract__", "approx_equal_numbers")
        ex.globals["assert_equivalent_dimension"] = ("__contract__", "assert_equivalent_dimension")
        lq, ls, ld = q("lhs")
        dimp = Opt(z3.Bool("dimension_is_none"), z3.Const("dimension", M.Dim))
        if rhs_kind == "quantity":
            rq, rs, rd = q("rhs")
        else:
            rs = z3.Const("rhs_number", M.Val)
            rq = rs
            rd = z3.If(dimp.is_none, M.DIMENSIONLESS, dimp.val)

        def setup(ex, ctx, lq=lq, rq=rq, ls=ls, rs=rs, ld=ld, rd=rd, dimp=dimp):
            ctx.assume(*tol_pre(rt, at), M.v_kind(ls) == M.FIN, M.v_kind(rs) == M.FIN, M.d_wf(ld), M.d_wf(rd))
            return [lq, rq], {"relative_tolerance": rt, "absolute_tolerance": at, "dimension": dimp}, None

        def post(ex, ctx, out, info, ls=ls, rs=rs, ld=ld, rd=rd):
            g = gate_ok(ls, ld, rs, rd)
            if out[0] == "return":
                yield "returns=>dimensions-pass-the-gate", g
                yield "result<=>re-and-im-within-tolerance", ex.zbool(ex.truth(out[1])) == quantities_ok(ls, ld, rs, rd, rt, at)
            else:
                yield "raises=>dimensions-inequivalent", z3.Not(g)
                yield "raises-only-Type-or-UnitsError", z3.BoolVal(out[1].cls in ("TypeError", "UnitsError"))

        verify_function(ex, "approx_equal_quantities", setup, post)
        ex.unit_suffix = rhs_kind
        # tag names with the operand shape
        ex.obligations = [(n.replace("approx_equal_quantities/", f"approx_equal_quantities[rhs={rhs_kind}]/"), h, g_, s_, c_)
                          for n, h, g_, s_, c_ in ex.obligations]
        execs.append(ex)

    # ---------------- assert_equal (callee contract: approx_equal_quantities)
    def quantities_contract(ex, ctx, args, kw):
        lq_, rq_ = args
        rt_, at_, dim_ = kw["relative_tolerance"], kw["absolute_tolerance"], kw["dimension"]
        if not (isinstance(rq_, Obj) and rq_.cls == "Quantity"):
            raise GenError("assert_equal passes a non-quantity to approx_equal_quantities")
        ls_, ld_, rs_, rd_ = lq_.fields["scale_factor"], lq_.fields["dimension"], rq_.fields["scale_factor"], rq_.fields["dimension"]
        ex.oblige(f"C08/{ex.current_fn}/callee-pre:approx_equal_quantities-finite-operands", ctx,
                  z3.And(M.v_kind(ls_) == M.FIN, M.v_kind(rs_) == M.FIN))
        gok = gate_ok(ls_, ld_, rs_, rd_)
        typ = z3.And(M.d_is_dimensionless(M.d_erase_angle(ld_)), z3.Not(M.d_is_dimensionless(M.d_erase_angle(rd_))))
        res = []
        for cond, val in ((gok, quantities_ok(ls_, ld_, rs_, rd_, rt_, at_)), (z3.And(z3.Not(gok), typ), ExcVal("TypeError")),
                          (z3.And(z3.Not(gok), z3.Not(typ)), ExcVal("UnitsError"))):
            if ex.feasible(ctx, cond):
                res.append((ctx.fork(cond), val))
        return res

    lemma_inputs = {}
    for lk in ("quantity", "number"):
        for rk in ("quantity", "number"):
            ex = mk_exec({"approx_equal_quantities": quantities_contract, "Quantity": quantity_ctor})
            ex.globals["approx_equal_quantities"] = ("__contract__", "approx_equal_quantities")
            dimp = Opt(z3.Bool("dimension_is_none"), z3.Const("dimension", M.Dim))
            if lk == "quantity":
                lq, ls, ld = q("lhs")
            else:
                ls = z3.Const("lhs_number", M.Val)
                lq, ld = ls, M.DIMENSIONLESS
            if rk == "quantity":
                rq, rs, rd = q("rhs")
            else:
                rs = z3.Const("rhs_number", M.Val)
                rq = rs
                rd = z3.If(dimp.is_none, M.DIMENSIONLESS, dimp.val)
            lemma_inputs[(lk, rk)] = (ls, ld, rs, rd)

            def setup(ex, ctx, lq=lq, rq=rq, ls=ls, rs=rs, ld=ld, rd=rd, dimp=dimp):
                ctx.assume(*tol_pre(rt, at), M.v_kind(ls) == M.FIN, M.v_kind(rs) == M.FIN, M.d_wf(ld), M.d_wf(rd))
                return [lq, rq], {"relative_tolerance": rt, "absolute_tolerance": at, "dimension": dimp}, None

            def post(ex, ctx, out, info, ls=ls, rs=rs, ld=ld, rd=rd):
                ok = z3.And(gate_ok(ls, ld, rs, rd), quantities_ok(ls, ld, rs, rd, rt, at))
                if out[0] == "return":
                    yield "returns<=>gate-passes-and-within-tolerance", ok
                else:
                    yield "raises<=>gate-fails-or-out-of-tolerance", z3.Not(ok)
                    yield "out-of-tolerance-raises-AssertionError;dimension-mismatch-raises-Type/UnitsError", z3.BoolVal(
                        out[1].cls in ("AssertionError", "TypeError", "UnitsError"))
                    if out[1].cls == "AssertionError":
                        yield "AssertionError=>dimensions-were-equivalent", gate_ok(ls, ld, rs, rd)

            verify_function(ex, "assert_equal", setup, post)
            ex.obligations = [(n.replace("assert_equal/", f"assert_equal[lhs={lk},rhs={rk}]/"), h, g_, s_, c_) for n, h, g_, s_, c_ in ex.obligations]
            execs.append(ex)

    # ---------------- assert_equal_vectors: loop over zip(strict=True) with callee contract assert_equal
    def assert_equal_contract(ex, ctx, args, kw):
        lq_, rq_ = args
        rt_, at_ = kw["relative_tolerance"], kw["absolute_tolerance"]
        ls_, ld_, rs_, rd_ = lq_.fields["scale_factor"], lq_.fields["dimension"], rq_.fields["scale_factor"], rq_.fields["dimension"]
        ok = z3.And(gate_ok(ls_, ld_, rs_, rd_), quantities_ok(ls_, ld_, rs_, rd_, rt_, at_))
        res = []
        if ex.feasible(ctx, ok):
            res.append((ctx.fork(ok), NONE))
        if ex.feasible(ctx, z3.Not(ok)):
            res.append((ctx.fork(z3.Not(ok)), ExcVal("AssertionError|TypeError|UnitsError")))
        return res

    comp_s = z3.Function("comp_scale", z3.IntSort(), z3.IntSort(), M.Val)
    comp_d = z3.Function("comp_dim", z3.IntSort(), z3.IntSort(), M.Dim)
    nl, nr = z3.Ints("len_lhs len_rhs")

    def vec(vid, n):
        return Obj("QuantityVector", {"components": Seq(n, lambda i, v=vid: Obj("Quantity", {"scale_factor": comp_s(v, i), "dimension": comp_d(v, i)}), "components")})

    def pair_ok(i):
        return z3.And(gate_ok(comp_s(0, i), comp_d(0, i), comp_s(1, i), comp_d(1, i)),
                      quantities_ok(comp_s(0, i), comp_d(0, i), comp_s(1, i), comp_d(1, i), rt, at))

    allok = z3.Function("all_pairs_ok_upto", z3.IntSort(), z3.BoolSort())  # spec fold: allok(0)=True, allok(k+1)=allok(k) & pair_ok(k)
    loop = LoopSpec(
        init=lambda ex, ctx, seq: {"k_ok": z3.BoolVal(True)},
        inv=lambda ex, ctx, ghost, k, seq: z3.And(ghost["k_ok"], allok(k) == ghost["k_ok"], allok(0)),
        step=lambda ex, ctx, ghost, elem, k, seq: ({"k_ok": z3.And(ghost["k_ok"], pair_ok(k))}, [allok(k + 1) == z3.And(allok(k), pair_ok(k))]),
    )
    ex = mk_exec({"assert_equal": assert_equal_contract})
    ex.globals["assert_equal"] = ("__contract__", "assert_equal")
    ex.loop_specs = {"assert_equal_vectors": {0: loop}}
    dimp = Opt(z3.Bool("dimension_is_none"), z3.Const("dimension", M.Dim))

    def setup(ex, ctx):
        ctx.assume(*tol_pre(rt, at), nl >= 0, nr >= 0, allok(0))
        return [vec(0, nl), vec(1, nr)], {"relative_tolerance": rt, "absolute_tolerance": at, "dimension": dimp}, None

    def post(ex, ctx, out, info):
        if out[0] == "return":
            yield "returns=>equal-lengths", nl == nr
            yield "returns=>every-component-pair-asserted(fold)", allok(nl)
        else:
            g = ctx.ghost.get("in_loop")
            if g is None:
                yield "raises-outside-loop=>lengths-differ", nl != nr
            else:
                ghost_k, ghost_n, k, elem, _ = g
                yield "raises-in-iteration-k=>pair-k-not-ok", z3.Not(pair_ok(k))

    verify_function(ex, "assert_equal_vectors", setup, post)
    execs.append(ex)

    from ..contracts import refimpl
    from ..core import seed as _seed
    conc_default = refimpl.concretizer("approx", _seed())
    for ex in execs:
        ex.obligations = [(n, h, g_, s_, c_ or conc_default) for n, h, g_, s_, c_ in ex.obligations]
        obs.extend(discharge(ex, "C08"))

    # ---------------- lemmas over the contracts: the clauses of the property statement
    ls, rs = z3.Const("lhs_scale", M.Val), z3.Const("rhs_scale", M.Val)
    ld, rd = z3.Const("lhs_dim", M.Dim), z3.Const("rhs_dim", M.Dim)
    lre, lim, rre, rim = M.Val.re(ls), M.Val.im(ls), M.Val.re(rs), M.Val.im(rs)
    rho = rho_of(rt)
    pre = tol_pre(rt, at) + [M.v_kind(ls) == M.FIN, M.v_kind(rs) == M.FIN, M.d_wf(ld), M.d_wf(rd)]
    OK = z3.And(gate_ok(ls, ld, rs, rd), quantities_ok(ls, ld, rs, rd, rt, at))  # assert_equal returns <=> OK (proved above)
    alpha_stated = z3.If(at.is_none, z3.RealVal(0), at.val)

    def bound(l_, r_):
        return MX(alpha_stated, rho * MX(A(l_), A(r_)))

    lem = [
        ("fails-when-dimensions-inequivalent", pre + [z3.Not(gate_ok(ls, ld, rs, rd))], z3.Not(OK)),
        ("fails-when-real-parts-differ-by-more-than-max(abs,rel*larger-magnitude)", pre + [A(lre - rre) > bound(lre, rre)], z3.Not(OK)),
        ("fails-when-imaginary-parts-differ-by-more-than-max(abs,rel*larger-magnitude)", pre + [A(lim - rim) > bound(lim, rim)], z3.Not(OK)),
        ("passes-within-stated-absolute-tolerance", pre + [gate_ok(ls, ld, rs, rd), z3.Not(at.is_none), A(lre - rre) <= at.val, A(lim - rim) <= at.val], OK),
        ("passes-within-stated-relative-tolerance", pre + [gate_ok(ls, ld, rs, rd), A(lre - rre) <= rho * A(rre), A(lim - rim) <= rho * A(rim)], OK),
        ("default-relative-tolerance-is-0.1-percent", pre + [rt.is_none, at.is_none, gate_ok(ls, ld, rs, rd), lim == 0, rim == 0, rre == 1000, lre == 1001], OK),
        ("default-relative-tolerance-is-not-looser", pre + [rt.is_none, at.is_none, lim == 0, rim == 0, rre == 1000, lre == z3.RealVal("1001.002")], z3.Not(OK)),
    ]
    OK_swapped = z3.And(gate_ok(rs, rd, ls, ld), quantities_ok(rs, rd, ls, ld, rt, at))
    lem.append(("symmetric-without-absolute-tolerance", pre + [at.is_none], OK == OK_swapped))
    for nm, hyps, goal in lem:
        ob, _ = smt.prove(f"C08/lemma/{nm}", hyps, goal)
        obs.append(ob)
    return execs, obs


def run(report):
    from ..pyvc import GenError as _GenError
    from ..contracts import refimpl as _refimpl
    from ..core import seed as _seed
    try:
        _run(report)
    except Exception as e:  # the code left the modelled subset: fault + executable-contract search (a real disagreement is a violation)
        _refimpl.generation_fallback(report, "approx", "C08", f"{type(e).__name__}: {e}", _seed())


def _run(report):
    execs, obs = obligations()
    report.extend(obs)
    src = PKG / "core/approx.py"
    for f in ("approx_equal_numbers", "approx_equal_quantities", "assert_equal", "assert_equal_vectors"):
        report.function(f"symplyphysics.core.approx.{f}", src)
    report.extra["inlined_closures"] = sorted(set().union(*[e.inlined for e in execs]))
    report.extra["callee_contracts_used"] = sorted(set().union(*[e.used_contracts for e in execs]))
    report.extra["library_models_used"] = sorted(set().union(*[e.used_models for e in execs]))
    from . import c04 as _c04
    _c04.shared_callee_obligations(report, "C08")
    from ..contracts import audit
    audit.run(report)
    # executable contract of assert_equal / approx_equal_quantities on the real functions (bounded audit of the model)
    from ..contracts import refimpl as _ri
    t_, why_, n_ = _ri.search_approx(reduced=report.tier != "thorough")
    fails_ = [] if t_ is None else [{"name": "C08/audit/approx/first-disagreement", "detail": why_, "signature": str(t_),
                                     "replay": {"reproduced": True, "script": f"from vf.contracts.refimpl import replay_approx\nreplay_approx({t_!r})\n"}}]
    report.add_bounded("executable C08 contract (statement of the property) vs the real assert_equal and approx_equal_quantities on a pool of real/complex quantities, "
                       "bare numbers, boundary-straddling pairs, tolerances and dimensions", "19 operands squared x tolerances x dimensions" + (" (default tolerances, 2 dimensions)" if report.tier != "thorough" else ""),
                       n_, t_ is None, fails_)
    report.trust("CPython 3.12 (subset of DESIGN 3.A)", "z3 5.1 / cvc5 1.4", "pytest.approx (assumed contract, audited)",
                 "contracts of assert_equivalent_dimension (C04) and Quantity(number, dimension=) (C05)")
    report.assume(*[f"{k}: {v}" for k, v in FE.ASSUMED.items()])
    report.assume("floats are treated as mathematical reals", "scale factors are finite numbers (infinite / NaN operands are outside the contract)",
                  "verdict depends on the operands only through (scale_factor, dimension): any other attribute access is a generation error",
                  "the assertion message (f-string) is dropped by the extraction")
