"""C14 -- coordinate-free vector algebra simplification preserves value in R^3.

Contract on each evaluating constructor (VectorNorm/Dot/Cross/MixedProduct.__new__ and the _eval_* rules they
dispatch to) and on each _eval_derivative:   sem(result) == op_R3(sem(arg_1), ..)   for all real assignments,
where sem is the R^3 semantics of vf/vecsem.py.  Discharged on most-general argument templates, under ALL relative
identity orders of the vector symbols involved (the rewrite rules order operands by id()).
sort_with_sign is checked exhaustively over all weak orderings of up to 4 keys.
"""
from __future__ import annotations

import os

import itertools

import sympy as sp

from ..symx import Law, Case, run_laws
from ..core import PKG, Ob, PROVED, REFUTED
from ..vecsem import Env, sem, dot3, cross3, _asvec
from .c12 import canon

LEVEL = "proof"
MOD = "vf.props.c14"
F = "symplyphysics.core.experimental.vectors."


def _V():
    from symplyphysics.core.experimental import vectors as V
    return V


# ---------------------------------------------------------------------------------------- templates
# each template: (name, n_symbols, n_scalars, build(V, s, k, t, fns))
def _templates(full: bool):
    T = [
        ("a", 1, 0, lambda V, s, k, t, f: s[0]),
        ("k*a", 1, 1, lambda V, s, k, t, f: k[0] * s[0]),
        ("k0*a+k1*b", 2, 2, lambda V, s, k, t, f: k[0] * s[0] + k[1] * s[1]),
        ("cross(a,b)", 2, 0, lambda V, s, k, t, f: V.VectorCross(s[0], s[1])),
        ("k0*cross(a,b)+k1*c", 3, 2, lambda V, s, k, t, f: k[0] * V.VectorCross(s[0], s[1]) + k[1] * s[2]),
        ("0", 0, 0, lambda V, s, k, t, f: sp.S.Zero),
        ("f(t)", 0, 0, lambda V, s, k, t, f: f[0](t)),
    ]
    if full:
        T += [
            ("a+b", 2, 0, lambda V, s, k, t, f: s[0] + s[1]),
            ("-a", 1, 0, lambda V, s, k, t, f: -s[0]),
            ("cross(cross(a,b),c)", 3, 0, lambda V, s, k, t, f: V.VectorCross(V.VectorCross(s[0], s[1]), s[2])),
            ("dot(a,b)*c", 3, 0, lambda V, s, k, t, f: V.VectorDot(s[0], s[1]) * s[2]),
            ("k0*f(t)+k1*a", 1, 2, lambda V, s, k, t, f: k[0] * f[0](t) + k[1] * s[0]),
            ("a/norm(a)", 1, 0, lambda V, s, k, t, f: s[0] / V.VectorNorm(s[0])),
        ]
    return T


MAPS_Q = [(0, 1, 2), (1, 0, 2), (2, 3, 0), (0, 2, 3), (3, 2, 1)]
MAPS_T = MAPS_Q + [(1, 2, 0), (2, 0, 1), (3, 0, 1), (2, 1, 0)]


def _orders(n_used):
    return list(itertools.permutations(range(n_used)))


def _pool(V, order, n=4, name=None):
    """n fresh vector symbols; role i is the symbol whose id() has rank order[i] among the used ones.
    name: all symbols get this same display name (they are still distinct vectors)"""
    syms = [V.VectorSymbol(name) if name else V.VectorSymbol() for _ in range(n)]
    by_id = sorted(syms, key=id)
    return by_id


def _mk_case(op, tx, ty, tz, mapy, mapz, order, g, full, name=None):
    V = _V()
    T = dict((n, (ns, nk, b)) for n, ns, nk, b in _templates(True))
    by_id = _pool(V, order, name=name)
    used = sorted(set(list(range(T[tx][0])) + [mapy[i] for i in range(T[ty][0])] +
                      ([mapz[i] for i in range(T[tz][0])] if tz else [])))
    # role r (r in used) -> symbol with id-rank order[index of r]
    role = {r: by_id[order[i]] for i, r in enumerate(used)}
    env = Env(g)
    for r, s in role.items():
        env.names[s] = f"s{r}"
    t = g.sym("t")
    fX, fY, fZ = V.VectorFunction("fX"), V.VectorFunction("fY"), V.VectorFunction("fZ")
    env.names[fX], env.names[fY], env.names[fZ] = "fX", "fY", "fZ"
    kx = [g.sym("k0"), g.sym("k1")]
    ky = [g.sym("k2"), g.sym("k3")]
    kz = [g.sym("k4"), g.sym("k5")]
    X = T[tx][2](V, [role.get(i) for i in range(3)], kx, t, [fX])
    Y = T[ty][2](V, [role.get(mapy[i]) for i in range(3)], ky, t, [fY])
    Z = T[tz][2](V, [role.get(mapz[i]) for i in range(3)], kz, t, [fZ]) if tz else None
    return V, env, t, X, Y, Z


def _vres(a, b):
    return [canon(x - y) for x, y in zip(a, b)]


def laws():
    import os
    full = os.environ.get("VERIF_TIER", "quick") == "thorough"
    V = _V()
    Tq = [n for n, *_ in _templates(False)]
    Tall = [n for n, *_ in _templates(full)]
    nsym = {n: ns for n, ns, _, _ in _templates(True)}
    maps = MAPS_T if full else MAPS_Q
    out = []

    def law(name, shapes, fns, backend="auto"):
        def deco(f):
            # degenerate-point executions cost ~75 s on the 3700 obligations of this property: thorough tier only
            out.append(Law(name, shapes, f, functions=[F + x for x in fns], backend=backend, timeout_s=30,
                           degenerate=os.environ.get("VERIF_TIER", "quick") == "thorough"))
            return f
        return deco

    def shapes2():
        res = []
        for tx in Tall:
            for ty in Tall:
                seen = set()
                for m in maps:
                    key = tuple(m[:nsym[ty]])
                    if key in seen:
                        continue
                    seen.add(key)
                    used = sorted(set(list(range(nsym[tx])) + list(key)))
                    for o in _orders(len(used)):
                        res.append((tx, ty, m, o))
        return res

    S2 = shapes2()

    @law("VectorDot.__new__/value-is-dot-product-of-operand-values", S2,
         ["VectorDot.__new__", "VectorCross._eval_vector_dot", "_ordered_mul", "into_terms", "split_factor"])
    def _(s, g):
        V, env, t, X, Y, _ = _mk_case("dot", s[0], s[1], None, s[2], None, s[3], g, full)
        R = V.VectorDot(X, Y)
        got = sem(R, env)[1]
        want = dot3(_asvec(*sem(X, env)), _asvec(*sem(Y, env)))
        return Case([canon(got - want)], assume=_nz(X, Y, env=env))

    @law("VectorCross.__new__/value-is-cross-product-of-operand-values", S2,
         ["VectorCross.__new__", "VectorCross._eval_vector_cross", "_ordered_mul", "into_terms", "split_factor"])
    def _(s, g):
        V, env, t, X, Y, _ = _mk_case("cross", s[0], s[1], None, s[2], None, s[3], g, full)
        R = V.VectorCross(X, Y)
        got = _asvec(*sem(R, env))
        want = cross3(_asvec(*sem(X, env)), _asvec(*sem(Y, env)))
        return Case(_vres(got, want), assume=_nz(X, Y, env=env))

    def _nz(*exprs, env):
        # templates dividing by a norm are only defined for non-zero vectors
        res = []
        for e in exprs:
            if e is None:
                continue
            for n in sp.sympify(e).atoms(V.VectorNorm):
                if sp.sympify(e).has(1 / n):
                    res.append(sp.Gt(sem(n, env)[1] ** 2, 0))
        return res

    S1 = [(tx, o) for tx in Tall for o in _orders(max(1, nsym[tx]))]

    @law("VectorNorm.__new__/value-is-euclidean-norm-of-operand-value", S1, ["VectorNorm.__new__", "split_factor"])
    def _(s, g):
        V, env, t, X, _, _ = _mk_case("norm", s[0], "0", None, (0, 1, 2), None, s[1] + tuple(range(len(s[1]), 4))[:0], g, full)
        R = V.VectorNorm(X)
        got = sem(R, env)[1]
        x = _asvec(*sem(X, env))
        return Case([canon(got - sp.sqrt(dot3(x, x)))], assume=_nz(X, env=env))

    # mixed product: three operands; quick tier uses the templates that reach each branch
    T3 = ["a", "k0*a+k1*b", "cross(a,b)", "f(t)"] if not full else ["a", "k*a", "k0*a+k1*b", "cross(a,b)", "0", "f(t)"]
    M3 = [((0, 1, 2), (0, 1, 2)), ((1, 2, 0), (2, 0, 1)), ((1, 0, 2), (2, 3, 0)), ((2, 3, 0), (3, 0, 1))]

    def shapes3():
        res = []
        for tx in T3:
            for ty in T3:
                for tz in T3:
                    seen = set()
                    for my, mz in M3:
                        key = (tuple(my[:nsym[ty]]), tuple(mz[:nsym[tz]]))
                        if key in seen:
                            continue
                        seen.add(key)
                        used = sorted(set(list(range(nsym[tx])) + list(key[0]) + list(key[1])))
                        ords = _orders(len(used))
                        if not full and len(ords) > 6:
                            ords = ords[::4]  # quick tier: every 4th of the 24 orders; thorough: all
                        for o in ords:
                            res.append((tx, ty, tz, my, mz, o))
        return res

    @law("VectorMixedProduct.__new__/value-is-scalar-triple-product-of-operand-values", shapes3(),
         ["VectorMixedProduct.__new__", "_ordered_mul", "VectorDot.__new__", "VectorCross.__new__"])
    def _(s, g):
        V, env, t, X, Y, Z = _mk_case("mixed", s[0], s[1], s[2], s[3], s[4], s[5], g, full)
        R = V.VectorMixedProduct(X, Y, Z)
        got = sem(R, env)[1]
        x, y, z = (_asvec(*sem(e, env)) for e in (X, Y, Z))
        return Case([canon(got - dot3(x, cross3(y, z)))])


    # ------------------------------------------------------------------ distinct vectors that share a display name
    TN = ["a", "k0*a+k1*b", "cross(a,b)"]
    SN = [sh for sh in S2 if sh[0] in TN and sh[1] in TN]

    @law("same-display-name/dot-and-cross-of-distinct-vectors-named-alike", [(op,) + sh for op in ("dot", "cross") for sh in SN],
         ["VectorDot.__new__", "VectorCross.__new__", "_ordered_mul", "VectorSymbol._hashable_content"])
    def _(s, g):
        op = s[0]
        V, env, t, X, Y, _ = _mk_case(op, s[1], s[2], None, s[3], None, s[4], g, full, name="r")
        if op == "dot":
            got = sem(V.VectorDot(X, Y), env)[1]
            return Case([canon(got - dot3(_asvec(*sem(X, env)), _asvec(*sem(Y, env))))])
        got = _asvec(*sem(V.VectorCross(X, Y), env))
        return Case(_vres(got, cross3(_asvec(*sem(X, env)), _asvec(*sem(Y, env)))))

    @law("same-display-name/mixed-product-of-distinct-vectors-named-alike", [o for o in _orders(3)],
         ["VectorMixedProduct.__new__", "_ordered_mul", "VectorSymbol._hashable_content"])
    def _(s, g):
        V, env, t, X, Y, Z = _mk_case("mixed", "a", "a", "a", (1, 0, 2), (2, 0, 1), s, g, full, name="r")
        got = sem(V.VectorMixedProduct(X, Y, Z), env)[1]
        x, y, z = (_asvec(*sem(e, env)) for e in (X, Y, Z))
        return Case([canon(got - dot3(x, cross3(y, z)))])

    # ------------------------------------------------------------------ scalar-valued vector expressions inside scalar functions:
    # the assumptions (sign, reality) that the vector scalars declare to SymPy must be true of their values, otherwise
    # SymPy's own simplifications (abs, sqrt of a square, the |factor| pulled out of a norm) change the value
    SC_E = ["dot(a,b)", "mixed(a,b,c)", "norm(a)", "dot(a,a)", "dot(a,cross(b,c))", "k0*mixed(a,b,c)"]
    SC_C = ["abs", "sqrt-of-square", "norm-of-scalar-multiple", "sign-times-abs", "max-with-zero"]

    @law("scalar-context/sympy-simplification-under-declared-assumptions-preserves-value",
         [(e_, c_, o) for e_ in SC_E for c_ in SC_C for o in _orders(3)],
         ["VectorDot", "VectorMixedProduct", "VectorNorm", "VectorNorm.__new__", "split_factor"], backend="z3")
    def _(s, g):
        e_, c_, o = s
        V = _V()
        by_id = _pool(V, o)
        a, b, c = (by_id[o[i]] for i in range(3))
        d = by_id[3]
        env = Env(g)
        for i, v in enumerate((a, b, c, d)):
            env.names[v] = f"s{i}"
        k0 = g.sym("k0")
        E = {"dot(a,b)": lambda: V.VectorDot(a, b), "mixed(a,b,c)": lambda: V.VectorMixedProduct(a, b, c), "norm(a)": lambda: V.VectorNorm(a),
             "dot(a,a)": lambda: V.VectorDot(a, a), "dot(a,cross(b,c))": lambda: V.VectorDot(a, V.VectorCross(b, c)),
             "k0*mixed(a,b,c)": lambda: k0 * V.VectorMixedProduct(a, b, c)}[e_]()
        ev = sem(E, env)[1]
        dv = _asvec(*sem(d, env))
        if c_ == "abs":
            R, want = sp.Abs(E), sp.Abs(ev)
        elif c_ == "sqrt-of-square":
            R, want = sp.sqrt(E**2), sp.Abs(ev)
        elif c_ == "norm-of-scalar-multiple":
            R, want = V.VectorNorm(E * d), sp.Abs(ev) * sp.sqrt(dot3(dv, dv))
        elif c_ == "sign-times-abs":
            R, want = sp.sign(E) * sp.Abs(E), ev
        else:
            R, want = sp.Max(E, 0) - sp.Max(-E, 0), ev
        got = sem(R, env)[1]
        return Case([got - want])

    # ------------------------------------------------------------------ derivatives: product rule, termination
    DT = ["f(t)", "k(t)*f(t)", "f(t)+k(t)*a", "cross(f(t),g(t))", "a", "dot(f,g)*h"]

    def dtemplate(name, V, s, t, fs, kf):
        f, gg, h = fs
        return {
            "f(t)": lambda: f(t),
            "k(t)*f(t)": lambda: kf * f(t),
            "f(t)+k(t)*a": lambda: f(t) + kf * s[0],
            "cross(f(t),g(t))": lambda: V.VectorCross(f(t), gg(t)),
            "a": lambda: s[1],
            "dot(f,g)*h": lambda: V.VectorDot(f(t), gg(t)) * h(t),
        }[name]()

    DS = [(op, tx, ty, o, order) for order in (1, 2) for op in (("norm", "norm-held", "dot", "cross", "mixed", "scale", "sum") if order == 1 else ("dot", "cross", "mixed", "scale", "sum"))
          for tx in ((DT[:5] if op == "norm-held" else DT) if order == 1 else DT[:4]) for ty in ((DT if order == 1 else DT[:3]) if op in ("dot", "cross", "mixed", "sum") else ["a"]) for o in ((0, 1), (1, 0))]

    @law("_eval_derivative/derivative-of-value-equals-value-of-derivative(orders-1-and-2)", DS,
         ["VectorNorm._eval_derivative", "VectorDot._eval_derivative", "VectorCross._eval_derivative",
          "VectorMixedProduct._eval_derivative", "AppliedVectorFunction._eval_derivative", "VectorSymbol._eval_derivative",
          "VectorDerivative.__new__", "vector_diff"])
    def _(s, g):
        op, tx, ty, o, order = s
        V = _V()
        pool = sorted([V.VectorSymbol(), V.VectorSymbol()], key=id)
        sy = [pool[o[0]], pool[o[1]]]
        env = Env(g)
        env.names[sy[0]], env.names[sy[1]] = "s0", "s1"
        t = g.var("t")
        fs1 = [V.VectorFunction("f1"), V.VectorFunction("g1"), V.VectorFunction("h1")]
        fs2 = [V.VectorFunction("f2"), V.VectorFunction("g2"), V.VectorFunction("h2")]
        for i, fn in enumerate(fs1 + fs2):
            env.names[fn] = f"F{i}"
        kf = g.fun("kf", [t])
        X = dtemplate(tx, V, sy, t, fs1, kf)
        Y = dtemplate(ty, V, sy, t, fs2, g.fun("kg", [t]))
        W = fs2[2](t)
        # norm-held: a norm kept unevaluated (evaluate=False) and evaluated "on request" by the derivative; the template
        # dot(f,g)*h is left out for it (both solvers time out on the unchanged tree: undecided, out of reach)
        E = {"norm": lambda: V.VectorNorm(X), "norm-held": lambda: V.VectorNorm(X, evaluate=False), "dot": lambda: V.VectorDot(X, Y), "cross": lambda: V.VectorCross(X, Y),
             "mixed": lambda: V.VectorMixedProduct(X, Y, W), "scale": lambda: kf * X, "sum": lambda: X + Y}[op]()
        D = sp.sympify(E).diff(t, order)
        kd, d = sem(D, env)
        ke, e = sem(E, env)
        assume = []
        if op in ("norm", "norm-held"):
            x = _asvec(*sem(X, env))
            assume = [sp.Gt(dot3(x, x), 0)]
        if ke == "v" or kd == "v":
            return Case(_vres(_asvec(kd, d), [sp.diff(c, t, order) for c in _asvec(ke, e)]), assume=assume)
        return Case([canon(d - sp.diff(e, t, order))], assume=assume)

    # vector functions DECLARED with formal arguments but applied to another parameter: r = VectorFunction("r", arguments=(tau,)); r(t)
    # depends on t, whatever the declaration names
    @law("_eval_derivative/function-declared-with-formal-arguments-applied-to-another-parameter",
         [(op, tx) for op in ("plain", "scale", "dot", "cross", "norm", "sum") for tx in ("f(t)",)],  # f(2*t) / f(t, t): the library raises NotImplementedError (VectorSubs), nothing to judge
         ["AppliedVectorFunction._eval_derivative", "VectorDot._eval_derivative", "VectorCross._eval_derivative", "VectorNorm._eval_derivative"])
    def _(s, g):
        op, tx = s
        V = _V()
        t = g.var("t")
        tau, sig = sp.Symbol("tau", real=True), sp.Symbol("sigma", real=True)
        if tx == "f(t,t)":
            f1 = V.VectorFunction("f1", arguments=(tau, sig))
            X = f1(t, t)
        else:
            f1 = V.VectorFunction("f1", arguments=(tau,))
            X = f1(t) if tx == "f(t)" else f1(2 * t)
        g2 = V.VectorFunction("g2", arguments=(tau,))
        Y = g2(t)
        env = Env(g)
        env.names[f1], env.names[g2] = "F0", "F1"
        kf = g.fun("kf", [t])
        E = {"plain": lambda: X, "scale": lambda: kf * X, "dot": lambda: V.VectorDot(X, Y), "cross": lambda: V.VectorCross(X, Y),
             "norm": lambda: V.VectorNorm(X), "sum": lambda: X + Y}[op]()
        D = sp.sympify(E).diff(t)
        kd, d = sem(D, env)
        ke, e = sem(E, env)
        assume = []
        if op == "norm":
            x = _asvec(*sem(X, env))
            assume = [sp.Gt(dot3(x, x), 0)]
        if ke == "v" or kd == "v":
            return Case(_vres(_asvec(kd, d), [sp.diff(c, t) for c in _asvec(ke, e)]), assume=assume)
        return Case([canon(d - sp.diff(e, t))], assume=assume)

    return out


def sort_with_sign_obligations():
    """Exhaustive over all weak orderings of up to 4 keys (the function sees keys only through comparisons)."""
    from symplyphysics.core.experimental.miscellaneous import sort_with_sign
    from sympy.combinatorics.permutations import Permutation
    obs = []
    for n in range(0, 5):
        for keys in itertools.product(range(n), repeat=n) if n else [()]:
            # canonical representative of the weak ordering: ranks must be "dense"
            if sorted(set(keys)) != list(range(len(set(keys)))):
                continue
            items = [(k, i) for i, k in enumerate(keys)]  # distinguishable items with possibly equal keys
            sign, res = sort_with_sign(items, key=lambda it: it[0])
            ok = [it[0] for it in res] == sorted(keys)
            distinct = len(set(keys)) == len(keys)
            if distinct:
                ok = ok and sorted(res) == sorted(items)
                perm = [items.index(it) for it in res]
                inv = sum(1 for i in range(n) for j in range(i + 1, n) if perm[i] > perm[j])
                ok = ok and sign == (1 if inv % 2 == 0 else -1)
            else:
                ok = ok and sign == 0
            obs.append(Ob(f"C14/miscellaneous.sort_with_sign/sorted-permutation-and-signature/keys{keys}",
                          PROVED if ok else REFUTED, "exec-exhaustive", 0.0,
                          "" if ok else f"sort_with_sign({items}) -> {(sign, res)}", str(keys),
                          None if ok else {"reproduced": True, "script":
                                           "from symplyphysics.core.experimental.miscellaneous import sort_with_sign\n"
                                           f"r = sort_with_sign({items!r}, key=lambda it: it[0])\n"
                                           f"assert False, ('sort_with_sign gives', r, 'for keys', {keys!r})\n"}))
    return obs


def run(report):
    ls = laws()
    src = PKG / "core/experimental/vectors/__init__.py"
    for l in ls:
        for f in l.functions:
            report.function(f, src)
    report.function("symplyphysics.core.experimental.miscellaneous.sort_with_sign", PKG / "core/experimental/miscellaneous.py")
    run_laws(report, MOD, ls, "C14")
    report.extend(sort_with_sign_obligations())
    report.extra["shape_rule"] = ("operand templates x symbol-sharing maps x ALL relative id() orders of the vector symbols "
                                  "used (mixed product in the quick tier: every 4th order when 4 symbols are involved); "
                                  "sort_with_sign: all weak orderings of 0..4 keys")
    report.add_out_of_reach("sums with unboundedly many terms per operand / unbounded nesting depth",
                            "needs an inductive invariant of _ordered_mul over itertools.product; templates have <= 2 terms per operand")
    report.trust("CPython 3.12 (sorted, id)", "SymPy 1.14: expand/together/Add/Mul on commutative scalars, diff, cacheit",
                 "sympy.polys for nf", "z3 5.1 / cvc5 1.4", "R^3 semantics vf/vecsem.py written from the definitions")
    report.assume("vector symbols denote real 3-vectors, vector functions triples of differentiable real functions",
                  "templates are most-general per rewrite branch; each is proved for all real assignments")
