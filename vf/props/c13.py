"""C13 -- circulation and flux integrals satisfy Stokes', Green's and Gauss' theorems.

Clauses relating the real functions of core/fields/analysis.py pairwise (both sides computed by the real code), on a
stated family: fields = every monomial c*x^i*y^j*z^k (total degree <= D) in every component, symbolic c (by
bilinearity of dot_vectors -- C10 -- and linearity of integrate this spans all polynomial fields of degree <= D), plus a
few trigonometric fields on rectangles/boxes; regions with symbolic shape parameters.  D = 2 (quick) / 3 (thorough).
The results are polynomial in the coefficients and shape parameters: equality is decided by nf / z3 for all values.
"""
from __future__ import annotations

import itertools
import os

import sympy as sp
from sympy import sin, cos, pi

from ..symx import Law, Case, run_laws
from ..core import PKG

LEVEL = "proof"
MOD = "vf.props.c13"
F = "symplyphysics.core."


def _api():
    from symplyphysics.core.fields import analysis as AN
    from symplyphysics.core.fields.vector_field import VectorField
    from symplyphysics.core.coordinate_systems.coordinate_systems import CoordinateSystem
    return AN, VectorField, CoordinateSystem


def monomials(nvars, deg):
    return [e for e in itertools.product(range(deg + 1), repeat=nvars) if sum(e) <= deg]


def laws():
    AN, VectorField, CS = _api()
    deg = 3 if os.environ.get("VERIF_TIER", "quick") == "thorough" else 2
    out = []
    FN = ["fields.analysis.circulation_along_curve", "fields.analysis.circulation_along_surface_boundary",
          "fields.analysis.flux_across_curve", "fields.analysis.flux_across_surface", "fields.analysis.flux_across_surface_boundary",
          "fields.analysis.flux_across_volume_boundary", "geometry.elements.parametrized_curve_element",
          "geometry.elements.parametrized_curve_element_magnitude", "geometry.elements.volume_element_magnitude",
          "geometry.normals.parametrized_curve_normal", "geometry.normals.parametrized_surface_normal"]

    def law(name, shapes, fns=FN, backend="auto"):
        def deco(f):
            out.append(Law(name, shapes, f, functions=[F + x for x in fns], backend=backend, timeout_s=40))
            return f
        return deco

    def field3(g, comp, e, C, trig=False, ncomp=3):
        c = g.sym("c")

        def fn(p):
            v = [sp.S.Zero] * ncomp
            if trig:
                v[comp] = c * sin(e[0] * p.x + e[1] * p.y) * cos(e[2] * p.z) + p.x * p.y
            else:
                v[comp] = c * p.x**e[0] * p.y**e[1] * p.z**e[2]
            return v
        return VectorField(fn, C)

    def field2(g, comp, e, C, trig=False):
        c = g.sym("c")

        def fn(p):
            v = [sp.S.Zero] * 2
            if trig:
                v[comp] = c * sin(e[0] * p.x) * cos(e[1] * p.y) + p.x * p.y
            else:
                v[comp] = c * p.x**e[0] * p.y**e[1] * (p.z**e[2] if len(e) > 2 else 1)
            return v
        return VectorField(fn, C)

    def free_of(expr, syms):
        """residuals asserting `expr` is free of the given variables (derivative wrt each must vanish identically)"""
        return [sp.diff(expr, s) for s in syms if sp.sympify(expr).has(s)]

    M3 = [(m, e) for m in range(3) for e in monomials(3, deg)]
    M2 = [(m, e) for m in range(2) for e in monomials(2, deg)]
    # planar fields written with a z-dependence (the planar region sits at z = 0: missing coordinates count as zero)
    M2z = [(m, e) for m in range(2) for e in monomials(3, deg) if e[2] >= 1]

    # ------------------------------------------------------------------ Stokes
    @law("circulation_along_curve==circulation_along_surface_boundary/stokes-on-ellipse-capped-by-paraboloid",
         [(m, e, 3) for m, e in M3] + [(m, e, 2) for m, e in M3 if m < 2 and e[2] > 0])
    def _(s, g):
        C = CS(CS.System.CARTESIAN)
        fld = field3(g, s[0], s[1], C, ncomp=s[2])
        a, b = g.sym("a", positive=True), g.sym("b", positive=True)
        cx, cy, h = g.sym("cx"), g.sym("cy"), g.sym("h")
        t, rho, phi = g.var("t"), g.var("rho"), g.var("phi")
        curve = [cx + a * cos(t), cy + b * sin(t), 0]
        surface = [cx + a * rho * cos(phi), cy + b * rho * sin(phi), h * (1 - rho**2)]
        lhs = AN.circulation_along_curve(fld, curve, (t, 0, 2 * pi))
        rhs = AN.circulation_along_surface_boundary(fld, surface, (rho, 0, 1), (phi, 0, 2 * pi))
        xyz = list(C.coord_system.base_scalars())
        return Case([lhs - rhs] + free_of(lhs, [t] + xyz) + free_of(rhs, [rho, phi] + xyz))

    def rect_boundary(x0, x1, y0, y1, u):
        return [([x0 + (x1 - x0) * u, y0], "bottom"), ([x1, y0 + (y1 - y0) * u], "right"),
                ([x1 - (x1 - x0) * u, y1], "top"), ([x0, y1 - (y1 - y0) * u], "left")]

    @law("circulation_along_curve==circulation_along_surface_boundary/stokes-on-rectangle",
         [(m, e, tr) for m, e in M3 for tr in (False,)] + [(m, (1, 2, 1), True) for m in range(3)])
    def _(s, g):
        C = CS(CS.System.CARTESIAN)
        fld = field3(g, s[0], s[1], C, s[2])
        x0, y0 = g.sym("x0"), g.sym("y0")
        w, hh = g.sym("w", positive=True), g.sym("hh", positive=True)
        x1, y1 = x0 + w, y0 + hh
        u, v = g.var("u"), g.var("v")
        z0 = g.sym("z0")
        lhs = sum(AN.circulation_along_curve(fld, seg + [z0], (u, 0, 1)) for seg, _ in rect_boundary(x0, x1, y0, y1, u))
        surface = [x0 + w * u, y0 + hh * v, z0]
        rhs = AN.circulation_along_surface_boundary(fld, surface, (u, 0, 1), (v, 0, 1))
        xyz = list(C.coord_system.base_scalars())
        return Case([lhs - rhs] + free_of(lhs, [u] + xyz) + free_of(rhs, [u, v] + xyz))

    # ------------------------------------------------------------------ Green (divergence form)
    @law("flux_across_curve==flux_across_surface_boundary/green-on-ellipse", [(m, e, o) for m, e in M2 for o in ("rho-phi", "phi-rho")] + [(m, e, "rho-phi") for m, e in M2z])
    def _(s, g):
        C = CS(CS.System.CARTESIAN)
        fld = field2(g, s[0], s[1], C)
        a, b = g.sym("a", positive=True), g.sym("b", positive=True)
        cx, cy = g.sym("cx"), g.sym("cy")
        t, rho, phi = g.var("t"), g.var("rho"), g.var("phi")
        curve = [cx + a * cos(t), cy + b * sin(t)]
        surface = [cx + a * rho * cos(phi), cy + b * rho * sin(phi)]
        lhs = AN.flux_across_curve(fld, curve, (t, 0, 2 * pi))
        # the region integral does not depend on the order in which the two parameters of the region are listed
        if s[2] == "rho-phi":
            rhs = AN.flux_across_surface_boundary(fld, surface, (rho, 0, 1), (phi, 0, 2 * pi))
        else:
            rhs = AN.flux_across_surface_boundary(fld, surface, (phi, 0, 2 * pi), (rho, 0, 1))
        xyz = list(C.coord_system.base_scalars())
        return Case([lhs - rhs] + free_of(lhs, [t] + xyz) + free_of(rhs, [rho, phi] + xyz))

    @law("flux_across_curve==flux_across_surface_boundary/green-on-rectangle",
         [(m, e, False, o) for m, e in M2 for o in ("u-v", "v-u")] + [(m, (2, 1), True, "u-v") for m in range(2)])
    def _(s, g):
        C = CS(CS.System.CARTESIAN)
        fld = field2(g, s[0], s[1], C, s[2])
        x0, y0 = g.sym("x0"), g.sym("y0")
        w, hh = g.sym("w", positive=True), g.sym("hh", positive=True)
        x1, y1 = x0 + w, y0 + hh
        u, v = g.var("u"), g.var("v")
        lhs = sum(AN.flux_across_curve(fld, seg, (u, 0, 1)) for seg, _ in rect_boundary(x0, x1, y0, y1, u))
        if s[3] == "u-v":
            rhs = AN.flux_across_surface_boundary(fld, [x0 + w * u, y0 + hh * v], (u, 0, 1), (v, 0, 1))
        else:
            rhs = AN.flux_across_surface_boundary(fld, [x0 + w * u, y0 + hh * v], (v, 0, 1), (u, 0, 1))
        xyz = list(C.coord_system.base_scalars())
        return Case([lhs - rhs] + free_of(lhs, [u] + xyz) + free_of(rhs, [u, v] + xyz))

    # the same rectangle given by four independent corner coordinates (no sign information in the symbols themselves: the speed of
    # the top / left side is sqrt((x0 - x1)**2) = |x0 - x1|, which a "simplification" may turn into the signed x0 - x1)
    @law("flux_across_curve==flux_across_surface_boundary/green-on-rectangle-given-by-generic-corners", [(m, e) for m, e in M2 if sum(e) <= 2], backend="z3")
    def _(s, g):
        C = CS(CS.System.CARTESIAN)
        fld = field2(g, s[0], s[1], C)
        # plain symbols WITHOUT the `real` assumption (what a user's symbols("x0 x1") gives): sqrt((x0 - x1)**2) then stays a square
        # root in SymPy instead of becoming Abs(x0 - x1) at construction, and is only correct if nothing "simplifies" it to x0 - x1
        # (g.var: the corners stay SYMBOLIC in the replay as well and get their numbers after the real code has run -- with
        # numeric corners the square root is evaluated and nothing can go wrong)
        x0, y0, x1, y1 = g.var("x0", real=None), g.var("y0", real=None), g.var("x1", real=None), g.var("y1", real=None)
        u, v = g.var("u"), g.var("v")
        lhs = sum(AN.flux_across_curve(fld, seg, (u, 0, 1)) for seg, _ in rect_boundary(x0, x1, y0, y1, u))
        rhs = AN.flux_across_surface_boundary(fld, [x0 + (x1 - x0) * u, y0 + (y1 - y0) * v], (u, 0, 1), (v, 0, 1))
        xyz = list(C.coord_system.base_scalars())
        return Case([lhs - rhs] + free_of(lhs, [u] + xyz) + free_of(rhs, [u, v] + xyz), assume=[sp.Gt(x1, x0), sp.Gt(y1, y0)])

    # a field whose curl VANISHES ON THE CURVE but not inside it (curl_z = c*(R^2 - x^2 - y^2) on the circle of radius R): the circulation
    # is the curl flux through the disc, pi*c*R^4/2, not zero -- "zero curl on the trajectory" is no reason to skip the integral
    @law("circulation_along_curve==circulation_along_surface_boundary/stokes-on-a-circle-where-the-curl-vanishes-on-the-curve-only",
         [(o, sp_) for o in (1, -1) for sp_ in (1, 2)])
    def _(s, g):
        C = CS(CS.System.CARTESIAN)
        x, y, z = C.coord_system.base_scalars()
        c = g.sym("c")
        R = sp.Integer(1) if s[1] == 1 else sp.Integer(2)
        fld = VectorField(lambda p: [c * (-p.y * R**2 / 2 + p.y**3 / 3), c * (p.x * R**2 / 2 - p.x**3 / 3), 0], C)
        t, rho, phi = g.var("t"), g.var("rho"), g.var("phi")
        w = s[0] * s[1]  # orientation and parametrisation speed
        curve = [R * cos(w * t), R * sin(w * t), 0]
        lhs = AN.circulation_along_curve(fld, curve, (t, 0, 2 * pi / s[1]))
        surface = [R * rho * cos(phi), R * rho * sin(phi), 0]
        rhs = AN.circulation_along_surface_boundary(fld, surface, (rho, 0, 1), (phi, 0, 2 * pi))
        want = sp.pi * c * R**4 / 2
        return Case([lhs - s[0] * want, rhs - want] + free_of(lhs, [t, x, y, z]))

    # ------------------------------------------------------------------ regions whose inner limits depend on the outer parameter
    @law("stokes-and-green-on-a-disc-given-by-dependent-limits(inner limits depend on the outer parameter)",
         [(m, e) for m, e in M2 if sum(e) <= 2] + [(0, (0, 1, 1)), (1, (1, 0, 1))])
    def _(s, g):
        C = CS(CS.System.CARTESIAN)
        R = g.sym("R", positive=True)
        t, u, v = g.var("t"), g.var("u"), g.var("v")
        curve = [R * cos(t), R * sin(t)]
        # the same disc as {(u, v): -sqrt(R^2 - v^2) <= u <= sqrt(R^2 - v^2), -R <= v <= R}; parameter1 = u (inner), parameter2 = v (outer)
        lim_u, lim_v = (u, -sp.sqrt(R**2 - v**2), sp.sqrt(R**2 - v**2)), (v, -R, R)
        res = []
        e = s[1]
        if len(e) == 2:
            fld = field2(g, s[0], e, C)
            res.append(AN.flux_across_curve(fld, curve, (t, 0, 2 * pi)) - AN.flux_across_surface_boundary(fld, [u, v], lim_u, lim_v))
            fld3 = field3(g, s[0], e + (0,), C)
        else:
            fld3 = field3(g, s[0], e, C)
        lhs = AN.circulation_along_curve(fld3, curve + [0], (t, 0, 2 * pi))
        rhs = AN.circulation_along_surface_boundary(fld3, [u, v, 0], lim_u, lim_v)
        res.append(lhs - rhs)
        res += free_of(rhs, [u, v] + list(C.coord_system.base_scalars()))
        return Case(res)

    # ------------------------------------------------------------------ Gauss on a box
    @law("flux_across_surface(six faces)==flux_across_volume_boundary/gauss-on-box",
         [(m, e, False) for m, e in M3] + [(m, (1, 2, 1), True) for m in range(3)])
    def _(s, g):
        C = CS(CS.System.CARTESIAN)
        fld = field3(g, s[0], s[1], C, s[2])
        x0, y0, z0 = g.sym("x0"), g.sym("y0"), g.sym("z0")
        lx, ly, lz = g.sym("lx", positive=True), g.sym("ly", positive=True), g.sym("lz", positive=True)
        u, v = g.var("u"), g.var("v")
        faces = [  # parametrisations whose normal d/du x d/dv points outwards
            [x0 + lx, y0 + ly * u, z0 + lz * v],  # +x : e_y x e_z = +e_x
            [x0, y0 + ly * v, z0 + lz * u],       # -x : e_z x e_y = -e_x
            [x0 + lx * v, y0 + ly, z0 + lz * u],  # +y : e_z x e_x = +e_y
            [x0 + lx * u, y0, z0 + lz * v],       # -y : e_x x e_z = -e_y
            [x0 + lx * u, y0 + ly * v, z0 + lz],  # +z : e_x x e_y = +e_z
            [x0 + lx * v, y0 + ly * u, z0],       # -z : e_y x e_x = -e_z
        ]
        lhs = sum(AN.flux_across_surface(fld, f, (u, 0, 1), (v, 0, 1)) for f in faces)
        rhs = AN.flux_across_volume_boundary(fld, (x0, x0 + lx), (y0, y0 + ly), (z0, z0 + lz))
        xyz = list(C.coord_system.base_scalars())
        return Case([lhs - rhs] + free_of(lhs, [u, v] + xyz) + free_of(rhs, xyz))

    # ------------------------------------------------------------------ parametrisation speed / orientation
    @law("circulation_along_curve,flux_across_curve/independent-of-parametrisation-speed;sign-flips-with-orientation",
         [(m, e) for m, e in M2])
    def _(s, g):
        C = CS(CS.System.CARTESIAN)
        fld = field2(g, s[0], s[1], C)
        a, b = g.sym("a", positive=True), g.sym("b", positive=True)
        k = g.sym("k", positive=True)
        t = g.var("t")
        base = [a * cos(t), b * sin(t)]
        fast = [a * cos(k * t), b * sin(k * t)]
        rev = [a * cos(-t), b * sin(-t)]
        res = []
        for fn in (AN.circulation_along_curve, AN.flux_across_curve):
            v0 = fn(fld, base, (t, 0, 2 * pi))
            res.append(fn(fld, fast, (t, 0, 2 * pi / k)) - v0)
            res.append(fn(fld, base, (t, 2 * pi, 0)) + v0)
            if fn is AN.circulation_along_curve:
                res.append(fn(fld, rev, (t, 0, 2 * pi)) + v0)
        return Case(res)

    @law("flux_across_curve/refuses-three-component-trajectory", [(3,), (4,)], ["fields.analysis.flux_across_curve"])
    def _(s, g):
        C = CS(CS.System.CARTESIAN)
        fld = field2(g, 0, (1, 0), C)
        t = g.var("t")
        return Case(raises=ValueError, thunk=lambda: AN.flux_across_curve(fld, [cos(t), sin(t)] + [t] * (s[0] - 2), (t, 0, 1)))

    return out


def run(report):
    ls = laws()
    for l in ls:
        for f in l.functions:
            parts = f[len(F):].split(".")
            report.function(f, PKG / "core" / parts[0] / (parts[1] + ".py"))
    for w in ("circulation_is_integral_along_curve", "circulation_is_integral_of_curl_over_surface",
              "flux_is_integral_across_curve", "flux_is_integral_across_surface"):
        report.function(f"symplyphysics.laws.fields.{w}", PKG / "laws/fields" / (w + ".py"),
                        note="thin wrapper: forwards to the analysis function under contract (checked by wrapper obligations)")
    run_laws(report, MOD, ls, "C13")
    report.extend(wrapper_obligations())
    deg = 3 if os.environ.get("VERIF_TIER", "quick") == "thorough" else 2
    report.add_bounded("field family", f"monomial fields of total degree <= {deg} in each component with a symbolic coefficient "
                       "(spans polynomial fields of that degree by linearity) + 3 trigonometric fields on rectangle/box; regions: "
                       "ellipse with symbolic semi-axes and centre (flat and capped by a paraboloid), rectangle, box",
                       sum(len(l.shapes) for l in ls), True)
    report.add_out_of_reach("general smooth / trigonometric fields on curved regions", "sympy.integrate does not return closed forms reliably; "
                            "no inductive or analytic argument over all smooth fields is available to an SMT back end")
    report.trust("CPython 3.12", "SymPy 1.14: integrate, simplify, diff, sympy.vector", "sympy.polys (nf)", "z3 5.1 / cvc5 1.4")
    report.assume("linearity of the functions under contract in the field (dot_vectors bilinear: C10; integrate linear: SymPy)",
                  "each obligation is for ALL values of the coefficient and shape parameters; the family of fields/regions is bounded as stated")


def wrapper_obligations():
    """The four laws/fields wrappers forward their arguments unchanged to the analysis functions: checked by calling the
    real wrapper with the analysis function replaced by a recorder (call-site half of the modular argument)."""
    import importlib
    from ..core import Ob, PROVED, REFUTED
    obs = []
    specs = [("circulation_is_integral_along_curve", "circulation_law", "circulation_along_curve", 1),
             ("circulation_is_integral_of_curl_over_surface", "circulation_law", "circulation_along_surface_boundary", 2),
             ("flux_is_integral_across_curve", "flux_law", "flux_across_curve", 1),
             ("flux_is_integral_across_surface", "flux_law", "flux_across_surface", 2)]
    for modname, fn, callee, npar in specs:
        name = f"C13/laws.fields.{modname}.{fn}/forwards-to-{callee}"
        try:
            m = importlib.import_module(f"symplyphysics.laws.fields.{modname}")
            rec = {}
            orig = getattr(m, callee)

            def fake(*a, _rec=rec, **k):
                _rec["args"] = a
                return sp.Symbol("RESULT")
            setattr(m, callee, fake)
            try:
                fld, traj = object(), [sp.Symbol("q1"), sp.Symbol("q2")]
                lims = [sp.Symbol(f"l{i}") for i in range(4)]
                r = getattr(m, fn)(fld, traj, *lims[:2]) if npar == 1 else getattr(m, fn)(fld, traj, (lims[0], lims[1]), (lims[2], lims[3]))
            finally:
                setattr(m, callee, orig)
            a = rec.get("args", ())
            ok = r == sp.Symbol("RESULT") and len(a) == 2 + npar and a[0] is fld and a[1] is traj
            for i in range(npar):
                par, lo, hi = a[2 + i]
                ok = ok and (lo, hi) == (lims[2 * i], lims[2 * i + 1]) and isinstance(par, sp.Symbol)
            if npar == 2:
                ok = ok and a[2][0] != a[3][0]
            obs.append(Ob(name, PROVED if ok else REFUTED, "exec-generic", 0.0, "" if ok else f"forwarded {a}", modname,
                          None if ok else {"reproduced": True, "script": f"assert False, 'wrapper {modname}.{fn} does not forward its arguments unchanged'"}))
        except Exception as e:
            obs.append(Ob(name, REFUTED, "exec-generic", 0.0, f"{type(e).__name__}: {e}", modname,
                          {"reproduced": True, "script": f"import symplyphysics.laws.fields.{modname}"}))
    return obs
