"""Engine D `dimtype` -- dimension refinement typing of published equations (DESIGN 3.D, property C01).

A dimension is a vector in Q^7 (mass, length, time, current, temperature, amount_of_substance, luminous_intensity;
angle erased).  Every entry is a *linear form*  c + sum_u k_u * u  over the unknown vector entries `u` of undeclared
leaves (plain SymPy symbols, wildcard `any_dimension` occurrences, the numbers 0/oo/nan, undeclared functions); the
coefficients c, k_u are rationals, or -- below a symbolic exponent -- polynomials in the exponent symbols.  Walking the
REAL equation object bottom-up, each typed node emits a named obligation (equal dimensions / dimensionless); an
obligation is a conjunction of linear rational equalities (one per base dimension and, for symbolic exponents, per
monomial of the exponent symbols: equality is required identically, i.e. coefficient-wise).  Obligations are
discharged by z3 (linear real arithmetic) incrementally, node by node, so that a failure names its sub-term:

    node obligation holds  <=>  exists values of the unknown vectors satisfying it together with all obligations
                                accepted so far

and after the walk one query per equation poses all obligations at once (exists unknown vectors. all hold).
A refuted node obligation is not asserted; its node gets the reference dimension so that one defect yields one failure.

This oracle does not call symplyphysics.core.dimensions.collect_expression_and_dimension (code under test in C06); the
only repository facts it reads are the declared `.dimension` attributes of the real leaf objects.
"""
from __future__ import annotations

import ast
import importlib
import importlib.util
import os
import sys
import time
import traceback
from collections import Counter
from fractions import Fraction

import sympy as sp
import z3
from sympy.core.function import AppliedUndef, Application
from sympy.core.relational import Relational
from sympy.logic.boolalg import BooleanAtom, BooleanFunction
from sympy.physics.units import Dimension
from sympy.physics.units import Quantity as SymQuantity
from sympy.physics.units.prefixes import Prefix
from sympy.physics.units.systems.si import dimsys_SI

from .core import Ob, PROVED, REFUTED, UNKNOWN, FAULT

BASE7 = ("mass", "length", "time", "current", "temperature", "amount_of_substance", "luminous_intensity")
ERASED = ("angle",)
_IDX = {b: i for i, b in enumerate(BASE7)}

ZERO = sp.S.Zero

# exp / trigonometric / hyperbolic: argument dimensionless, result dimensionless (the property lists exactly these)
F_ARG_DIMLESS = {"exp", "sin", "cos", "tan", "cot", "sec", "csc", "sinc", "sinh", "cosh", "tanh", "coth", "sech", "csch"}
# other elementary / special functions: result dimensionless, nothing required of the arguments (DESIGN 3.D)
F_RESULT_DIMLESS = {
    "log", "asin", "acos", "atan", "acot", "asec", "acsc", "atan2", "asinh", "acosh", "atanh", "acoth", "asech", "acsch",
    "besselj", "bessely", "besseli", "besselk", "hankel1", "hankel2", "jn", "yn", "hn1", "hn2", "airyai", "airybi",
    "hermite", "hermite_prob", "legendre", "assoc_legendre", "laguerre", "assoc_laguerre", "chebyshevt", "chebyshevu",
    "gegenbauer", "jacobi", "Ynm", "Znm", "factorial", "factorial2", "subfactorial", "binomial", "RisingFactorial",
    "FallingFactorial", "gamma", "loggamma", "lowergamma", "uppergamma", "digamma", "trigamma", "polygamma", "beta",
    "erf", "erfc", "erfi", "erfinv", "erfcinv", "erf2", "zeta", "dirichlet_eta", "polylog", "lerchphi", "LambertW",
    "Ei", "Si", "Ci", "Shi", "Chi", "li", "Li", "expint", "E1", "fresnels", "fresnelc", "elliptic_k", "elliptic_e",
    "elliptic_f", "elliptic_pi", "hyper", "meijerg", "sign", "Heaviside", "KroneckerDelta", "LeviCivita", "floor",
    "ceiling", "frac", "arg", "harmonic", "bernoulli", "fibonacci", "lucas", "euler", "catalan", "mathieus", "mathieuc",
}
# dimension-preserving unary functions
F_KEEP = {"Abs", "re", "im", "conjugate", "transpose", "adjoint", "polar_lift", "periodic_argument", "principal_branch",
          "unpolarify"}


class OutOfReach(Exception):
    def __init__(self, kind, why):
        super().__init__(f"{kind}: {why}")
        self.kind, self.why = kind, why


# ------------------------------------------------------------------------------------------------ linear forms
# Lin = dict: key None -> constant coefficient, key str -> coefficient of the unknown named key.  Coefficients are
# SymPy expressions: Rational, or polynomial/rational expressions in exponent symbols.

def l_add(a, b, sign=1):
    out = dict(a)
    for k, v in b.items():
        nv = out.get(k, ZERO) + (v if sign == 1 else -v)
        if nv == 0:
            out.pop(k, None)
        else:
            out[k] = nv
    return out


def l_scale(a, k):
    if k == 1:
        return a
    out = {}
    for key, v in a.items():
        nv = sp.expand(v * k) if not (v.is_Rational and k.is_Rational) else v * k
        if nv != 0:
            out[key] = nv
    return out


class Dim:
    """7 linear forms"""
    __slots__ = ("e",)

    def __init__(self, entries=None):
        self.e = entries if entries is not None else [dict() for _ in BASE7]

    @staticmethod
    def const(vec):
        return Dim([({None: sp.Rational(v.numerator, v.denominator)} if v != 0 else {}) for v in vec])

    def __add__(self, o):
        return Dim([l_add(a, b) for a, b in zip(self.e, o.e)])

    def __sub__(self, o):
        return Dim([l_add(a, b, -1) for a, b in zip(self.e, o.e)])

    def scale(self, k):
        k = sp.sympify(k)
        return Dim([l_scale(a, k) for a in self.e])

    def is_ground_zero(self):
        return all(not a for a in self.e)

    def is_ground(self):
        return all(set(a) <= {None} and all(v.is_Rational for v in a.values()) for a in self.e)

    def unknowns(self):
        return {k for a in self.e for k in a if k is not None}

    def show(self, model=None):
        """{base: value}; unknowns replaced by their value in `model` (a dict name -> Fraction), '?' if unconstrained"""
        out = {}
        for b, a in zip(BASE7, self.e):
            tot, free = ZERO, []
            for k, v in a.items():
                if k is None:
                    tot += v
                elif model is not None and k in model:
                    tot += v * sp.Rational(model[k].numerator, model[k].denominator)
                else:
                    free.append(f"<{k}>" if v == 1 else f"({v})*<{k}>")
            tot = sp.expand(tot)
            if tot != 0 or free:
                out[b] = str(tot) if not free else " + ".join(([str(tot)] if tot != 0 else []) + free)
        return out


class MatDim:
    __slots__ = ("rows", "cols", "m")

    def __init__(self, rows, cols, m):
        self.rows, self.cols, self.m = rows, cols, m

    def map(self, f):
        return MatDim(self.rows, self.cols, [[f(x) for x in r] for r in self.m])


_DECL_CACHE: dict = {}


def declared_vector(dimension):
    """SI exponent vector of a declared Dimension (angle erased); None for the wildcard `any_dimension`."""
    key = dimension
    if key in _DECL_CACHE:
        return _DECL_CACHE[key]
    if type(dimension).__name__ == "AnyDimension" or str(getattr(dimension, "name", "")) == "any_dimension":
        res = None
    else:
        deps = dimsys_SI.get_dimensional_dependencies(dimension)
        vec = [Fraction(0)] * 7
        for k, v in deps.items():
            name = str(getattr(k, "name", k))
            if name in ERASED:
                continue
            if name not in _IDX:
                raise OutOfReach("Dimension", f"base dimension '{name}' is not one of the seven SI bases")
            v = sp.nsimplify(v) if not isinstance(v, (int, sp.Rational)) else sp.Rational(v)
            if not v.is_Rational:
                raise OutOfReach("Dimension", f"non-rational exponent {v} in declared dimension {dimension}")
            vec[_IDX[name]] += Fraction(int(v.p), int(v.q))
        res = tuple(vec)
    _DECL_CACHE[key] = res
    return res


def _short(e, n=160):
    """printable sub-term; generated function names (FUN12) are replaced by the display name of the real object"""
    try:
        s = str(e)
        if isinstance(e, sp.Basic):
            import re
            for f in e.atoms(AppliedUndef):
                disp, nm = getattr(f.func, "display_name", None), getattr(f.func, "name", None)
                if disp and nm and disp != nm:
                    s = re.sub(r"\b" + re.escape(nm) + r"\(", disp.replace("\\", "\\\\") + "(", s)
    except Exception:  # pragma: no cover
        s = repr(e)
    return s if len(s) <= n else s[:n - 3] + "..."


# ------------------------------------------------------------------------------------------------ typing context
class Typer:
    """types ONE equation (Relational); collects obligations as vf.core.Ob"""

    def __init__(self, prefix: str, signature: str = ""):
        self.prefix = prefix
        self.signature = signature
        self.s = z3.Solver()
        self.s.set("timeout", 20000)
        self.accepted = []  # z3 constraints accepted so far (for the per-equation query)
        self.all_constraints = []  # every generated constraint (accepted or refuted)
        self.obs: list[Ob] = []
        self.n_unknown = 0
        self.by_symbol = {}
        self.zvars = {}
        self.out_of_reach: list[tuple[str, str]] = []
        self.kinds = Counter()
        self.names = Counter()
        self.refuted_info = []

    # -------------------------------------------------------------- unknowns
    def fresh(self, tag):
        self.n_unknown += 1
        base = f"{tag}#{self.n_unknown}"
        ents = []
        for b in BASE7:
            nm = f"{base}.{b}"
            self.zvars[nm] = z3.Real(nm)
            ents.append({nm: sp.S.One})
        return Dim(ents)

    def unknown_for(self, key, tag):
        if key not in self.by_symbol:
            self.by_symbol[key] = self.fresh(tag)
        return self.by_symbol[key]

    # -------------------------------------------------------------- constraints
    def _lin_to_z3(self, lin):
        """list of z3 equalities expressing lin == 0 identically in the exponent symbols; (constraints, opaque?)"""
        if all(v.is_Rational for v in lin.values()):
            return [self._z3_affine(lin) == 0], False
        # symbolic exponent coefficients: clear denominators, match coefficients of the polynomial in the symbols
        U = {k: sp.Symbol("U!" + k) for k in lin if k is not None}
        E = sum((v * U[k] for k, v in lin.items() if k is not None), lin.get(None, ZERO))
        num, _den = sp.fraction(sp.together(E))
        num = sp.expand(num)
        gens = sorted((s for s in num.free_symbols if s not in set(U.values())), key=lambda s: s.name)
        opaque = False
        try:
            poly = sp.Poly(num, *gens) if gens else None
        except sp.PolynomialError:
            poly = None
            opaque = True
        if opaque:
            raise OutOfReach("symbolic-exponent", f"coefficient {_short(num)} is not a polynomial in the exponent symbols")
        inv = {v: k for k, v in U.items()}
        cons = []
        coeffs = poly.coeffs() if poly is not None else [num]
        for c in coeffs:
            c = sp.expand(c)
            d = c.as_coefficients_dict()
            aff = {}
            for term, r in d.items():
                if term == 1:
                    aff[None] = sp.Rational(r)
                elif term in inv:
                    aff[inv[term]] = sp.Rational(r)
                else:
                    raise OutOfReach("symbolic-exponent", f"non-linear coefficient term {term}")
            if not all(v.is_Rational for v in aff.values()):
                raise OutOfReach("symbolic-exponent", f"non-rational coefficient in {c}")
            cons.append(self._z3_affine(aff) == 0)
        return cons, False

    def _z3_affine(self, lin):
        t = None
        for k, v in lin.items():
            q = z3.RealVal(f"{int(v.p)}/{int(v.q)}")
            term = q if k is None else q * self.zvars[k]
            t = term if t is None else t + term
        return t if t is not None else z3.RealVal(0)

    def _dim_zero_constraints(self, d: Dim):
        cons = []
        for lin in d.e:
            if not lin:
                continue
            c, _ = self._lin_to_z3(lin)
            cons.extend(c)
        return cons

    def _model(self):
        """values of the unknowns under the currently accepted constraints"""
        if self.s.check() != z3.sat:
            return {}
        m = self.s.model()
        out = {}
        for nm, zv in self.zvars.items():
            val = m.eval(zv, model_completion=False)
            if z3.is_rational_value(val):
                out[nm] = Fraction(val.numerator_as_long(), val.denominator_as_long())
        return out

    def consistent(self, d: Dim) -> bool:
        """test only: is d == 0 jointly satisfiable with what is accepted (nothing recorded)"""
        try:
            cons = self._dim_zero_constraints(d)
        except OutOfReach:
            return True
        if not cons:
            return True
        self.s.push()
        self.s.add(*cons)
        r = self.s.check()
        self.s.pop()
        return r != z3.unsat

    def oname(self, path, clause):
        base = f"{self.prefix}/{path}:{clause}"
        self.names[base] += 1
        return base if self.names[base] == 1 else f"{base}#{self.names[base]}"

    def require_equal(self, path, clause, A: Dim, B: Dim, termA, termB, what="equal dimensions") -> bool:
        name = self.oname(path, clause)
        t0 = time.time()
        try:
            cons = self._dim_zero_constraints(A - B)
        except OutOfReach as ex:
            self.out_of_reach.append((ex.kind, f"{path}:{clause}: {ex.why}"))
            return True
        self.all_constraints.extend(cons)
        if not cons:
            # syntactically identical linear forms: the goal  A - B == 0  is the ground fact 0 == 0
            cons = [z3.RealVal(0) == 0]
        self.s.push()
        self.s.add(*cons)
        r = self.s.check()
        ms = (time.time() - t0) * 1000
        if r == z3.sat:
            self.accepted.extend(cons)
            self.obs.append(Ob(name, PROVED, "z3", ms, "", self.signature))
            return True
        self.s.pop()
        if r == z3.unknown:
            self.obs.append(Ob(name, UNKNOWN, "z3", ms, "z3 unknown on a linear rational query", self.signature))
            return True
        model = self._model()
        da, db = A.show(model), B.show(model)
        detail = (f"{what} violated: sub-term [{_short(termA)}] has dimension {da or 'dimensionless'}; "
                  f"{'sub-term [' + _short(termB) + '] has dimension' if termB is not None else 'required'} "
                  f"{db or 'dimensionless'}")
        ob = Ob(name, REFUTED, "z3", ms, detail, self.signature)
        self.refuted_info.append({"name": name, "path": path, "clause": clause, "term_a": _short(termA, 400),
                                  "term_b": _short(termB, 400) if termB is not None else None, "dim_a": da, "dim_b": db})
        self.obs.append(ob)
        return False

    def require_dimensionless(self, path, clause, A: Dim, term) -> bool:
        return self.require_equal(path, clause, A, Dim(), term, None, what="dimensionless requirement")

    def require_all_equal(self, path, clause, dims, terms):
        """Add / Min / Max / Piecewise branches: all equal.  Returns the reference dimension."""
        if len(dims) == 1:
            return dims[0]
        ref = 0
        # choose the reference so that one odd term yields one failure: largest mutually consistent group
        if not all(self.consistent(d - dims[0]) for d in dims[1:]):
            groups = []
            for i, d in enumerate(dims):
                for g in groups:
                    if self.consistent(d - dims[g[0]]):
                        g.append(i)
                        break
                else:
                    groups.append([i])
            groups.sort(key=lambda g: (-len(g), g[0]))
            ref = groups[0][0]
        for i, d in enumerate(dims):
            if i == ref:
                continue
            self.require_equal(path, f"{clause}[{i}]~[{ref}]", d, dims[ref], terms[i], terms[ref])
        return dims[ref]

    # -------------------------------------------------------------- the walk
    def unreachable(self, e, path, why):
        kind = type(e).__name__
        self.out_of_reach.append((kind, f"{path}: {why}"))
        return self.fresh(f"unreach:{kind}")

    def scalar(self, d, e, path):
        if isinstance(d, MatDim):
            if d.rows == 1 and d.cols == 1:
                return d.m[0][0]
            raise OutOfReach(type(e).__name__, f"matrix-valued operand where a scalar is required at {path}")
        if d is None:
            raise OutOfReach(type(e).__name__, f"boolean operand where a scalar is required at {path}")
        return d

    def ty(self, e, path):
        try:
            return self._ty(e, path)
        except OutOfReach as ex:
            self.out_of_reach.append((ex.kind, f"{path}: {ex.why}"))
            return self.fresh(f"unreach:{ex.kind}")

    def _exp_value(self, ex):
        """value of an exponent / derivative count as a coefficient (Rational or polynomial in symbols)"""
        ex = sp.sympify(ex)
        if ex.is_Rational:
            return ex
        if ex.is_Float:
            return sp.Rational(ex)  # the exact binary value
        if ex.is_number:
            raise OutOfReach("Pow", f"irrational numeric exponent {ex} on a dimensional base")
        return ex

    def _ty(self, e, path):
        cls = type(e)
        cname = cls.__name__
        cmod = cls.__module__ or ""

        # ---- relations and booleans
        if isinstance(e, Relational):
            self.kinds["Relational:" + cname] += 1
            A, B = self.ty(e.lhs, path + ".lhs"), self.ty(e.rhs, path + ".rhs")
            self.equal_any(path, "sides", A, B, e.lhs, e.rhs)
            return None
        if isinstance(e, BooleanAtom):
            self.kinds["BooleanAtom"] += 1
            return None
        if isinstance(e, BooleanFunction):
            self.kinds["BooleanFunction:" + cname] += 1
            for i, a in enumerate(e.args):
                self.ty(a, f"{path}.{i}")
            return None

        # ---- leaves
        if isinstance(e, SymQuantity):
            self.kinds["Quantity"] += 1
            vec = declared_vector(e.dimension)
            return self.fresh("any:" + _short(e, 20)) if vec is None else Dim.const(vec)
        if isinstance(e, Prefix):
            self.kinds["Prefix"] += 1
            return Dim()
        if isinstance(e, sp.Symbol):
            if hasattr(e, "factor") and any(k.__name__ == "Symbolic" for k in cls.__mro__):
                self.kinds["Symbolic:" + cname] += 1
                return self.ty(e.factor, path + ".factor")
            decl = getattr(e, "dimension", None)
            if isinstance(decl, Dimension):
                vec = declared_vector(decl)
                if vec is None:
                    self.kinds["Symbol(any_dimension)"] += 1
                    return self.fresh("any:" + _short(e, 20))
                self.kinds["VectorSymbol" if cname == "VectorSymbol" else "Symbol(declared)"] += 1
                return Dim.const(vec)
            if isinstance(e, sp.Idx):
                self.kinds["Idx"] += 1
                return Dim()
            self.kinds["Symbol(undeclared)"] += 1
            return self.unknown_for(e, "sym:" + e.name)
        if isinstance(e, sp.Idx):
            self.kinds["Idx"] += 1
            return Dim()
        if isinstance(e, sp.Number):
            if e.is_zero or e in (sp.oo, -sp.oo, sp.nan, sp.zoo) or e == 0:
                self.kinds["Number(0/oo/nan wildcard)"] += 1
                return self.fresh("num:" + str(e))
            self.kinds["Number"] += 1
            return Dim()
        if e in (sp.oo, -sp.oo, sp.nan, sp.zoo):
            self.kinds["Number(0/oo/nan wildcard)"] += 1
            return self.fresh("num:" + str(e))
        if isinstance(e, (sp.NumberSymbol, sp.core.numbers.ImaginaryUnit)):
            self.kinds["NumberSymbol"] += 1
            return Dim()
        if isinstance(e, sp.Indexed):
            base = e.base
            for i, ix in enumerate(e.indices):
                self.ty(ix, f"{path}.index{i}")
            decl = getattr(base, "dimension", None)
            if isinstance(decl, Dimension):
                vec = declared_vector(decl)
                self.kinds["Indexed(declared)"] += 1
                return self.fresh("any:" + _short(e, 20)) if vec is None else Dim.const(vec)
            self.kinds["Indexed(undeclared)"] += 1
            return self.unknown_for(base, "idx:" + str(base))

        # ---- experimental vector algebra (checked by name: the classes live in symplyphysics.core.experimental)
        if cmod.startswith("symplyphysics.core.experimental"):
            if cname == "VectorNorm":
                self.kinds["VectorNorm"] += 1
                return self.scalar(self.ty(e.args[0], path + ".0"), e, path)
            if cname in ("VectorDot", "VectorCross", "VectorMixedProduct"):
                self.kinds[cname] += 1
                tot = Dim()
                for i, a in enumerate(e.args):
                    tot = tot + self.scalar(self.ty(a, f"{path}.{i}"), a, path)
                return tot

        # ---- applied functions with a declared dimension (library Function / VectorFunction) or undeclared
        if isinstance(e, Application) and (isinstance(e, AppliedUndef) or isinstance(getattr(e.func, "dimension", None), Dimension)):
            for i, a in enumerate(e.args):
                self.ty(a, f"{path}.arg{i}")  # internal homogeneity of the arguments only
            decl = getattr(e.func, "dimension", None)
            if isinstance(decl, Dimension):
                vec = declared_vector(decl)
                if vec is None:
                    self.kinds["Function(any_dimension)"] += 1
                    return self.fresh("any:" + _short(e, 20))
                self.kinds["Function(declared)"] += 1
                return Dim.const(vec)
            self.kinds["Function(undeclared)"] += 1
            return self.unknown_for(e.func, "fun:" + str(e.func))

        # ---- arithmetic
        if isinstance(e, sp.Add):
            self.kinds["Add"] += 1
            dims = [self.ty(a, f"{path}.{i}") for i, a in enumerate(e.args)]
            if any(isinstance(d, MatDim) for d in dims):
                return self.mat_all_equal(path, "Add", dims, e.args)
            dims = [self.scalar(d, a, path) for d, a in zip(dims, e.args)]
            return self.require_all_equal(path, "Add", dims, e.args)
        if isinstance(e, sp.Mul):
            self.kinds["Mul"] += 1
            dims = [self.ty(a, f"{path}.{i}") for i, a in enumerate(e.args)]
            mats = [d for d in dims if isinstance(d, MatDim)]
            if mats:
                return self.matmul(path, dims, e.args)
            tot = Dim()
            for d, a in zip(dims, e.args):
                tot = tot + self.scalar(d, a, path)
            return tot
        if isinstance(e, sp.Pow):
            self.kinds["Pow"] += 1
            db = self.ty(e.base, path + ".base")
            de = self.ty(e.exp, path + ".exp")
            self.require_dimensionless(path, "Pow.exponent", self.scalar(de, e.exp, path), e.exp)
            if isinstance(db, MatDim):
                raise OutOfReach("Pow", "matrix power")
            db = self.scalar(db, e.base, path)
            if db.is_ground_zero():
                return Dim()
            k = self._exp_value(e.exp)
            if not k.is_Rational:
                self.kinds["Pow(symbolic exponent on dimensional base)"] += 1
            return db.scale(k)

        # ---- calculus
        if isinstance(e, sp.Derivative):
            self.kinds["Derivative"] += 1
            d = self.scalar(self.ty(e.expr, path + ".expr"), e.expr, path)
            for i, (v, n) in enumerate(e.variable_count):
                dv = self.scalar(self.ty(v, f"{path}.var{i}"), v, path)
                self.ty(n, f"{path}.count{i}")
                d = d - dv.scale(self._exp_value(n))
            return d
        if isinstance(e, sp.Integral):
            self.kinds["Integral"] += 1
            d = self.scalar(self.ty(e.function, path + ".function"), e.function, path)
            for i, lim in enumerate(e.limits):
                v = lim[0]
                dv = self.scalar(self.ty(v, f"{path}.var{i}"), v, path)
                for j, b in enumerate(lim[1:]):
                    dl = self.scalar(self.ty(b, f"{path}.limit{i}.{j}"), b, path)
                    self.require_equal(path, f"Integral.limit[{i}.{j}]~variable", dl, dv, b, v)
                d = d + dv
            return d
        if isinstance(e, (sp.Sum, sp.Product)):
            self.kinds[cname] += 1
            d = self.ty(e.function, path + ".function")
            for i, lim in enumerate(e.limits):
                for j, b in enumerate(lim):
                    self.ty(b, f"{path}.limit{i}.{j}")
            return d
        if cname in ("IndexedSum", "IndexedProduct") and cmod.startswith("symplyphysics.core.operations"):
            self.kinds[cname] += 1
            d = self.ty(e.args[0], path + ".0")
            for i, a in enumerate(e.args[1:]):
                self.ty(a, f"{path}.index{i}")
            return d
        if cname == "Laplacian" and cmod.startswith("sympy.vector"):
            self.kinds["Laplacian"] += 1
            d = self.scalar(self.ty(e.args[0], path + ".0"), e.args[0], path)
            length = Dim.const(tuple(Fraction(1 if b == "length" else 0) for b in BASE7))
            return d - length.scale(2)
        if cname == "BaseScalar" and cmod.startswith("sympy.vector"):
            self.kinds["BaseScalar(undeclared)"] += 1
            return self.unknown_for(e, "coord:" + str(e))
        if isinstance(e, sp.Order):
            # O(expr): the implied constant is arbitrary, so the term matches anything; the inner expression is typed
            self.kinds["Order"] += 1
            self.ty(e.expr, path + ".expr")
            return self.fresh("order")
        if isinstance(e, sp.Subs):
            self.kinds["Subs"] += 1
            d = self.ty(e.expr, path + ".expr")
            for i, (v, p) in enumerate(zip(e.variables, e.point)):
                dv, dp = self.ty(v, f"{path}.var{i}"), self.ty(p, f"{path}.point{i}")
                self.equal_any(path, f"Subs.point[{i}]~variable", dp, dv, p, v)
            return d
        if isinstance(e, sp.Limit):
            self.kinds["Limit"] += 1
            d = self.ty(e.args[0], path + ".0")
            dv, dp = self.ty(e.args[1], path + ".var"), self.ty(e.args[2], path + ".point")
            self.equal_any(path, "Limit.point~variable", dp, dv, e.args[2], e.args[1])
            return d

        # ---- piecewise, min/max
        if isinstance(e, sp.Piecewise):
            self.kinds["Piecewise"] += 1
            dims, terms = [], []
            for i, (ex, cond) in enumerate(e.args):
                dims.append(self.ty(ex, f"{path}.{i}.expr"))
                terms.append(ex)
                self.ty(cond, f"{path}.{i}.cond")
            if any(isinstance(d, MatDim) for d in dims):
                return self.mat_all_equal(path, "Piecewise", dims, terms)
            return self.require_all_equal(path, "Piecewise", [self.scalar(d, t, path) for d, t in zip(dims, terms)], terms)
        if isinstance(e, (sp.Min, sp.Max)):
            self.kinds[cname] += 1
            dims = [self.scalar(self.ty(a, f"{path}.{i}"), a, path) for i, a in enumerate(e.args)]
            return self.require_all_equal(path, cname, dims, e.args)

        # ---- matrices
        if isinstance(e, sp.MatrixBase):
            self.kinds["Matrix"] += 1
            rows, cols = e.shape
            m = [[self.scalar(self.ty(e[i, j], f"{path}[{i},{j}]"), e[i, j], path) for j in range(cols)] for i in range(rows)]
            return MatDim(rows, cols, m)
        if isinstance(e, sp.MatMul):
            self.kinds["MatMul"] += 1
            dims = [self.ty(a, f"{path}.{i}") for i, a in enumerate(e.args)]
            return self.matmul(path, dims, e.args)
        if isinstance(e, sp.MatAdd):
            self.kinds["MatAdd"] += 1
            dims = [self.ty(a, f"{path}.{i}") for i, a in enumerate(e.args)]
            return self.mat_all_equal(path, "MatAdd", dims, e.args)
        if isinstance(e, sp.Transpose):
            self.kinds["Transpose"] += 1
            d = self.ty(e.args[0], path + ".0")
            if isinstance(d, MatDim):
                return MatDim(d.cols, d.rows, [[d.m[i][j] for i in range(d.rows)] for j in range(d.cols)])
            return d

        # ---- named functions
        if isinstance(e, sp.Function) or isinstance(e, Application):
            if cname in F_ARG_DIMLESS:
                self.kinds["exp/trig/hyperbolic:" + cname] += 1
                for i, a in enumerate(e.args):
                    da = self.scalar(self.ty(a, f"{path}.{i}"), a, path)
                    self.require_dimensionless(path, f"{cname}.argument" + (f"[{i}]" if len(e.args) > 1 else ""), da, a)
                return Dim()
            if cname in F_RESULT_DIMLESS:
                self.kinds["dimensionless-valued function:" + cname] += 1
                for i, a in enumerate(e.args):
                    self.ty(a, f"{path}.{i}")
                return Dim()
            if cname in F_KEEP:
                self.kinds["dimension-preserving function:" + cname] += 1
                return self.ty(e.args[0], path + ".0")
            if cname == "DiracDelta":
                self.kinds["DiracDelta"] += 1
                d = self.scalar(self.ty(e.args[0], path + ".0"), e.args[0], path)
                return Dim() - d
            if cname == "Mod":
                self.kinds["Mod"] += 1
                dims = [self.scalar(self.ty(a, f"{path}.{i}"), a, path) for i, a in enumerate(e.args)]
                return self.require_all_equal(path, "Mod", dims, e.args)
            for i, a in enumerate(e.args):
                self.ty(a, f"{path}.{i}")
            raise OutOfReach(cname, f"no typing rule for function {cname}")

        raise OutOfReach(cname, f"no typing rule for node kind {cmod}.{cname}")

    # -------------------------------------------------------------- matrices
    def equal_any(self, path, clause, A, B, ta, tb):
        """scalar or element-wise equality"""
        if A is None or B is None:
            if A is None and B is None:
                return
            raise OutOfReach("Relational", f"boolean compared with a non-boolean at {path}")
        if isinstance(A, MatDim) or isinstance(B, MatDim):
            if not (isinstance(A, MatDim) and isinstance(B, MatDim)):
                raise OutOfReach("Matrix", f"matrix compared with a scalar at {path}")
            if (A.rows, A.cols) != (B.rows, B.cols):
                raise OutOfReach("Matrix", f"shape mismatch {A.rows}x{A.cols} vs {B.rows}x{B.cols} at {path}")
            for i in range(A.rows):
                for j in range(A.cols):
                    self.require_equal(path, f"{clause}[{i},{j}]", A.m[i][j], B.m[i][j], f"({_short(ta, 60)})[{i},{j}]",
                                       f"({_short(tb, 60)})[{i},{j}]")
            return
        self.require_equal(path, clause, A, B, ta, tb)

    def mat_all_equal(self, path, clause, dims, terms):
        if not all(isinstance(d, MatDim) for d in dims):
            raise OutOfReach("Matrix", f"matrix added to a scalar at {path}")
        r, c = dims[0].rows, dims[0].cols
        if any((d.rows, d.cols) != (r, c) for d in dims):
            raise OutOfReach("Matrix", f"shape mismatch in {clause} at {path}")
        out = [[None] * c for _ in range(r)]
        for i in range(r):
            for j in range(c):
                out[i][j] = self.require_all_equal(path, f"{clause}[{i},{j}]", [d.m[i][j] for d in dims],
                                                   [f"({_short(t, 60)})[{i},{j}]" for t in terms])
        return MatDim(r, c, out)

    def matmul(self, path, dims, terms):
        scal = Dim()
        cur, cur_t = None, None
        for d, t in zip(dims, terms):
            if not isinstance(d, MatDim):
                scal = scal + self.scalar(d, t, path)
                continue
            if cur is None:
                cur, cur_t = d, t
                continue
            if cur.cols != d.rows:
                raise OutOfReach("MatMul", f"shape mismatch {cur.rows}x{cur.cols} . {d.rows}x{d.cols} at {path}")
            out = [[None] * d.cols for _ in range(cur.rows)]
            for i in range(cur.rows):
                for j in range(d.cols):
                    prods = [cur.m[i][k] + d.m[k][j] for k in range(cur.cols)]
                    names = [f"({_short(cur_t, 50)})[{i},{k}]*({_short(t, 50)})[{k},{j}]" for k in range(cur.cols)]
                    out[i][j] = self.require_all_equal(path, f"MatMul.row{i}.col{j}", prods, names)
            cur, cur_t = MatDim(cur.rows, d.cols, out), f"{_short(cur_t, 40)}*{_short(t, 40)}"
        if cur is None:
            return scal
        return cur.map(lambda x: x + scal)

    # -------------------------------------------------------------- per equation
    def finish(self):
        """one query per equation: exists unknown vectors such that ALL generated node obligations hold"""
        name = f"{self.prefix}/equation:exists-typing"
        t0 = time.time()
        s = z3.Solver()
        s.set("timeout", 20000)
        cons = self.all_constraints or [z3.RealVal(0) == 0]
        s.add(*cons)
        r = s.check()
        ms = (time.time() - t0) * 1000
        refuted = [o for o in self.obs if o.verdict == REFUTED]
        if r == z3.sat and not refuted:
            self.obs.append(Ob(name, PROVED, "z3", ms, "", self.signature))
        elif r == z3.unsat and refuted:
            pass  # the node obligations carry the violation
        elif r == z3.unknown:
            self.obs.append(Ob(name, UNKNOWN, "z3", ms, "z3 unknown on a linear rational query", self.signature))
        else:
            self.obs.append(Ob(name, FAULT, "z3", ms, f"node-by-node verdicts ({len(refuted)} refuted) disagree with the "
                                                      f"whole-equation query ({r})", self.signature))


def type_equation(eq, prefix, signature=""):
    t = Typer(prefix, signature)
    t.ty(eq, "eq")
    t.finish()
    return t


# ------------------------------------------------------------------------------------------------ harvest
def harvest(value, label):
    """Relational objects inside a public attribute value: [(label-with-index, Relational)]"""
    if isinstance(value, Relational):
        return [(label, value)]
    out = []
    if isinstance(value, (list, tuple)):
        for i, v in enumerate(value):
            out.extend(harvest(v, f"{label}[{i}]"))
    elif isinstance(value, dict):
        for k, v in value.items():
            out.extend(harvest(v, f"{label}[{k!r}]"))
    elif isinstance(value, (set, frozenset)):
        for i, v in enumerate(sorted(value, key=str)):
            out.extend(harvest(v, f"{label}{{{i}}}"))
    return out


REL_CTORS = {"Eq", "Equality", "Ne", "Unequality", "Lt", "Le", "Gt", "Ge", "StrictLessThan", "LessThan",
             "StrictGreaterThan", "GreaterThan"}


def ast_equation_names(path):
    """independent AST-level harvest: public top-level names assigned from a call to a Relational constructor
    (or a list/tuple literal containing one)."""
    try:
        tree = ast.parse(open(path, encoding="utf-8").read())
    except SyntaxError:
        return set()

    def is_rel(v):
        if isinstance(v, ast.Call):
            f = v.func
            nm = f.id if isinstance(f, ast.Name) else f.attr if isinstance(f, ast.Attribute) else None
            return nm in REL_CTORS
        if isinstance(v, (ast.List, ast.Tuple)):
            return any(is_rel(x) for x in v.elts)
        return False
    names = set()
    for node in tree.body:
        if isinstance(node, ast.Assign) and is_rel(node.value):
            for t in node.targets:
                if isinstance(t, ast.Name) and not t.id.startswith("_"):
                    names.add(t.id)
        elif isinstance(node, ast.AnnAssign) and node.value is not None and is_rel(node.value):
            if isinstance(node.target, ast.Name) and not node.target.id.startswith("_"):
                names.add(node.target.id)
    return names


MAIN_ATTRS = ("law", "definition", "condition")


def check_module(modname: str, pid: str = "C01") -> dict:
    """import ONE real module (after `import symplyphysics`), harvest its published equations, type them.
    Runs in a freshly forked worker (or in the replay process) so that generated symbol names, hence SymPy's argument
    order, hence obligation names, do not depend on which other catalogue modules were imported before."""
    res = {"module": modname, "obs": [], "equations": 0, "kinds": {}, "out_of_reach": [], "import_error": None,
           "main_attrs": {}, "ast_names_missing": [], "refuted": [], "attrs": []}
    t0 = time.time()
    try:
        import symplyphysics  # noqa: F401  (base state)
        M = importlib.import_module(modname)
    except BaseException as ex:  # a law module may raise anything, including AssertionError, at import
        res["import_error"] = f"{type(ex).__name__}: {ex}"[:400]
        res["import_tb"] = traceback.format_exc()[-800:]
        # The failure stays a harvest fault.  Equations bound BEFORE the failing statement are still typed (partial
        # harvest), so that a defect in a module whose own derivation `assert` trips is named and not only "no import".
        M = None
        try:
            spec = importlib.util.find_spec(modname)
            if spec is not None and spec.loader is not None:
                M = importlib.util.module_from_spec(spec)
                try:
                    spec.loader.exec_module(M)
                except BaseException:
                    pass
        except BaseException:
            M = None
        if M is None:
            return res
        res["partial"] = True
    res["import_s"] = round(time.time() - t0, 3)
    short = modname[len("symplyphysics."):] if modname.startswith("symplyphysics.") else modname
    kinds = Counter()
    found_attrs = set()
    for attr, value in vars(M).items():
        if attr.startswith("_"):
            continue
        if attr in MAIN_ATTRS:
            res["main_attrs"][attr] = type(value).__name__
        if isinstance(value, type(sys)):
            continue
        eqs = harvest(value, attr)
        if eqs:
            found_attrs.add(attr)
        for label, eq in eqs:
            res["equations"] += 1
            prefix = f"{pid}/{short}.{label}"
            sig = _short(eq, 2000)
            try:
                t = type_equation(eq, prefix, sig)
            except Exception:
                res["obs"].append(Ob(f"{prefix}/equation:exists-typing", FAULT, "gen", 0,
                                     "typing crashed: " + traceback.format_exc()[-600:], sig))
                continue
            for info in t.refuted_info:
                info.update(module=modname, attr=label, equation=sig[:600])
                res["refuted"].append(info)
            for ob in t.obs:
                if ob.verdict == REFUTED:
                    ob.replay = {"reproduced": True, "script": replay_script(modname, ob.name),
                                 "inputs": next((i for i in t.refuted_info if i["name"] == ob.name), None)}
            res["obs"].extend(t.obs)
            kinds.update(t.kinds)
            for kind, why in t.out_of_reach:
                res["out_of_reach"].append((f"{short}.{label}", kind, why))
    res["attrs"] = sorted(found_attrs)
    src = getattr(M, "__file__", None)
    if src and not res.get("partial"):
        res["ast_names_missing"] = sorted(ast_equation_names(src) - found_attrs)
    res["kinds"] = dict(kinds)
    return res


def replay_script(modname: str, obname: str) -> str:
    return f'''import os, sys
sys.path.insert(0, os.environ.get("VERIF_REPO", "/repo"))
sys.path.insert(0, {str(os.path.dirname(os.path.dirname(os.path.abspath(__file__))))!r})
from vf import dimtype
# re-import the real module, re-type its published equations, look the obligation up by name
res = dimtype.check_module({modname!r})
assert res["import_error"] is None or True
if res["import_error"]:
    raise RuntimeError("module does not import: " + res["import_error"])
hit = [o for o in res["obs"] if o.name == {obname!r}]
if not hit:
    print("obligation {obname} is not generated on this tree (equation changed?)")
else:
    ob = hit[0]
    info = [i for i in res["refuted"] if i["name"] == ob.name]
    if info:
        i = info[0]
        print("equation :", i["equation"])
        print("sub-term A:", i["term_a"], "-> dimension", i["dim_a"] or "dimensionless")
        print("sub-term B:", i["term_b"] if i["term_b"] is not None else "(required)", "-> dimension", i["dim_b"] or "dimensionless")
        assert i["dim_a"] == i["dim_b"], "C01 {obname}: " + ob.detail
    assert ob.verdict != "refuted", "C01 {obname}: " + ob.detail
    print("obligation holds:", ob.verdict)
'''
