"""C02 for the vector-form modules: the law is published as Python functions on `Vector`s, not as an equation object.

A vector-form module offers module-level functions `<stem>_law` / `<stem>_definition` that take and return
`symplyphysics.Vector` (plain SymPy components, module-level symbols such as `mass` as parameters) and `calculate_<x>`
functions on `Quantity` / `QuantityVector` arguments.  Two clauses of the property are discharged here:

 (V1) MUTUAL INVERSES.  Two law functions f, g whose parameter lists differ in exactly one name each (x only in f, y only
      in g; the rest is shared by name) and whose names say so (`stem(f)` names y, `stem(g)` names x) are one law solved for
      two unknowns.  The REAL functions are executed on generic vectors over fresh real symbols (3 and 2 Cartesian
      components) and `g(f(x, S), S) == x` is discharged componentwise by nf, then z3 (calc.prove_zero), under the
      assumptions carried by the module's own symbols and the listed domain assumptions.
 (V2) calculate_<x> RETURNS THE LAW APPLIED TO ITS ARGUMENTS.  calculate_<x> is associated with its law function by name;
      the undecorated REAL body is executed with transparent stand-ins (Quantity, QuantityVector, approx, assert_equal) on
      symbolic components.  The independent side is computed here: the associated law function is called on vectors built
      from the same argument symbols, then every module symbol is replaced by the argument the `validate_input` decorator
      guards with that symbol.  Equality componentwise (nf / z3), same coordinate system.  Functions out of reach of the
      generic run get a BOUNDED executed stand-in on the decorated function with real QuantityVector inputs.

Everything runs inside the C02 worker that already imported the module (calc.process_module calls `process`).
Refutations are reproduced on the REAL functions by `replay_inverse` / `replay_calculate` (asserting scripts).
"""
from __future__ import annotations

import importlib
import inspect
import itertools
import math
import random
import time
import traceback
from contextlib import contextmanager
from dataclasses import dataclass, field
from typing import Any, Optional

import sympy as sp

from .core import Ob, PROVED, REFUTED, UNKNOWN, FAULT, VERIF, try_replay
from . import calc
from .calc import short, time_limit, _Timeout
from .sym2smt import Unsupported

PID = "C02"
NO_EQUATION = "module publishes no equation object"
SHAPES = (3, 2)  # Cartesian component counts of the generic vectors
SEQ_LENGTHS = (1, 2, 3)
REL_TOL = 1e-6  # executed comparisons (real floats inside the library)
EXACT_TOL = 1e-9  # inverse pairs evaluated on exact rationals (40 digits)
AXES = "xyz"
LAW_SUFFIXES = ("_law", "_definition")

ASSUMPTIONS = [
    "vector-form modules: vectors are Cartesian with 3 (and 2) components; components are real numbers; every vector "
    "argument of one call lives in the same coordinate system object (the library refuses mixed systems)",
    "vector-form modules: pairing of law functions is mechanical: parameter lists differ in exactly one name each and the "
    "function stems name the differing parameters (exact, or as a prefix/suffix of the parameter name: `pairing=affix`); "
    "a pair with name evidence on one side only (`pairing=one-sided`) is reported when it proves and is out_of_reach, "
    "never a violation, when it does not",
    "vector-form modules: inverse pairs and calculate functions are judged wherever every term is defined over the reals "
    "(non-zero denominators, non-negative radicands); the denominators / radicands met are listed in the obligation's detail",
    "vector-form modules: association calculate_<x> <-> <x>_law | <x>_definition by name, or the only law function of a "
    "module with one calculate function; law-function parameters <-> same-named arguments; module symbol <-> the argument "
    "the validate_input decorator guards with that symbol; anything else is out_of_reach",
    "vector-form modules: the declared result dimension is enforced by the validate_output wrapper (C04); it is checked "
    "here only on the executed points (audit / bounded / replay), not in the generic run of the undecorated body",
    "vector-form modules: a comparison with pytest.approx / assert_equal inside a calculate function is modelled as exact "
    "equality of the compared expressions (fork: the refusing branch raises, the accepting branch carries the equation as "
    "path condition)",
    "vector-form modules: a generic path that raises ValueError / AssertionError is the function refusing that part of the "
    "domain (the property constrains returned values only)",
    "vector-form modules, executed points: a UnitsError raised by the validate_output wrapper about the function's OWN result "
    "('Argument 'return' to function ...') on admitted arguments is not a refusal of arguments: the body did return a value, "
    "and a value of another dimension than the declared one cannot be the law's; the point is judged on the value returned by "
    "the undecorated REAL body and reported as a failure",
]
REBOUND = {
    "QuantityVector": "QuantityVector(components, coordinate_system, dimension=) / .components / .to_base_vector() / "
                      ".from_base_vector(vector, subs=, dimension=) -> the same vector on SI values (C04/C05: construction keeps "
                      "scale factors; from_base_vector substitutes `subs` simultaneously, then builds quantities)",
    "approx": "x == approx(v) -> x == v exactly (fork on symbolic x)",
    "assert_equal": "assert_equal(a, b) -> raises AssertionError unless a == b exactly (fork on symbolic values)",
}
TRUSTED = [
    "vector-form modules: symplyphysics.Vector construction and the vector arithmetic (scale/add/cross/dot, C10) are part of "
    "the real code that is executed, on symbols in the proofs and on numbers in the replays",
]


# ===================================================================================== harvest
def ann_str(a) -> str:
    if a is inspect.Parameter.empty or a is None:
        return ""
    if isinstance(a, str):
        return a
    if getattr(a, "__args__", None) is not None or not hasattr(a, "__name__"):
        return str(a)
    return a.__name__


def ann_kind(a) -> str:
    """vec | scalar | vecseq | scalarseq | other   (from the annotation; '' -> scalar)"""
    s = ann_str(a).replace("typing.", "")
    if any(k in s for k in ("VectorField", "ScalarField", "Callable", "Matrix")):
        return "other"
    seq = any(s.startswith(k) or ("[" + k) in s for k in ("Sequence", "Iterable", "list", "List"))
    if seq:
        return "vecseq" if "Vector" in s else "scalarseq"
    if s.lower().startswith("tuple") or "tuple[" in s.lower():
        return "other"
    if s.endswith("Vector") or s.endswith("Vector'>"):
        return "vec"
    return "scalar"


@dataclass
class LawFn:
    name: str
    fn: Any
    params: list  # [(name, kind)]
    ret: str  # vec | scalar | other

    @property
    def stem(self) -> str:
        for suf in LAW_SUFFIXES:
            if self.name.endswith(suf):
                return self.name[: -len(suf)]
        return self.name

    @property
    def pnames(self) -> list:
        return [n for n, _ in self.params]

    def kind(self, pname: str) -> str:
        return dict(self.params)[pname]


def law_functions(mod) -> dict:
    out = {}
    for n, f in vars(mod).items():
        if not inspect.isfunction(f) or f.__module__ != mod.__name__ or n.startswith("_"):
            continue
        if not n.endswith(LAW_SUFFIXES):
            continue
        sig = inspect.signature(f)
        params = [(p.name, ann_kind(p.annotation)) for p in sig.parameters.values()]
        r = ann_kind(sig.return_annotation)
        out[n] = LawFn(n, f, params, r if r in ("vec", "scalar") else "other")
    return out


def _cartesian():
    from symplyphysics.core.coordinate_systems.coordinate_systems import CoordinateSystem
    return CoordinateSystem(CoordinateSystem.System.CARTESIAN)


def _vec(components, cs):
    from symplyphysics import Vector
    return Vector(list(components), cs)


def _components(v, n=None):
    cs = [sp.sympify(c) for c in v.components]
    if n is not None:
        cs = cs + [sp.S.Zero] * (n - len(cs))
    return cs


def _constants(exprs):
    from sympy.physics.units import Quantity as SymQuantity
    out = set()
    for e in exprs:
        out |= sp.sympify(e).atoms(SymQuantity)
    return out


def _domain_text(exprs, limit=6) -> str:
    """The well-definedness side conditions of the terms met: denominators != 0, even-root radicands >= 0."""
    den, rad = [], []
    for e in exprs:
        e = sp.sympify(e)
        for p in e.atoms(sp.Pow):
            b, x = p.args
            if x.is_Rational and not x.is_Integer and x.q % 2 == 0:
                s = str(b)[:70] + " >= 0" + ("" if x > 0 else " and != 0")
                if s not in rad:
                    rad.append(s)
            elif x.is_negative:
                s = str(b)[:70] + " != 0"
                if s not in den:
                    den.append(s)
    items = den[:limit] + rad[:limit]
    more = len(den) + len(rad) - len(items)
    return "; ".join(items) + (f"; ... {more} more" if more > 0 else "") if items else "none"


# ===================================================================================== discharge
def _positive_rebuild(exprs, keep):
    """module scalars (free symbols outside `keep`) without a sign assumption -> positive symbols of the same name"""
    free = set()
    for e in exprs:
        free |= sp.sympify(e).free_symbols
    rep = {s: sp.Symbol(s.name, positive=True) for s in free
           if s not in keep and not (s.is_positive or s.is_negative)}
    return rep


def discharge(name, residuals, *, assume=(), domain_exprs=(), signature="", keep=(), allow_positive_domain=False,
              timeout_s=None):
    """residuals == 0 for all real values.  returns (Ob, model, tr, axioms, domain_tag)."""
    timeout_s = timeout_s or min(calc.SMT_TIMEOUT_S, 12.0)
    conv = lambda e: calc.reeval(calc.reduce_constants(e)[0])  # noqa: E731
    goals = [conv(r) for r in residuals]
    dom = [conv(d) for d in domain_exprs]
    pc = [conv(a) for a in assume]
    t0 = time.time()
    ob, model, tr, used = calc.prove_zero(name, goals, assume=pc, domain_exprs=dom, signature=signature, timeout_s=timeout_s)
    tag = "all-real-values-where-defined"
    if ob.verdict != PROVED and allow_positive_domain:
        rep = _positive_rebuild(goals + dom, set(keep))
        if rep:
            g2 = [calc.reeval(g.xreplace(rep)) for g in goals]
            d2 = [calc.reeval(d.xreplace(rep)) for d in dom]
            p2 = [a.xreplace(rep) for a in pc]
            ob2, model2, tr2, used2 = calc.prove_zero(name, g2, assume=p2, domain_exprs=d2, signature=signature,
                                                      timeout_s=timeout_s)
            if ob2.verdict == PROVED:
                tag = ("module-scalars-positive:" + ",".join(sorted(str(s) for s in rep))
                       + f" (over all real values of these symbols: {ob.verdict} by {ob.backend})")
                ob, model, tr, used = ob2, model2, tr2, used + used2
    ob.ms = (time.time() - t0) * 1000
    return ob, model, tr, used, tag


# ===================================================================================== V1: mutual inverses
def _name_match(stem: str, pname: str) -> str:
    p = pname.rstrip("_")
    if p == stem:
        return "exact"
    if p.startswith(stem + "_") or p.endswith("_" + stem):
        return "affix"
    return ""


def pair_law_functions(laws: dict):
    """returns (pairs [(f, g, x, y, shared, pairing)], notes {law name: why it is in no pair})"""
    usable, notes = {}, {}
    for n, l in laws.items():
        if l.ret != "vec":
            notes[n] = f"returns a {'scalar expression' if l.ret == 'scalar' else 'non-vector object'} (a magnitude form, not an invertible vector form)"
        elif any(k not in ("vec", "scalar") for _, k in l.params):
            bad = [f"{p}: {k}" for p, k in l.params if k not in ("vec", "scalar")]
            notes[n] = f"parameters are not plain vectors / scalars ({', '.join(bad)})"
        else:
            usable[n] = l
    pairs, paired = [], set()
    why = {n: [] for n in usable}
    for (fn, f), (gn, g) in itertools.combinations(usable.items(), 2):
        pf, pg = set(f.pnames), set(g.pnames)
        only_f, only_g = sorted(pf - pg), sorted(pg - pf)
        if len(only_f) != 1 or len(only_g) != 1:
            msg = (f"parameter lists differ in {len(only_f)}+{len(only_g)} names ({only_f} vs {only_g}): the relation between "
                   "them is not given by names")
            why[fn].append(f"{gn}: {msg}")
            why[gn].append(f"{fn}: {msg}")
            continue
        x, y = only_f[0], only_g[0]
        if f.kind(x) != "vec" or g.kind(y) != "vec" or any(f.kind(s) != g.kind(s) for s in pf & pg):
            msg = "the differing parameters are not both vectors (or shared parameters change kind)"
            why[fn].append(f"{gn}: {msg}")
            why[gn].append(f"{fn}: {msg}")
            continue
        m_f, m_g = _name_match(f.stem, y), _name_match(g.stem, x)  # f computes y, g computes x
        if m_f and m_g:
            pairing = "exact" if (m_f, m_g) == ("exact", "exact") else "affix"
        elif "exact" in (m_f, m_g):
            pairing = "one-sided"
        else:
            msg = f"neither `{f.stem}` names `{y}` nor `{g.stem}` names `{x}` exactly"
            why[fn].append(f"{gn}: {msg}")
            why[gn].append(f"{fn}: {msg}")
            continue
        pairs.append((f, g, x, y, sorted(pf & pg), pairing))
        paired |= {fn, gn}
    if len(usable) >= 2:
        for n in usable:
            if n not in paired:
                notes[n] = "in no inverse pair: " + " | ".join(why[n])[:500]
    return pairs, notes


def _generic_inverse(f: LawFn, g: LawFn, x: str, y: str, n: int):
    """g(f(x, S), S) on generic symbols.  returns (residuals, exprs met, symbols of the vectors, cs ok?)"""
    cs = _cartesian()
    env, keep = {}, []
    for p, k in f.params:
        if k == "vec":
            syms = [sp.Symbol(f"{p}{AXES[i]}", real=True) for i in range(n)]
            keep += syms
            env[p] = _vec(syms, cs)
        else:
            s = sp.Symbol(p, real=True)
            keep.append(s)
            env[p] = s
    fx = f.fn(**{p: env[p] for p in f.pnames})
    gx = g.fn(**{p: (fx if p == y else env[p]) for p in g.pnames})
    m = max(len(gx.components), n)
    res = [a - b for a, b in zip(_components(gx, m), _components(env[x], m))]
    met = _components(fx) + _components(gx)
    ok_cs = gx.coordinate_system is cs and fx.coordinate_system is cs
    return res, met, keep, ok_cs


def _point_values(rng, syms, scalars, consts, scale_pool):
    pt = {}
    sc = rng.choice(scale_pool)
    for s in syms:
        v = sp.Rational(rng.randint(-9, 9) or 1, rng.randint(1, 4)) * sc
        if s.is_positive:
            v = abs(v)
        pt[s] = v
    for s in scalars:
        v = sp.Rational(rng.randint(1, 9), rng.randint(1, 4))
        if s.is_negative:
            v = -v
        pt[s] = v
    return pt


def eval_inverse(modname, fname, gname, x, y, n, point: dict):
    """Run the REAL law functions on concrete rational vectors; module scalars are substituted afterwards.

    point: {symbol name | module attribute name: "p/q"}.  returns (ok, detail).  Raises when not evaluable."""
    mod = importlib.import_module(modname)
    laws = law_functions(mod)
    f, g = laws[fname], laws[gname]
    cs = _cartesian()
    env = {}
    for p, k in f.params:
        if k == "vec":
            env[p] = _vec([sp.Rational(point[f"{p}{AXES[i]}"]) for i in range(n)], cs)
        else:
            env[p] = sp.Rational(point[p])
    fx = f.fn(**{p: env[p] for p in f.pnames})
    gx = g.fn(**{p: (fx if p == y else env[p]) for p in g.pnames})
    m = max(len(gx.components), n)
    got, want = _components(gx, m), _components(env[x], m)
    # the point must lie in the domain the obligation is posed on: every radicand / denominator of the GENERIC summary of
    # f(x) and g(f(x)) is checked at the point (imaginary intermediate values can cancel in the final result)
    _res, met, keep, _ok = _generic_inverse(f, g, x, y, n)
    free = set()
    for e in got + met:
        free |= e.free_symbols
    rep = {}
    for s in free:
        if s in keep:
            rep[s] = sp.Rational(point[s.name])
            continue
        key = _scalar_key(mod, s)
        if key not in point:
            raise KeyError(f"no value recorded for module scalar {key}")
        rep[s] = sp.Rational(point[key])
    _in_domain(met, rep)
    vals = []
    for e in got:
        v = sp.N(calc.numeric_constants(e.xreplace(rep)), 40)
        c = complex(v)
        if c != c or abs(c.imag) > 1e-30 * max(1.0, abs(c.real)) or math.isinf(abs(c)):
            raise ValueError(f"not a finite real value at this point: {v}")
        vals.append(v)
    scale = max([abs(float(w)) for w in want] + [abs(float(v)) for v in vals] + [1e-300])
    worst = max(abs(float(v - w)) for v, w in zip(vals, want))
    ok = worst <= EXACT_TOL * scale and gx.coordinate_system is cs
    detail = (f"{gname}({fname}({x})) = {[sp.N(v, 12) for v in vals]} vs {x} = {[sp.N(w, 12) for w in want]}; "
              f"max |difference| / scale = {worst / scale:.3e}" + ("" if gx.coordinate_system is cs else
                                                                    "; result is in another coordinate system"))
    return ok, detail


def _in_domain(exprs, rep):
    """raise ValueError unless every even-root radicand is >= 0 and every denominator != 0 at the point"""
    seen = set()
    for e in exprs:
        for p in sp.sympify(e).atoms(sp.Pow):
            b, x = p.args
            if p in seen:
                continue
            seen.add(p)
            even_root = x.is_Rational and not x.is_Integer and x.q % 2 == 0
            if not (even_root or x.is_negative):
                continue
            v = complex(sp.N(calc.numeric_constants(b.xreplace(rep)), 40))
            if v != v or abs(v.imag) > 1e-30 * max(1.0, abs(v.real)):
                raise ValueError(f"outside the domain: {str(b)[:60]} is not real at this point")
            if even_root and v.real < 0:
                raise ValueError(f"outside the domain: radicand {str(b)[:60]} < 0 at this point")
            if x.is_negative and v.real == 0:
                raise ValueError(f"outside the domain: denominator {str(b)[:60]} = 0 at this point")


def replay_inverse(modname, fname, gname, x, y, n, point):
    """Executed by `check --replay`: asserts g(f(x, S), S) == x on the real law functions at the recorded point."""
    print(f"{modname}: {gname}({fname}({x}, ...), ...) == {x} at {point}")
    ok, detail = eval_inverse(modname, fname, gname, x, y, n, point)
    print(detail)
    assert ok, f"{short(modname)}: {fname} and {gname} are not mutual inverses: {detail}"


def _script(fn: str, *args) -> str:
    return "\n".join([
        "# replay: real module, real functions, concrete inputs; AssertionError = the contract is violated",
        "import os, sys",
        f"sys.path.insert(0, {str(VERIF)!r})",
        "sys.path.insert(0, os.environ.get('VERIF_REPO', '/repo'))",
        f"from vf.c02_vector import {fn}",
        f"{fn}({', '.join(repr(a) for a in args)})",
    ]) + "\n"


def _scalar_key(mod, s) -> str:
    for k, v in vars(mod).items():
        if v is s and not k.startswith("_"):
            return k
    return str(s)


def _inverse_points(mod, keep, scalars, consts, rng, count):
    pool = [sp.Integer(1)]
    for q in consts:
        try:
            v = abs(sp.Rational(sp.sympify(q.scale_factor)))
            if v > 100:
                pool += [v / 3, v / 7]
        except Exception:  # noqa: BLE001
            pass
    for _ in range(count):
        pt = _point_values(rng, keep, scalars, consts, pool)
        yield {**{s.name: str(v) for s, v in pt.items() if s in keep}, **{_scalar_key(mod, s): str(v) for s, v in pt.items() if s in scalars}}


def inverse_obligations(mod, laws: dict, rng, tier: str):
    """returns dict(obs, bounded, out_of_reach, pairs_total, pairs_proved, by_domain, axioms)"""
    modname = mod.__name__
    out = {"obs": [], "bounded": [], "out_of_reach": [], "pairs_total": 0, "pairs_proved": 0, "by_domain": {},
           "axioms": [], "pair_names": [], "positive_only": [],
           "inv_audit": {"obligations": 0, "points": 0, "no_point": 0, "failures": []}}
    pairs, notes = pair_law_functions(laws)
    n_vec = sum(1 for l in laws.values() if l.ret == "vec")
    if n_vec >= 2:
        for n, why in notes.items():
            out["out_of_reach"].append((f"{short(modname)}.{n} [mutual-inverse clause]", why))
    for f, g, x, y, shared, pairing in pairs:
        pname = f"{f.name}<->{g.name}"
        if pairing == "one-sided":
            # weak name evidence: kept only when the normal form shows the identity outright; never refuted, no solver time
            try:
                with time_limit(calc.EXEC_TIMEOUT_S):
                    runs = [(a, b, u, n) + tuple(_generic_inverse(a, b, u, w, n)) for (a, b, u, w) in ((f, g, x, y), (g, f, y, x))
                            for n in SHAPES]
                good = all(ok_cs and calc._nf_all([[calc.reeval(calc.reduce_constants(r)[0]) for r in res]])
                           for (_a, _b, _u, _n, res, _met, _keep, ok_cs) in runs)
            except _Timeout:
                raise
            except Exception:  # noqa: BLE001
                good = False
            if not good:
                out["out_of_reach"].append((f"{short(modname)}.{pname} [mutual-inverse clause]",
                                            f"name evidence on one side only (`{f.stem}`/`{y}`, `{g.stem}`/`{x}`) and the composition "
                                            "is not the identity by normal form: whether the two functions are meant as inverses "
                                            "(and on which domain) cannot be told mechanically"))
                continue
            out["pairs_total"] += 1
            for (a, b, u, n, res, met, keep, ok_cs) in runs:
                name = f"{PID}/{short(modname)}/inverse/{b.name}({a.name}({u}))=={u}/dim{n}"
                out["obs"].append(Ob(name, PROVED, "nf", 0.0, f"domain=all-real-values-where-defined; pairing=one-sided; domain: "
                                     f"{_domain_text(met)}", f"{short(modname)}:{a.name}:{b.name}:{n}"))
                out["by_domain"]["all-real-values-where-defined"] = out["by_domain"].get("all-real-values-where-defined", 0) + 1
            out["pairs_proved"] += 1
            out["pair_names"].append(pname)
            continue
        out["pairs_total"] += 1
        verdicts = []
        for (a, b, u, w) in ((f, g, x, y), (g, f, y, x)):
            for n in SHAPES:
                name = f"{PID}/{short(modname)}/inverse/{b.name}({a.name}({u}))=={u}/dim{n}"
                sig = f"{short(modname)}:{a.name}:{b.name}:{n}"
                try:
                    with time_limit(calc.EXEC_TIMEOUT_S):
                        res, met, keep, ok_cs = _generic_inverse(a, b, u, w, n)
                except _Timeout:
                    raise
                except Exception as e:  # noqa: BLE001
                    if n != 3:
                        continue  # the code does not accept this component count
                    out["out_of_reach"].append((f"{short(modname)}.{pname} [mutual-inverse clause]",
                                                f"the law functions raise on generic 3-component vectors: {type(e).__name__}: {str(e)[:160]}"))
                    verdicts.append("unreachable")
                    continue
                v = _discharge_inverse(mod, out, name, sig, a, b, u, w, n, res, met, keep, ok_cs, pairing, rng, tier)
                verdicts.append(v)
        if verdicts and all(v == PROVED for v in verdicts):
            out["pairs_proved"] += 1
            out["pair_names"].append(pname)
    return out


def _discharge_inverse(mod, out, name, sig, a, b, u, w, n, res, met, keep, ok_cs, pairing, rng, tier) -> str:
    modname = mod.__name__
    free = set()
    for e in res + met:
        free |= sp.sympify(e).free_symbols
    scalars = sorted(free - set(keep), key=str)
    consts = sorted(_constants(res + met), key=str)
    detail = (f"pairing={pairing}; module symbols={[f'{s}' + ('>0' if s.is_positive else '') for s in scalars]}; "
              f"domain: {_domain_text(met)}")
    if not ok_cs:
        ob = Ob(name, REFUTED, "exec-generic", 0.0, detail + " | the composed result is not in the argument's coordinate system", sig)
        model = tr = None
        tag = ""
    else:
        try:
            ob, model, tr, used, tag = discharge(name, res, domain_exprs=met, signature=sig, keep=keep,
                                                 allow_positive_domain=True)
            calc._merge(out["axioms"], used)
        except Unsupported as e:
            ob, model, tr, tag = Ob(name, UNKNOWN, "z3", 0.0, f"translation unsupported: {e}", sig), None, None, ""
    if ob.verdict == PROVED:
        ob.detail = f"domain={tag}; " + detail + (f"; {ob.detail}" if ob.detail else "")
        out["by_domain"][tag.split(":")[0]] = out["by_domain"].get(tag.split(":")[0], 0) + 1
        if tag.startswith("module-scalars-positive"):
            out["positive_only"].append(f"{short(modname)}: {b.name}({a.name}({u}))=={u}/dim{n} [{tag}]")
        out["obs"].append(ob)
        # substitution-commutes audit: the REAL functions composed at seeded exact rational points (bounded, reported apart)
        want = 4 if tier == "thorough" else 1
        got = 0
        for pt in _inverse_points(mod, keep, scalars, consts, rng, want * 6):
            try:
                with time_limit(calc.POINT_TIMEOUT_S):
                    ok, d = eval_inverse(modname, a.name, b.name, u, w, n, pt)
            except _Timeout:
                continue
            except Exception:  # noqa: BLE001 - outside the domain
                continue
            got += 1
            if not ok:
                script = _script("replay_inverse", modname, a.name, b.name, u, w, n, pt)
                rp = try_replay(script)
                out["inv_audit"]["failures"].append({
                    "name": name + "/audit-of-proved", "detail": f"point {pt}: {d}"[:800], "signature": sig,
                    "replay": {"reproduced": bool(rp["reproduced"]), "script": script, "inputs": pt, "output": rp.get("output", "")[-600:]}})
            if got >= want:
                break
        out["inv_audit"]["obligations"] += 1
        out["inv_audit"]["points"] += got
        out["inv_audit"]["no_point"] += 1 if got == 0 else 0
        return PROVED
    if ob.verdict == FAULT:
        out["obs"].append(ob)
        return FAULT
    # ---- not proved: executed search on the real functions (exact rationals), inside the positive-scalar domain
    tries = 60 if tier == "thorough" else 24
    accepted, failing, last = 0, None, ""
    for pt in _inverse_points(mod, keep, scalars, consts, rng, tries):
        try:
            with time_limit(calc.POINT_TIMEOUT_S):
                ok, d = eval_inverse(modname, a.name, b.name, u, w, n, pt)
        except _Timeout:
            last = "timeout"
            continue
        except Exception as e:  # noqa: BLE001 - outside the domain (complex / division by zero)
            last = f"{type(e).__name__}: {e}"[:160]
            continue
        accepted += 1
        if not ok:
            failing = (pt, d)
            break
    what = f"{short(modname)}.{a.name}<->{b.name}: {b.name}({a.name}({u}))=={u}, {n} components"
    if failing is not None:
        pt, d = failing
        script = _script("replay_inverse", modname, a.name, b.name, u, w, n, pt)
        rp = try_replay(script)
        ob.verdict = REFUTED
        ob.detail = (detail + " | " + ob.detail)[:500] + " | failing input: " + str(pt) + " | " + d[:300]
        ob.replay = {"reproduced": bool(rp["reproduced"]), "script": script, "inputs": pt, "output": rp.get("output", "")[-600:]}
        out["obs"].append(ob)
        return REFUTED
    # solver could not decide and no failing input: bounded stand-in, never counted as proved
    if accepted == 0:
        out["out_of_reach"].append((what, f"solver verdict {ob.verdict} ({ob.backend}) and no evaluable point found ({last})"))
        return "unreachable"
    out["bounded"].append((what, f"solver verdict {ob.verdict} ({ob.backend}: {ob.detail[:120]}); REAL law functions composed at "
                                 f"{accepted} accepted of {tries} seeded exact rational points (module scalars positive, constants at "
                                 f"their real values, magnitudes 1 and constant/3, constant/7), |g(f(x)) - x| <= {EXACT_TOL:g} relative; "
                                 f"last rejected point: {last}", accepted, True, []))
    return "bounded"


# ===================================================================================== V2: association
@dataclass
class CParam:
    name: str
    kind: str  # vec | scalar | vecseq | scalarseq | default
    dim: Any = None
    symbol: Any = None  # module symbol the decorator guards this argument with
    law_param: bool = False


@dataclass
class CalcAssoc:
    modname: str
    fname: str
    law: Optional[LawFn] = None
    how: str = ""
    params: list = field(default_factory=list)
    out_dim: Any = None
    decorated: Any = None
    undecorated: Any = None
    reason: str = ""

    @property
    def qual(self):
        return f"{short(self.modname)}.{self.fname}"

    @property
    def has_seq(self):
        return any(p.kind in ("vecseq", "scalarseq") for p in self.params)


def associate(mod, fname: str, laws: Optional[dict] = None) -> CalcAssoc:
    from sympy.physics.units import Dimension
    laws = laws if laws is not None else law_functions(mod)
    f = vars(mod)[fname]
    inp, out, g = calc.decorator_specs(f)
    a = CalcAssoc(mod.__name__, fname, decorated=f, undecorated=g)
    x = fname[len("calculate_"):]
    calcs = [n for n, v in vars(mod).items() if n.startswith("calculate_") and inspect.isfunction(v) and v.__module__ == mod.__name__]
    cands = [x + suf for suf in LAW_SUFFIXES if x + suf in laws]
    if len(cands) == 1:
        a.law, a.how = laws[cands[0]], "name"
    elif len(laws) == 1 and len(calcs) == 1:
        a.law, a.how = next(iter(laws.values())), "only-law-function"
    else:
        # last resort: the only law function whose parameter list is exactly the list of unguarded-by-symbol arguments.
        # Weak evidence: such an association can prove, it can never refute (see _process_calculate).
        own = [p.name for p in inspect.signature(g).parameters.values()
               if not isinstance(inp.get(p.name), sp.Symbol) and p.default is inspect.Parameter.empty]
        same = [l for l in laws.values() if sorted(l.pnames) == sorted(own)]
        if len(same) == 1:
            a.law, a.how = same[0], "signature"
        else:
            a.reason = (f"no law function named {x}_law / {x}_definition; the module has {len(laws)} law functions "
                        f"({', '.join(laws)}) and {len(calcs)} calculate functions, {len(same)} of them with exactly the "
                        f"parameters {own}: association would be a guess")
            return a
    law = a.law
    if law.ret == "other" or any(k == "other" for _, k in law.params):
        a.reason = (f"law function {law.name} works on fields / callables / tuples "
                    f"({', '.join(f'{p}: {ann_str(q.annotation)}' for p, q in inspect.signature(law.fn).parameters.items())})")
        return a
    if isinstance(out, Dimension):
        a.out_dim = out
    elif isinstance(out, sp.Symbol) and getattr(out, "dimension", None) is not None:
        a.out_dim = out.dimension
    lawp = dict(law.params)
    sig = inspect.signature(g)
    for p in sig.parameters.values():
        spec = inp.get(p.name)
        kind = ann_kind(p.annotation)
        cp = CParam(p.name, kind)
        if isinstance(spec, sp.Symbol):
            cp.symbol, cp.dim = spec, getattr(spec, "dimension", None)
        elif isinstance(spec, Dimension):
            cp.dim = spec
        elif spec is not None:
            a.reason = f"argument {p.name}: guard is a {type(spec).__name__}, neither a module symbol nor a dimension"
            return a
        if p.name in lawp:
            cp.law_param = True
            if kind != lawp[p.name]:
                a.reason = f"argument {p.name} is a {kind}, the same-named parameter of {law.name} a {lawp[p.name]}"
                return a
        elif cp.symbol is not None:
            if kind != "scalar":
                a.reason = f"argument {p.name} is guarded by the module symbol {cp.symbol} but is a {kind}"
                return a
        elif p.default is not inspect.Parameter.empty:
            cp.kind = "default"
        else:
            missing = [q for q in lawp if q not in sig.parameters]
            a.reason = (f"argument {p.name} is neither a parameter of {law.name}({', '.join(lawp)}) nor guarded by a module "
                        f"symbol" + (f"; law parameters {missing} have no same-named argument (the arguments are samples / "
                                     "changes of the law's quantities)" if missing else ""))
            return a
        if kind == "other":
            a.reason = f"argument {p.name}: {ann_str(p.annotation)} (field / callable / tuple argument)"
            return a
        a.params.append(cp)
    missing = [q for q in lawp if q not in sig.parameters]
    if missing:
        a.reason = f"parameters {missing} of {law.name} have no same-named argument"
        return a
    syms = [cp.symbol for cp in a.params if cp.symbol is not None]
    if len(set(syms)) != len(syms):
        a.reason = "two arguments are guarded by the same module symbol"
    return a


# ===================================================================================== V2: transparent stand-ins
class TQV:
    """Stand-in for the name `QuantityVector` during the generic run: the same vector on SI values."""

    def __init__(self, components, coordinate_system=None, *, dimension=None):
        if coordinate_system is None:
            coordinate_system = _real_default_cs()
        self._components = [sp.sympify(c) for c in components]
        self._cs = coordinate_system
        self.dimension = dimension
        self.display_name = "VEC"

    @property
    def components(self):
        return list(self._components)

    @property
    def coordinate_system(self):
        return self._cs

    def to_base_vector(self):
        return _vec(self._components, self._cs)

    @staticmethod
    def from_base_vector(vector, *, dimension=None, subs=None):
        comps = vector.components if subs is None else [sp.sympify(c, strict=True).subs(subs) for c in vector.components]
        return TQV(comps, vector.coordinate_system, dimension=dimension)


def _real_default_cs():
    from symplyphysics import QuantityVector
    return QuantityVector.__init__.__defaults__[0]


class TApprox:
    def __init__(self, expected, rel=None, abs=None, nan_ok=False):  # noqa: A002
        self.expected, self.rel, self.abs = expected, rel, abs

    def __eq__(self, other):
        o = sp.sympify(other)
        if o.free_symbols:
            return bool(sp.Eq(o, sp.sympify(self.expected)))
        from pytest import approx
        return other == approx(self.expected, rel=self.rel, abs=self.abs)

    def __ne__(self, other):
        return not self.__eq__(other)

    __hash__ = None


def _t_assert_equal(lhs, rhs, **_kw):
    d = sp.sympify(lhs) - sp.sympify(rhs)
    if d.free_symbols:
        if not bool(sp.Eq(d, 0)):
            raise AssertionError("assert_equal: values differ")
        return
    from symplyphysics import assert_equal
    assert_equal(lhs, rhs, **_kw)


@contextmanager
def transparent_vec(globs: dict):
    from symplyphysics import QuantityVector, assert_equal
    from pytest import approx
    real = {"QuantityVector": (QuantityVector, TQV), "approx": (approx, TApprox), "assert_equal": (assert_equal, _t_assert_equal)}
    with calc.transparent(globs) as rebound:
        saved = {}
        names = set()
        for name, val in list(globs.items()):
            for rn, (obj, repl) in real.items():
                if val is obj:
                    saved[name] = val
                    globs[name] = repl
                    names.add(rn)
        try:
            yield sorted(set(rebound) | names)
        finally:
            globs.update(saved)


# ===================================================================================== V2: generic run
def _arg_symbols(cp: CParam, n: int, length: Optional[int]):
    """generic argument, its symbols.  vec: TQV over ArgSyms; scalar: ArgSym; sequences: lists of those"""
    def vec(tag):
        return [calc.arg_symbol(f"{cp.name}{tag}", None, cp.dim, AXES[i]) for i in range(n)]
    if cp.kind == "vec":
        return vec("")
    if cp.kind == "scalar":
        return calc.arg_symbol(cp.name, cp.symbol, cp.dim)
    if cp.kind == "vecseq":
        return [vec(f"{k + 1}") for k in range(length)]
    if cp.kind == "scalarseq":
        return [calc.arg_symbol(cp.name, None, cp.dim, f"{k + 1}") for k in range(length)]
    raise ValueError(cp.kind)


def expected_value(a: CalcAssoc, values: dict, cs):
    """The independent side: the associated law function on vectors built from `values` (symbols or numbers) in `cs`, module
    symbols replaced by the value of the argument the decorator guards with them.  returns (components | [scalar], cs | None)"""
    kw = {}
    for cp in a.params:
        if not cp.law_param:
            continue
        v = values[cp.name]
        if cp.kind == "vec":
            kw[cp.name] = _vec(v, cs)
        elif cp.kind == "vecseq":
            kw[cp.name] = [_vec(x, cs) for x in v]
        else:
            kw[cp.name] = v
    e = a.law.fn(**kw)
    rep = {cp.symbol: sp.sympify(values[cp.name]) for cp in a.params if cp.symbol is not None}
    if a.law.ret == "vec":
        return [sp.sympify(c).xreplace(rep) for c in e.components], e.coordinate_system
    return [sp.sympify(e).xreplace(rep)], None


def _flat_symbols(args: dict) -> list:
    out = []

    def walk(v):
        if isinstance(v, (list, tuple)):
            for x in v:
                walk(x)
        else:
            out.append(v)
    for v in args.values():
        walk(v)
    return out


class Fallback(Exception):
    """The generic route is not possible for this function: the bounded executed stand-in decides."""


def generic_function(a: CalcAssoc, rng, tier) -> tuple:
    """returns (obs, rebound, axioms, path_conditions) or raises Fallback(reason)"""
    base = f"{PID}/{a.qual}/returns-{a.law.name}-of-its-arguments"
    lengths = list(SEQ_LENGTHS) if a.has_seq else [None]
    has_vec = any(p.kind in ("vec", "vecseq") for p in a.params)
    shapes = list(SHAPES) if has_vec else [3]
    obs, rebound_all, axioms, conds = [], [], [], []
    for length in lengths:
        for n in shapes:
            cs = _cartesian()
            values = {cp.name: _arg_symbols(cp, n, length) for cp in a.params if cp.kind != "default"}
            keep = _flat_symbols(values)
            try:
                with time_limit(calc.EXEC_TIMEOUT_S):
                    E, Ecs = expected_value(a, values, cs)
            except _Timeout:
                raise Fallback(f"law function {a.law.name} on generic vectors exceeded the time limit")
            except Exception as e:  # noqa: BLE001
                if n != 3:
                    continue  # component count not accepted by the law function
                raise Fallback(f"law function {a.law.name} raises on generic vectors: {type(e).__name__}: {str(e)[:160]}")
            free = set().union(*[e.free_symbols for e in E]) - set(keep)
            if free:
                raise Fallback(f"module symbols {sorted(map(str, free))} of {a.law.name} are guarded by no argument "
                               "(their values are not determined by the call)")
            args = {}
            for cp in a.params:
                if cp.kind == "default":
                    continue
                v = values[cp.name]
                if cp.kind == "vec":
                    args[cp.name] = TQV(v, cs, dimension=cp.dim)
                elif cp.kind == "vecseq":
                    args[cp.name] = [TQV(x, cs, dimension=cp.dim) for x in v]
                else:
                    args[cp.name] = v
            g = a.undecorated
            with transparent_vec(g.__globals__) as rebound:
                rebound_all = rebound
                try:
                    with time_limit(calc.EXEC_TIMEOUT_S):
                        paths = calc.fork_run(lambda: g(**args))
                except calc.PathLimit as e:
                    raise Fallback(f"path explosion: {e}")
                except _Timeout as e:
                    raise Fallback(f"generic execution {e}")
            sname = base + (f"/len{length}" if length is not None else "") + f"/dim{n}"
            returned = 0
            live = [(c, o) for c, o in paths if not (c and calc._path_infeasible(c))]
            for k, (cond, (tag, val)) in enumerate(live):
                pname = sname + (f"/path{k}" if len(live) > 1 else "")
                if tag == "raise":
                    if isinstance(val, (ValueError, AssertionError)):
                        continue
                    if n != 3:
                        returned = -1
                        break
                    raise Fallback(f"generic execution raised {type(val).__name__}: {str(val)[:160]}")
                returned += 1
                if isinstance(val, TQV):
                    R, Rcs = val.components, val.coordinate_system
                elif hasattr(val, "components") and hasattr(val, "coordinate_system"):
                    R, Rcs = [sp.sympify(c) for c in val.components], val.coordinate_system
                elif isinstance(val, (sp.Expr, int, float)):
                    R, Rcs = [sp.sympify(val)], None
                else:
                    raise Fallback(f"returned object is a {type(val).__name__}")
                if (Rcs is None) != (Ecs is None):
                    raise Fallback(f"returned a {'scalar' if Rcs is None else 'vector'} where {a.law.name} yields a "
                                   f"{'scalar' if Ecs is None else 'vector'}")
                if any(r.has(sp.nan) or r.has(sp.zoo) or r.has(sp.oo) for r in R):
                    returned -= 1
                    continue
                if any(r.has(sp.I) for r in R):
                    raise Fallback("returned expression contains the imaginary unit")
                stray = set().union(*[r.free_symbols for r in R]) - set(keep)
                if stray:
                    raise Fallback(f"the generic result still contains module symbols {sorted(map(str, stray))}: the real "
                                   "Quantity constructor refuses symbolic values, the function cannot return")
                m = max(len(R), len(E))
                Rz, Ez = R + [sp.S.Zero] * (m - len(R)), E + [sp.S.Zero] * (m - len(E))
                res = [r - e for r, e in zip(Rz, Ez)]
                sig = a.qual
                detail = (f"law={a.law.name} ({a.how}); sigma={{{', '.join(f'{cp.symbol}->{cp.name}' for cp in a.params if cp.symbol is not None)}}}; "
                          f"domain: {_domain_text(E)}" + (f"; path condition: {[str(c) for c in cond]}" if cond else ""))
                if Rcs is not Ecs:
                    ob = Ob(pname, REFUTED, "exec-generic", 0.0, detail + " | the returned vector is not in the coordinate system of "
                            f"{a.law.name}(arguments) (the arguments' system)", sig)
                    model = tr = None
                else:
                    try:
                        ob, model, tr, used, tag2 = discharge(pname, res, assume=cond, domain_exprs=E + R, signature=sig, keep=keep)
                        calc._merge(axioms, used)
                    except Unsupported as e:
                        raise Fallback(f"unsupported: {e}")
                if ob.verdict == PROVED:
                    ob.detail = detail + (f"; {ob.detail}" if ob.detail else "")
                elif ob.verdict == FAULT:
                    pass
                else:
                    solver = f"{ob.verdict} by {ob.backend}: {ob.detail[:200]}"
                    rp = concretize(a, rng, cond, keep, values, model, tr, n, length, tier)
                    if rp.get("reproduced"):
                        ob.verdict = REFUTED
                        ob.detail = (detail + " | " + solver + " | returned: " + str(R)[:200] + " | expected: " + str(E)[:200]
                                     + " | failing input: " + str(rp.get("inputs")))[:1500]
                        ob.replay = rp
                    elif ob.verdict == REFUTED and ob.backend in ("nf", "exec-generic"):
                        # a polynomial non-identity / a wrong coordinate system on the generic summary is definitive
                        ob.detail = (detail + " | " + solver + " | returned: " + str(R)[:200] + " | expected: " + str(E)[:200])[:1500]
                        ob.replay = rp
                    else:
                        raise Fallback(f"solver: {solver}; no failing input found on the real function ({rp.get('message', '')[:100]})")
                obs.append(ob)
                conds.append((n, length, cond))
            if returned == -1:
                continue
            if returned == 0 and n == 3:
                raise Fallback("every generic path raises (the function refuses all symbolic inputs)")
    if not obs:
        raise Fallback("no obligation generated")
    return obs, rebound_all, axioms, conds


# ===================================================================================== V2: executed points
def _entry_values(rng, n, signed=True, small=False):
    out = []
    mag = 1.0 if small else 10.0 ** rng.choice([-3, 0, 0, 3])  # one order of magnitude per argument
    for _ in range(n):
        v = float(rng.randint(1, 6)) if small else mag * math.exp(rng.uniform(math.log(0.2), math.log(8)))
        if signed and rng.random() < 0.45:
            v = -v
        out.append(v)
    return out


PREFIX_NAMES = [p for p, _ in calc.PREFIXES]


def random_entries(a: CalcAssoc, rng, n=3, length=2, family="random"):
    """{param: ("q", si, prefix) | ("v", [si..], prefix) | ("vs", [[..]..], prefix) | ("qs", [..], prefix)}

    family: random | parallel | orthogonal (second and later vectors parallel / orthogonal to the first; small integers)"""
    small = family != "random"
    ent, first = {}, None
    for cp in a.params:
        if cp.kind == "default":
            continue
        pf = rng.choice(PREFIX_NAMES) if not small else rng.choice(["", "kilo"])
        if cp.kind == "vec":
            v = _entry_values(rng, n, small=small)
            if small and first is not None:
                if family == "parallel":
                    k = float(rng.choice([-3, -2, 2, 3]))
                    v = [k * c for c in first]
                else:
                    r = _entry_values(rng, 3, small=True)
                    f3 = first + [0.0] * (3 - len(first))
                    v = [f3[1] * r[2] - f3[2] * r[1], f3[2] * r[0] - f3[0] * r[2], f3[0] * r[1] - f3[1] * r[0]][:n]
                    if n == 2:  # orthogonal in the plane
                        v = [-first[1], first[0]]
            if first is None:
                first = list(v)
            ent[cp.name] = ("v", v, pf)
        elif cp.kind == "scalar":
            sgn = not (cp.symbol is not None and (cp.symbol.is_positive or cp.symbol.is_nonnegative)) and rng.random() < 0.3
            ent[cp.name] = ("q", _entry_values(rng, 1, signed=sgn, small=small)[0], pf)
        elif cp.kind == "vecseq":
            ent[cp.name] = ("vs", [_entry_values(rng, n, small=small) for _ in range(length)], pf)
        elif cp.kind == "scalarseq":
            ent[cp.name] = ("qs", _entry_values(rng, length, signed=False, small=small), pf)
    return ent


def _dim_or_default(cp: CParam):
    from symplyphysics import units
    return cp.dim if cp.dim is not None else units.length


def build_args(a: CalcAssoc, entries: dict):
    from symplyphysics import QuantityVector
    kw = {}
    for cp in a.params:
        if cp.kind == "default":
            continue
        tag, val, pf = entries[cp.name]
        dim = _dim_or_default(cp)
        q = lambda v: calc.make_quantity(dim, float(v), pf)  # noqa: E731
        if tag == "q":
            kw[cp.name] = q(val)
        elif tag == "v":
            kw[cp.name] = QuantityVector([q(v) for v in val])
        elif tag == "vs":
            kw[cp.name] = [QuantityVector([q(v) for v in vec]) for vec in val]
        elif tag == "qs":
            kw[cp.name] = [q(v) for v in val]
        else:
            raise ValueError(tag)
    return kw


def _hp(x):
    """the SAME real number a float scale factor denotes, carried with 40 digits"""
    x = sp.sympify(x)
    if x.is_Float:
        return sp.Float(sp.Rational(x), 40)
    return calc.exactify(x)


class NotEvaluable(Exception):
    pass


def check_point(a: CalcAssoc, entries: dict, verbose=False):
    """Call the REAL decorated function on real Quantity / QuantityVector arguments and compare with the law function
    applied to the arguments' scale factors.  returns (ok, detail).  Exceptions of the function propagate (refusals)."""
    from sympy.physics.units import Quantity as SymQuantity
    kwargs = build_args(a, entries)
    if verbose:
        print("calling", f"{a.modname}.{a.fname}")
        for k, v in kwargs.items():
            print("  ", k, "=", _show(v))
    gate = ""
    try:
        result = a.decorated(**kwargs)
    except Exception as e:  # noqa: BLE001
        if not _output_gate_rejection(e):
            raise
        # the arguments were admitted and the body returned; validate_output rejected the function's OWN result.
        # That is a returned value that cannot be the law's (which has the declared dimension), not a refusal of arguments.
        gate = f"{type(e).__name__}: {e}"[:300]
        result = a.undecorated(**kwargs)
        if verbose:
            print("the decorated function raised on its own result:", gate)
            print("value returned by the undecorated body on the same arguments follows")
    values, cs = {}, None
    for cp in a.params:
        if cp.kind == "default":
            continue
        v = kwargs[cp.name]
        if cp.kind == "vec":
            values[cp.name] = [_hp(c.scale_factor) for c in v.components]
            cs = cs or v.coordinate_system
        elif cp.kind == "vecseq":
            values[cp.name] = [[_hp(c.scale_factor) for c in x.components] for x in v]
            cs = cs or v[0].coordinate_system
        elif cp.kind == "scalarseq":
            values[cp.name] = [_hp(x.scale_factor) for x in v]
        else:
            values[cp.name] = _hp(v.scale_factor)
    cs = cs or _real_default_cs()
    E, Ecs = expected_value(a, values, cs)
    ev = []
    for e in E:
        e = calc.exact_constants(e)
        if e.free_symbols:
            raise NotEvaluable(f"unbound symbols {sorted(map(str, e.free_symbols))} in the law's value")
        c = complex(sp.N(e, 30))
        if c != c or math.isinf(abs(c)) or abs(c.imag) > 1e-12 * max(abs(c.real), 1e-300):
            raise NotEvaluable(f"the law's value {c!r} is not a finite real number at this point")
        ev.append(c.real)
    problems = []
    if gate:
        problems.append("the function's own validate_output gate rejects the value its body returned (" + gate + ")")
    if a.law.ret == "vec":
        if not hasattr(result, "components"):
            return False, f"returned a {type(result).__name__}, the law yields a vector"
        rv = [float(sp.N(c.scale_factor if isinstance(c, SymQuantity) else c, 30)) for c in result.components]
        if result.coordinate_system is not Ecs:
            problems.append("the returned vector is not in the coordinate system of the arguments")
    else:
        if hasattr(result, "components"):
            return False, f"returned a vector, the law yields a scalar"
        rv = [calc.numeric_value(result)]
        if isinstance(rv[0], complex):
            return False, f"returned a complex value {rv[0]!r}"
    m = max(len(rv), len(ev))
    rv, ev = rv + [0.0] * (m - len(rv)), ev + [0.0] * (m - len(ev))
    scale = max([abs(x) for x in rv + ev] + [1e-300])
    worst = max(abs(r - e) for r, e in zip(rv, ev))
    if worst > REL_TOL * scale:
        problems.append(f"max |returned - expected| / scale = {worst / scale:.3e} > {REL_TOL:g}")
    if a.out_dim is not None and hasattr(result, "dimension"):
        if not calc._dims_equiv(_noangle(result.dimension), _noangle(a.out_dim)):
            problems.append(f"result dimension {result.dimension} is not the declared {a.out_dim}")
    detail = f"returned {rv} ; {a.law.name}(arguments) = {ev}" + ("" if not problems else " ; " + "; ".join(problems))
    if verbose:
        print("returned", _show(result))
        print(detail)
    return not problems, detail


def _output_gate_rejection(e) -> bool:
    from symplyphysics.core.errors import UnitsError
    return isinstance(e, UnitsError) and str(e).startswith("Argument 'return' to function")


def _noangle(d):
    try:
        return d.subs("angle", 1)
    except Exception:  # noqa: BLE001
        return d


def _show(v):
    if isinstance(v, (list, tuple)):
        return [_show(x) for x in v]
    if hasattr(v, "components"):
        return [getattr(c, "scale_factor", c) for c in v.components]
    return getattr(v, "scale_factor", v)


def replay_calculate(modname: str, fname: str, entries: dict):
    """Executed by `check --replay`: the REAL decorated function on concrete QuantityVector inputs; asserts the contract."""
    mod = importlib.import_module(modname)
    a = associate(mod, fname)
    assert not a.reason, f"contract cannot be formed any more: {a.reason}"
    ok, detail = check_point(a, entries, verbose=True)
    assert ok, f"{a.qual}: does not return {a.law.name} applied to its arguments: {detail}"


def _families(conds) -> list:
    return ["random", "orthogonal", "parallel"] if any(c for _, _, c in conds) else ["random"]


def executed_points(a: CalcAssoc, rng, npoints: int, conds=(), label="bounded") -> dict:
    """npoints calls of the REAL decorated function; returns dict(accepted, refused, failures, errors, tries)"""
    out = {"accepted": 0, "refused": 0, "failures": [], "errors": [], "tries": 0, "not_evaluable": 0}
    fams = _families(conds)
    lengths = list(SEQ_LENGTHS) if a.has_seq else [2]
    budget = npoints * (4 if len(fams) > 1 else 2)
    t_end = time.time() + calc.FN_BOUNDED_BUDGET_S
    k = 0
    while out["accepted"] < npoints and out["tries"] < budget and time.time() < t_end:
        fam = fams[k % len(fams)]
        n = 3 if k % 4 != 3 else 2
        length = lengths[k % len(lengths)]
        k += 1
        out["tries"] += 1
        entries = random_entries(a, rng, n=n, length=length, family=fam)
        try:
            with time_limit(calc.POINT_TIMEOUT_S):
                with calc._quiet():
                    ok, detail = check_point(a, entries)
        except _Timeout:
            out["errors"].append("timeout")
            continue
        except NotEvaluable as e:
            out["not_evaluable"] += 1
            out["errors"].append(str(e)[:160])
            continue
        except Exception as e:  # noqa: BLE001 - the function refuses this input
            out["refused"] += 1
            out["errors"].append(f"{type(e).__name__}: {e}"[:160])
            continue
        out["accepted"] += 1
        if not ok and len(out["failures"]) < 2:
            script = _script("replay_calculate", a.modname, a.fname, entries)
            rp = try_replay(script)
            out["failures"].append({
                "name": f"{PID}/{a.qual}/returns-{a.law.name}-of-its-arguments/{label}",
                "detail": f"inputs {entries}: {detail}"[:900], "signature": a.qual,
                "replay": {"reproduced": bool(rp["reproduced"]), "script": script, "inputs": {k2: str(v) for k2, v in entries.items()},
                           "output": rp.get("output", "")[-600:]}})
    return out


def concretize(a: CalcAssoc, rng, cond, keep, values, model, tr, n, length, tier) -> dict:
    """Look for real arguments on which the decorated function violates the contract (random, structured, solver model)."""
    tries = 60 if tier == "thorough" else 30
    fams = ["random", "orthogonal", "parallel"] if cond else ["random"]
    last = ""
    cands = []
    for k in range(tries):
        cands.append(random_entries(a, rng, n=n, length=length or 2, family=fams[k % len(fams)]))
    if model is not None and tr is not None:
        try:
            ent = {}
            for cp in a.params:
                if cp.kind == "default":
                    continue
                v = values[cp.name]
                mv = lambda s: (calc._model_value(model, tr, s) or 1.0)  # noqa: E731
                if cp.kind == "vec":
                    ent[cp.name] = ("v", [mv(s) for s in v], "")
                elif cp.kind == "scalar":
                    ent[cp.name] = ("q", mv(v), "")
                elif cp.kind == "vecseq":
                    ent[cp.name] = ("vs", [[mv(s) for s in x] for x in v], "")
                else:
                    ent[cp.name] = ("qs", [mv(s) for s in v], "")
            cands.insert(min(8, len(cands)), ent)
        except Exception:  # noqa: BLE001
            pass
    for entries in cands:
        try:
            with time_limit(calc.POINT_TIMEOUT_S):
                with calc._quiet():
                    ok, detail = check_point(a, entries)
        except _Timeout:
            last = "timeout"
            continue
        except Exception as e:  # noqa: BLE001
            last = f"{type(e).__name__}: {e}"[:160]
            continue
        if not ok:
            script = _script("replay_calculate", a.modname, a.fname, entries)
            rp = try_replay(script)
            if rp["reproduced"]:
                return {"reproduced": True, "script": script, "inputs": {k: str(v) for k, v in entries.items()},
                        "message": detail[:400], "output": rp.get("output", "")[-600:]}
            last = "in-process failure not reproduced in a fresh interpreter: " + rp.get("output", "")[-160:]
        else:
            last = "contract holds at the candidate point"
    return {"reproduced": False, "script": None, "message": last}


# ===================================================================================== module worker
def process(mod, path, tier: str, sd: int, quals: list) -> dict:
    """All vector-form obligations of one module.  `quals`: the calculate functions calc.py left without an equation."""
    t0 = time.time()
    modname = mod.__name__
    out = {"module": short(modname), "file": str(path), "obs": [], "bounded": [], "out_of_reach": [], "functions": {},
           "law_functions": [], "pairs_total": 0, "pairs_proved": 0, "pair_names": [], "by_domain": {}, "rebound": [], "axioms": [],
           "positive_only": [], "inv_audit": {"obligations": 0, "points": 0, "no_point": 0, "failures": []},
           "audit": {"functions": 0, "points": 0, "failures": [], "no_point": 0}, "secs": 0.0, "fault": ""}
    try:
        laws = law_functions(mod)
    except Exception as e:  # noqa: BLE001
        out["fault"] = f"harvest of law functions failed: {type(e).__name__}: {e}"
        return out
    out["law_functions"] = sorted(laws)
    rng = random.Random(f"{sd}|vector|{modname}")
    # ---- V1
    try:
        inv = inverse_obligations(mod, laws, rng, tier)
        for k in ("obs", "bounded", "out_of_reach", "pair_names", "positive_only"):
            out[k] += inv[k]
        out["inv_audit"] = inv["inv_audit"]
        out["pairs_total"], out["pairs_proved"], out["by_domain"] = inv["pairs_total"], inv["pairs_proved"], inv["by_domain"]
        calc._merge(out["axioms"], inv["axioms"])
    except Exception as e:  # noqa: BLE001
        out["fault"] = f"{short(modname)}: mutual-inverse harness: {type(e).__name__}: {e} :: {traceback.format_exc()[-600:]}"
    # ---- V2
    npoints = 20 if tier == "thorough" else 4
    audit_points = 6 if tier == "thorough" else 2
    for qual in quals:
        fname = qual.rsplit(".", 1)[1]
        fr = {"klass": "", "reason": "", "law": "", "how": ""}
        out["functions"][qual] = fr
        try:
            _process_calculate(mod, fname, laws, rng, tier, npoints, audit_points, out, fr)
        except Exception as e:  # noqa: BLE001
            fr["klass"] = "fault"
            fr["reason"] = f"{type(e).__name__}: {e} :: {traceback.format_exc()[-700:]}"
    out["secs"] = time.time() - t0
    return out


def _process_calculate(mod, fname, laws, rng, tier, npoints, audit_points, out, fr):
    a = associate(mod, fname, laws)
    if a.reason:
        fr["klass"], fr["reason"] = "out_of_reach", NO_EQUATION + " (law given as Python functions / vector form); " + a.reason
        return
    fr["law"], fr["how"] = a.law.name, a.how
    try:
        obs, rebound, axioms, conds = generic_function(a, rng, tier)
    except Fallback as fb:
        b = executed_points(a, rng, npoints)
        what = a.qual
        bound = (f"for-all route not possible: {fb}; DECORATED function at {b['accepted']} accepted of {b['tries']} seeded points "
                 f"(real QuantityVector arguments, signed components in [0.2, 8] x 10^{{-3, 0, 3}}, 3 and 2 components, each "
                 f"vector written with one of the prefixes {PREFIX_NAMES}; {b['refused']} refused, {b['not_evaluable']} outside the reals), compared with "
                 f"{a.law.name}(scale factors of the arguments), |difference| <= {REL_TOL:g} of the largest component, declared "
                 f"dimension and coordinate system checked; errors: {b['errors'][:2]}")
        if b["accepted"] == 0:
            fr["klass"] = "out_of_reach"
            fr["reason"] = (NO_EQUATION + f"; for-all route not possible: {fb}; bounded stand-in found no accepted point "
                            f"({b['refused']} refused, {b['not_evaluable']} not evaluable): {'; '.join(b['errors'][:2])}")
            return
        if a.how == "signature" and b["failures"]:
            fr["klass"] = "out_of_reach"
            fr["reason"] = (NO_EQUATION + f"; no law function named after the function; {a.law.name} is the only one with the "
                            "same parameters but the function does not return its value: which law it implements cannot be told "
                            "mechanically")
            return
        out["bounded"].append((what, bound, b["accepted"], not b["failures"], b["failures"]))
        fr["klass"], fr["reason"] = "bounded", str(fb)
        return
    calc._merge(out["rebound"], rebound)
    calc._merge(out["axioms"], axioms)
    verdicts = {o.verdict for o in obs}
    if a.how == "signature" and verdicts != {PROVED}:
        fr["klass"] = "out_of_reach"
        fr["reason"] = (NO_EQUATION + f"; no law function named after the function; {a.law.name} is the only one with the same "
                        "parameters but the function does not return its value: which law it implements cannot be told mechanically")
        return
    if a.has_seq and verdicts <= {PROVED, REFUTED}:
        fails = [{"name": o.name, "detail": o.detail, "signature": o.signature, "replay": o.replay} for o in obs if o.verdict == REFUTED]
        out["bounded"].append((a.qual, f"sequence arguments: returned value == {a.law.name}(arguments) discharged for ALL values at "
                                       f"lengths {list(SEQ_LENGTHS)} x {list(SHAPES)} components "
                                       f"({', '.join(sorted({o.backend for o in obs}))}); other lengths not covered",
                               len(obs), not fails, fails))
        fr["klass"], fr["reason"] = "bounded_length", "sequence arguments: proved for all values at lengths 1..3 only"
    else:
        out["obs"] += obs
        fr["klass"] = ("refuted" if REFUTED in verdicts else "fault" if FAULT in verdicts else "proved")
    if fr["klass"] in ("proved", "bounded_length") and audit_points:
        au = executed_points(a, rng, audit_points, conds=conds, label="audit-of-proved")
        out["audit"]["functions"] += 1
        out["audit"]["points"] += au["accepted"]
        out["audit"]["failures"] += au["failures"]
        out["audit"]["no_point"] += 1 if au["accepted"] == 0 else 0


# ===================================================================================== merge into the C02 report
def merge(report, vec: dict, counters: dict) -> dict:
    """Called by props/c02.py per module.  returns {qual: (klass, reason)} for the calculate functions handled here."""
    if vec.get("fault"):
        report.fault(vec["fault"])
    report.extend(vec["obs"])
    for what, bound, count, clean, fails in vec["bounded"]:
        report.add_bounded(what, bound, count, clean, fails)
    for what, why in vec["out_of_reach"]:
        report.add_out_of_reach(what, why[:600])
    counters["vector_modules"] += 1
    counters["law_functions"] += len(vec["law_functions"])
    counters["inverse_pairs"] += vec["pairs_total"]
    counters["inverse_pairs_proved"] += vec["pairs_proved"]
    for k, v in vec["by_domain"].items():
        counters["inverse_obligations_by_domain"][k] = counters["inverse_obligations_by_domain"].get(k, 0) + v
    for k in ("functions", "points", "no_point"):
        counters["audit"][k] += vec["audit"][k]
    counters["audit"]["failures"] += vec["audit"]["failures"]
    counters["positive_only"] += vec.get("positive_only", [])
    for k in ("obligations", "points", "no_point"):
        counters["inv_audit"][k] += vec["inv_audit"][k]
    counters["inv_audit"]["failures"] += vec["inv_audit"]["failures"]
    counters["rebound"] |= set(vec["rebound"])
    counters["axioms"] |= set(vec["axioms"])
    if vec["law_functions"]:
        for n in vec["law_functions"]:
            report.function(f"{vec['module']}.{n}", vec["file"], "vector-form law function")
    res = {}
    for qual, fr in vec["functions"].items():
        res[qual] = (fr["klass"], fr["reason"])
        if fr["klass"] == "proved":
            counters["calculate_functions_proved"] += 1
        elif fr["klass"] in ("bounded", "bounded_length"):
            counters["calculate_functions_bounded"] += 1
        elif fr["klass"] == "fault":
            report.fault(f"{qual}: {fr['reason'][:600]}")
    return res


def new_counters() -> dict:
    return {"vector_modules": 0, "law_functions": 0, "inverse_pairs": 0, "inverse_pairs_proved": 0,
            "inverse_obligations_by_domain": {}, "calculate_functions_proved": 0, "calculate_functions_bounded": 0,
            "audit": {"functions": 0, "points": 0, "no_point": 0, "failures": []}, "rebound": set(), "axioms": set(),
            "positive_only": [], "inv_audit": {"obligations": 0, "points": 0, "no_point": 0, "failures": []}}


def finish(report, counters: dict, full_run: bool):
    a = counters["audit"]
    if a["functions"]:
        report.add_bounded("vector-form modules: audit of the proved calculate functions: DECORATED function on real Quantity / "
                           "QuantityVector arguments (signed components in [0.2, 8] x 10^{-3, 0, 3}, 3 and 2 components, unit prefixes; orthogonal / parallel "
                           "integer vectors where the function checks such a condition) must return the law function applied to "
                           "the arguments' scale factors, in the arguments' coordinate system and with the declared dimension "
                           "(checks the transparent QuantityVector / Quantity stand-ins and the generic summary)",
                           f"{a['points']} points over {a['functions']} functions ({a['no_point']} functions without an accepted "
                           f"point), |difference| <= {REL_TOL:g} of the largest component",
                           a["points"], not a["failures"], a["failures"])
    ia = counters["inv_audit"]
    if ia["obligations"]:
        report.add_bounded("vector-form modules: audit of the proved inverse pairs: the REAL law functions composed on concrete "
                           "rational vectors (module scalars positive rationals, constants at their real values, magnitudes 1 and "
                           "constant/3, constant/7), g(f(x, S), S) == x",
                           f"{ia['points']} points over {ia['obligations']} proved obligations ({ia['no_point']} without an evaluable "
                           f"point), |difference| <= {EXACT_TOL:g} relative on 40-digit evaluation of exact values",
                           ia["points"], not ia["failures"], ia["failures"])
    report.extra.update({
        "vector_modules": counters["vector_modules"],
        "vector_law_functions": counters["law_functions"],
        "inverse_pairs": counters["inverse_pairs"],
        "inverse_pairs_proved": counters["inverse_pairs_proved"],
        "inverse_obligations_by_domain": counters["inverse_obligations_by_domain"],
        "calculate_functions_proved": counters["calculate_functions_proved"],
        "calculate_functions_bounded": counters["calculate_functions_bounded"],
        "inverse_obligations_proved_only_for_positive_module_scalars": sorted(counters["positive_only"]),
    })
    if counters["positive_only"]:
        report.assume("vector-form modules, DOMAIN ASSUMPTION NOT STATED BY THE MODULES: the inverse pairs listed under "
                      "coverage.inverse_obligations_proved_only_for_positive_module_scalars are inverses only when the named "
                      "module scalars (rest mass ...) are positive; over all real values the composition returns sign(scalar) * x")
    if counters["vector_modules"]:
        report.assume(*ASSUMPTIONS)
        report.trust(*TRUSTED)
        for n in sorted(counters["rebound"]):
            if n in REBOUND:
                report.assume(f"rebound in the module globals during generic execution: {n}: {REBOUND[n]}")
        for ax in sorted(counters["axioms"]):
            report.assume(f"axiom instance used as hypothesis: {ax}")
    if full_run:
        if counters["vector_modules"] < 30:
            report.fault(f"vacuity: only {counters['vector_modules']} vector-form modules found")
        if counters["inverse_pairs_proved"] < 20:
            report.fault(f"vacuity: only {counters['inverse_pairs_proved']} inverse pairs proved")
        if counters["calculate_functions_proved"] < 25:
            report.fault(f"vacuity: only {counters['calculate_functions_proved']} vector-form calculate functions proved")
