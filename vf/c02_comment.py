"""C02 (V3): a vector-form law function computes the statement its module PUBLISHES.

A vector-form module has no equation object; what it publishes is (a) the law function and (b) the `# Law: ...` statement in
the module's header comment.  (V1)/(V2) of vf.c02_vector tie calculate_* to the law function, so a law function that no
longer computes the published statement passes them.  This contract closes the gap for the modules whose statement is written
in a machine-readable vector notation:

    post(law_fn):  for all real components of the vector arguments and all values of the scalars,
                   statement[ result := law_fn(args) ]  holds componentwise.

What is read from /repo on every run: the statement text (the `# Law:` comment, continuation lines included) and the real law
function, which is EXECUTED on generic vectors over fresh real symbols.  What the sidecar table below supplies: which law
function the statement is solved for and which name of the statement is which parameter / module symbol / constant (the
statement uses textbook letters, the code uses words; the legend that connects them is prose).  The residual is discharged by
SymPy's polynomial normal form (together + expand == 0); a non-zero residual must be reproduced at a rational point on the
real function before it is reported.  Nothing is assumed about modules outside the table: they stay with (V1)/(V2).
"""
from __future__ import annotations

import ast
import importlib
import inspect
import random
import re
import time
from fractions import Fraction

import sympy as sp

from .core import Ob, PROVED, REFUTED, UNKNOWN, FAULT, REPO, try_replay

PID = "C02"
RESULT = "<result>"

# module -> law function, statement name -> parameter name | "@module attribute" | "=expression in statement notation" | RESULT
TABLE = {
    "symplyphysics.laws.gravity.vector.falling_body_displacement": {
        "fn": "displacement_law", "drop": ["+ O(t**5)"],
        "names": {"s": RESULT, "t": "time_", "v0": "initial_velocity_", "w": "angular_velocity_",
                  "g": "acceleration_due_to_gravity_"}},
    "symplyphysics.laws.gravity.vector.relative_acceleration_from_force": {
        "fn": "acceleration_law",
        "names": {"a": RESULT, "g": "acceleration_due_to_gravity_", "a_cor": "coriolis_acceleration_", "F": "force_",
                  "m": "@mass"}},
    "symplyphysics.laws.gravity.vector.acceleration_due_to_gravity_via_gravity_force_and_centripetal_acceleration": {
        "fn": "acceleraton_due_to_gravity_law",
        "names": {"g": RESULT, "F_gravity": "gravity_force_", "a_centripetal": "centripetal_acceleration_", "m": "@mass"}},
    "symplyphysics.laws.dynamics.vector.relative_acceleration_from_force": {
        "fn": "relative_acceleration_law",
        "names": {"a_rel": RESULT, "F": "force_", "a_cor": "coriolis_acceleration_", "a_tr": "translation_acceleration_",
                  "m": "@mass"}},
    "symplyphysics.laws.dynamics.vector.instantaneous_power_is_force_dot_velocity": {
        "fn": "power_law", "names": {"P": RESULT, "F": "force_", "v": "velocity_"}},
    "symplyphysics.laws.dynamics.vector.torque_vector_of_twisting_force": {
        "fn": "torque_definition", "names": {"tau": RESULT, "r": "position_", "F": "force_"}},
    "symplyphysics.laws.dynamics.vector.restoring_torque_due_to_twist_of_torsion_pendulum": {
        "fn": "torque_law", "names": {"tau": RESULT, "theta": "rotation_vector_", "kappa": "@torsion_constant"}},
    "symplyphysics.laws.kinematics.vector.velocity_of_transfer_between_reference_frames": {
        "fn": "transfer_velocity_law",
        "names": {"v_tr": RESULT, "v_0": "moving_frame_velocity_", "w": "angular_velocity_", "r": "position_vector_"}},
    "symplyphysics.laws.relativistic.vector.energy_momentum_relation": {
        "fn": "momentum_law", "names": {"p": RESULT, "v": "velocity_", "E": "@total_energy", "c": "@speed_of_light"}},
    "symplyphysics.laws.relativistic.vector.relativistic_momentum": {
        "fn": "momentum_law", "names": {"p": RESULT, "v": "velocity_", "m0": "@rest_mass", "c": "@speed_of_light"}},
    "symplyphysics.laws.relativistic.vector.relativistic_mass_moment": {
        "fn": "mass_moment_law",
        "names": {"N": RESULT, "x": "position_", "v": "velocity_", "t": "@time", "m0": "@rest_mass",
                  "gamma": "=1 / sqrt(1 - dot(v, v) / c**2)", "c": "@quantities.speed_of_light"}},
    "symplyphysics.laws.waves.vector.phase_velocity_from_angular_velocity_and_wavevector": {
        "fn": "phase_velocity_law", "names": {"v": RESULT, "k": "wavevector_", "w": "@angular_frequency"}},
}


class Unreadable(Exception):
    pass


def statement_text(path) -> str:
    """The `# Law:` statement of the real module: the text after `# Law:` and its `#   ...` continuation lines."""
    lines = open(path, encoding="utf-8").read().splitlines()
    for i, line in enumerate(lines):
        if line.startswith("# Law:"):
            parts = [line[len("# Law:"):]]
            for nxt in lines[i + 1:]:
                if nxt.startswith("##") or not re.match(r"#\s{2,}\S", nxt):
                    break
                parts.append(nxt[1:])
            return " ".join(p.strip() for p in parts).strip()
    raise Unreadable("no `# Law:` statement in the module header")


def _to_python(text: str) -> str:
    text = re.sub(r"\|([^|]+)\|", r"norm(\1)", text)  # |v| -> norm(v)
    return text


class Vec(tuple):
    pass


def _vec_op(f, a, b):
    return Vec(f(x, y) for x, y in zip(a, b))


def _eval(node, env):
    """Statement notation -> value: SymPy scalars and 3-tuples of SymPy scalars (Vec)."""
    if isinstance(node, ast.Expression):
        return _eval(node.body, env)
    if isinstance(node, ast.Constant) and isinstance(node.value, (int, float)) and not isinstance(node.value, bool):
        return sp.Rational(str(node.value))
    if isinstance(node, ast.Name):
        if node.id not in env:
            raise Unreadable(f"name {node.id!r} of the statement is not in the sidecar table")
        v = env[node.id]
        if isinstance(v, str):  # a definition in statement notation, evaluated lazily
            env[node.id] = v = _eval(ast.parse(_to_python(v), mode="eval"), env)
        return v
    if isinstance(node, ast.UnaryOp) and isinstance(node.op, (ast.USub, ast.UAdd)):
        v = _eval(node.operand, env)
        if isinstance(node.op, ast.UAdd):
            return v
        return Vec(-c for c in v) if isinstance(v, Vec) else -v
    if isinstance(node, ast.BinOp):
        a, b = _eval(node.left, env), _eval(node.right, env)
        va, vb = isinstance(a, Vec), isinstance(b, Vec)
        if isinstance(node.op, (ast.Add, ast.Sub)):
            if va != vb:
                raise Unreadable("sum of a vector and a scalar")
            f = (lambda x, y: x + y) if isinstance(node.op, ast.Add) else (lambda x, y: x - y)
            return _vec_op(f, a, b) if va else f(a, b)
        if isinstance(node.op, ast.Mult):
            if va and vb:
                raise Unreadable("product of two vectors without dot/cross")
            if va:
                return Vec(c * b for c in a)
            if vb:
                return Vec(a * c for c in b)
            return a * b
        if isinstance(node.op, ast.Div):
            if vb:
                raise Unreadable("division by a vector")
            return Vec(c / b for c in a) if va else a / b
        if isinstance(node.op, ast.Pow):
            if va or vb:
                raise Unreadable("power of a vector")
            return a**b
    if isinstance(node, ast.Call) and isinstance(node.func, ast.Name) and not node.keywords:
        args = [_eval(x, env) for x in node.args]
        f = node.func.id
        if f == "cross" and len(args) == 2 and all(isinstance(x, Vec) for x in args):
            (a1, a2, a3), (b1, b2, b3) = args
            return Vec((a2 * b3 - a3 * b2, a3 * b1 - a1 * b3, a1 * b2 - a2 * b1))
        if f == "dot" and len(args) == 2 and all(isinstance(x, Vec) for x in args):
            return sum((x * y for x, y in zip(*args)), sp.S.Zero)
        if f == "norm" and len(args) == 1 and isinstance(args[0], Vec):
            return sp.sqrt(sum((x * x for x in args[0]), sp.S.Zero))
        if f == "sqrt" and len(args) == 1 and not isinstance(args[0], Vec):
            return sp.sqrt(args[0])
        raise Unreadable(f"call {f}/{len(args)} is outside the statement notation")
    raise Unreadable(f"{type(node).__name__} is outside the statement notation")


def _sides(entry, path):
    text = statement_text(path)
    for d in entry.get("drop", ()):
        if d not in text:
            raise Unreadable(f"the statement no longer contains the truncation term {d!r}")
        text = text.replace(d, "")
    if text.count("=") != 1:
        raise Unreadable(f"statement {text!r} is not of the form lhs = rhs")
    lhs, rhs = text.split("=")
    try:
        return text, ast.parse(_to_python(lhs.strip()), mode="eval"), ast.parse(_to_python(rhs.strip()), mode="eval")
    except SyntaxError as ex:
        raise Unreadable(f"statement {text!r} does not parse: {ex}") from ex


def _setup(modname, values=None):
    """Execute the real law function on generic (values=None) or numeric vectors; returns (text, residual components, symbols)."""
    from .c02_vector import _cartesian, _vec, _components, ann_kind
    entry = TABLE[modname]
    mod = importlib.import_module(modname)
    path = inspect.getsourcefile(mod)
    text, lhs, rhs = _sides(entry, path)
    fn = getattr(mod, entry["fn"], None)
    if fn is None:
        raise Unreadable(f"law function {entry['fn']} is gone")
    sig = inspect.signature(fn)
    params = {p.name: ann_kind(p.annotation) for p in sig.parameters.values()}
    cs = _cartesian()
    env, args, syms = {}, {}, []
    used = set()
    for name, target in entry["names"].items():
        if target == RESULT:
            continue
        if target.startswith("="):
            env[name] = target[1:]
        elif target.startswith("@"):
            if target.startswith("@quantities."):  # a constant of the catalogue the module itself does not bind
                obj = getattr(importlib.import_module("symplyphysics.quantities"), target[len("@quantities."):], None)
            else:
                obj = getattr(mod, target[1:], None)
            if obj is None:
                raise Unreadable(f"module attribute {target[1:]} is gone")
            env[name] = sp.sympify(obj)
        else:
            if target not in params:
                raise Unreadable(f"{entry['fn']} has no parameter {target}")
            used.add(target)
            if params[target] == "vec":
                comps = [sp.Symbol(f"{name}_{ax}", real=True) for ax in "xyz"]
                syms += comps
                env[name] = Vec(comps)
                args[target] = _vec(comps, cs)
            else:
                s = sp.Symbol(name, real=True)
                syms.append(s)
                env[name] = s
                args[target] = s
    if used != set(params):
        raise Unreadable(f"parameters {sorted(set(params) - used)} of {entry['fn']} are not named by the statement")
    result = fn(**args)
    rname = next(k for k, v in entry["names"].items() if v == RESULT)
    if hasattr(result, "components"):
        env[rname] = Vec(_components(result, 3))
    else:
        env[rname] = sp.sympify(result)
    L, R = _eval(lhs, env), _eval(rhs, env)
    if isinstance(L, Vec) != isinstance(R, Vec):
        raise Unreadable("one side of the statement is a vector, the other a scalar")
    res = [a - b for a, b in zip(L, R)] if isinstance(L, Vec) else [L - R]
    return text, res, syms


def _is_zero(e) -> bool:
    e = sp.sympify(e)
    if e == 0:
        return True
    n, _d = sp.fraction(sp.together(e))
    if sp.expand(n) == 0:
        return True
    return sp.simplify(e) == 0


def _numeric_point(res, syms, rng):
    """A rational point (all symbols, the module's own scalars included, positive for those declared so) at which some residual
    component is clearly non-zero relative to the size of its terms."""
    free = sorted(set().union(*[sp.sympify(r).free_symbols for r in res]) | set(syms), key=str)
    from sympy.physics.units import Quantity as SymQuantity
    for _ in range(40):
        pt = {}
        for s in free:
            q = Fraction(rng.randint(1, 40), rng.randint(1, 9))
            if not s.is_positive and rng.random() < 0.4:
                q = -q
            pt[s] = sp.Rational(q.numerator, q.denominator)
        worst = 0.0
        try:
            for r in res:
                r = sp.sympify(r)
                for qy in r.atoms(SymQuantity):
                    r = r.subs(qy, sp.Float(float(qy.scale_factor)))
                v = complex(sp.N(r.subs(pt), 30))
                terms = [abs(complex(sp.N(sp.sympify(t).subs(pt).subs({qy: float(qy.scale_factor) for qy in sp.sympify(t).atoms(SymQuantity)}), 30)))
                         for t in sp.Add.make_args(sp.expand(r))] or [1.0]
                scale = max(terms + [1e-300])
                worst = max(worst, abs(v) / scale)
        except (TypeError, ValueError, ZeroDivisionError):
            continue
        if worst > 1e-9:
            return {str(k): str(v) for k, v in pt.items()}, worst
    return None, 0.0


def replay(modname: str, point: dict):
    """Asserting replay: the real law function at the rational point against the module's own published statement."""
    text, res, syms = _setup(modname)
    from sympy.physics.units import Quantity as SymQuantity
    free = sorted(set().union(*[sp.sympify(r).free_symbols for r in res]), key=str)
    rep = {s: sp.Rational(point[str(s)]) for s in free if str(s) in point}
    vals = []
    for r in res:
        r = sp.sympify(r).subs(rep)
        r = r.subs({qy: sp.Float(float(qy.scale_factor)) for qy in r.atoms(SymQuantity)})
        vals.append(complex(sp.N(r, 30)))
    print(f"{modname}.{TABLE[modname]['fn']} against its published statement `{text}` at {point}:\n  statement residual "
          f"(lhs - rhs with the function's result substituted) = {vals}")
    assert all(abs(v) < 1e-9 * max(1.0, max(abs(x) for x in vals)) and abs(v) < 1e-6 for v in vals), \
        f"C02 {modname}.{TABLE[modname]['fn']} does not satisfy the published statement `{text}`: residual {vals}"


def run(report, only=None):
    rng = random.Random(20260927)
    n = 0
    for modname, entry in TABLE.items():
        if only and modname not in only and modname.replace("symplyphysics.", "") not in only:
            continue
        name = f"{PID}/{modname.replace('symplyphysics.', '')}.{entry['fn']}/computes-the-published-statement"
        t0 = time.time()
        path = REPO / (modname.replace(".", "/") + ".py")
        if not path.exists():
            report.add(Ob(name, UNKNOWN, "gen", 0, f"module {modname} is gone: the published-statement contract has no subject"))
            continue
        try:
            text, res, syms = _setup(modname)
        except Unreadable as ex:
            report.add(Ob(name, UNKNOWN, "gen", (time.time() - t0) * 1000,
                          f"published statement not readable any more: {ex}", modname))
            continue
        except Exception as ex:  # noqa: BLE001
            report.add(Ob(name, FAULT, "gen", (time.time() - t0) * 1000, f"{type(ex).__name__}: {str(ex)[:300]}", modname))
            continue
        n += 1
        report.function(f"{modname}.{entry['fn']}", path, "executed on generic vectors against the module's `# Law:` statement")
        bad = [r for r in res if not _is_zero(r)]
        ms = (time.time() - t0) * 1000
        if not bad:
            report.add(Ob(name, PROVED, "nf", ms, f"statement `{text}` holds componentwise for the function's result", modname))
            continue
        point, worst = _numeric_point(bad, syms, rng)
        if point is None:
            report.add(Ob(name, UNKNOWN, "nf", ms, f"residual of `{text}` not reduced to zero and no clear numeric witness: "
                                                    f"{str(bad[0])[:200]}", modname))
            continue
        script = ("import os, sys\nsys.path.insert(0, os.environ.get('VERIF_REPO', '/repo'))\n"
                  "from vf import c02_comment\n" f"c02_comment.replay({modname!r}, {point!r})\n")
        rp = try_replay(script)
        if not rp["reproduced"]:
            report.add(Ob(name, UNKNOWN, "nf", ms, f"residual of `{text}` is not identically zero ({str(bad[0])[:200]}) but the "
                                                    f"replay at {point} on the real function does not fail: undecided", modname, rp))
            continue
        report.add(Ob(name, REFUTED, "nf", ms,
                      f"the result of {entry['fn']} does not satisfy the published statement `{text}`: relative residual "
                      f"{worst:.3g} at {point}; symbolic residual {str(bad[0])[:200]}", modname,
                      rp))
    report.extra["published_statement_contracts"] = n
    if not only and n < len(TABLE):
        report.fault(f"published-statement contracts: only {n} of {len(TABLE)} table rows could be generated")
    report.assume("vector-form modules (V3): the correspondence between the letters of a `# Law:` statement and the parameters / "
                  "module symbols of its law function is the sidecar table vf/c02_comment.py:TABLE (12 modules; gamma of the "
                  "mass-moment statement is supplied as 1/sqrt(1 - v.v/c**2)); the truncation term O(t**5) is dropped")
