"""R^3 semantics of coordinate-free vector expressions (the oracle of C14 / C16), written from the definitions.

sem(expr, env) -> ('v', (x, y, z)) for vector-valued, ('s', e) for scalar-valued expressions.
  VectorSymbol v                 -> three real symbols  v_x, v_y, v_z            (env.vec)
  AppliedVectorFunction f(args)  -> three undefined real functions of the args   (env.fun)
  Add / Mul                      -> componentwise / scalar multiple
  VectorDot, VectorCross, VectorMixedProduct, VectorNorm -> dot, cross, a.(b x c), sqrt(v.v)
  Derivative (incl. VectorDerivative) of anything -> derivative of the semantics, componentwise
"""
from __future__ import annotations

import sympy as sp


class Env:
    def __init__(self, gen=None):
        self.vecs: dict = {}
        self.funs: dict = {}
        self.gen = gen
        self.names: dict = {}

    def vec(self, v):
        if v not in self.vecs:
            n = self.names.get(v) or f"v{len(self.vecs)}"
            if self.gen is not None:
                self.vecs[v] = tuple(self.gen.sym(f"{n}_{c}") for c in "xyz")
            else:
                self.vecs[v] = tuple(sp.Symbol(f"{n}_{c}", real=True) for c in "xyz")
        return self.vecs[v]

    def fun(self, fcls, args):
        if fcls not in self.funs:
            n = self.names.get(fcls) or f"f{len(self.funs)}"
            self.funs[fcls] = n
        n = self.funs[fcls]
        if self.gen is not None:
            return tuple(self.gen.fun(f"{n}_{c}", list(args)) for c in "xyz")
        return tuple(sp.Function(f"{n}_{c}", real=True)(*args) for c in "xyz")


def _V():
    from symplyphysics.core.experimental import vectors as V
    return V


def dot3(a, b):
    return sum(x * y for x, y in zip(a, b))


def cross3(a, b):
    return (a[1] * b[2] - a[2] * b[1], a[2] * b[0] - a[0] * b[2], a[0] * b[1] - a[1] * b[0])


class SemError(Exception):
    pass


def sem(e, env: Env):
    V = _V()
    e = sp.sympify(e)
    if isinstance(e, V.VectorSymbol):
        return "v", env.vec(e)
    if isinstance(e, V.AppliedVectorFunction):
        args = []
        for a in e.args:
            k, s = sem(a, env)
            if k != "s":
                raise SemError("vector argument of a vector function")
            args.append(s)
        return "v", env.fun(type(e), args)
    if isinstance(e, V.VectorDot):
        (k1, a), (k2, b) = sem(e.args[0], env), sem(e.args[1], env)
        a, b = _asvec(k1, a), _asvec(k2, b)
        return "s", dot3(a, b)
    if isinstance(e, V.VectorCross):
        (k1, a), (k2, b) = sem(e.args[0], env), sem(e.args[1], env)
        return "v", cross3(_asvec(k1, a), _asvec(k2, b))
    if isinstance(e, V.VectorMixedProduct):
        a, b, c = (_asvec(*sem(x, env)) for x in e.args)
        return "s", dot3(a, cross3(b, c))
    if isinstance(e, V.VectorNorm):
        a = _asvec(*sem(e.args[0], env))
        return "s", sp.sqrt(dot3(a, a))
    if isinstance(e, sp.Derivative):
        k, inner = sem(e.expr, env)
        vc = []
        for v, n in e.variable_count:
            kv, sv = sem(v, env)
            if kv != "s":
                raise SemError("derivative with respect to a vector")
            vc.append((sv, n))
        if k == "v":
            return "v", tuple(sp.diff(c, *vc) for c in inner)
        return "s", sp.diff(inner, *vc)
    if e.is_Add:
        parts = [sem(a, env) for a in e.args]
        kinds = {k for k, s in parts if not (k == "s" and s == 0)}
        if "v" in kinds:
            acc = [sp.S.Zero] * 3
            for k, s in parts:
                if k == "s":
                    if s != 0:
                        raise SemError("scalar added to vector")
                    continue
                acc = [x + y for x, y in zip(acc, s)]
            return "v", tuple(acc)
        return "s", sp.Add(*[s for _, s in parts])
    if e.is_Mul:
        parts = [sem(a, env) for a in e.args]
        vecs = [s for k, s in parts if k == "v"]
        sc = sp.Mul(*[s for k, s in parts if k == "s"])
        if len(vecs) > 1:
            raise SemError("product of two vectors")
        if vecs:
            return "v", tuple(sc * c for c in vecs[0])
        return "s", sc
    if e.is_Pow:
        (kb, b), (kx, x) = sem(e.base, env), sem(e.exp, env)
        if kb != "s" or kx != "s":
            raise SemError("vector in a power")
        return "s", sp.Pow(b, x)
    if e.is_Atom:
        return "s", e
    # all values are real (vector symbols denote real 3-vectors): re x = x, im x = 0, conjugate x = x
    if isinstance(e, (sp.re, sp.conjugate)):
        return sem(e.args[0], env)
    if isinstance(e, sp.im):
        return "s", sp.S.Zero
    if isinstance(e, (sp.Abs, sp.sign, sp.sin, sp.cos, sp.exp, sp.log, sp.tan, sp.Max, sp.Min)) or isinstance(e, sp.core.function.AppliedUndef):
        args = []
        for a in e.args:
            k, s = sem(a, env)
            if k != "s":
                raise SemError("vector argument of a scalar function")
            args.append(s)
        return "s", e.func(*args)
    raise SemError(f"no semantics for {type(e).__name__}: {e}")


def _asvec(kind, val):
    if kind == "v":
        return val
    if val == 0:
        return (sp.S.Zero,) * 3
    raise SemError("scalar where a vector is required")
