"""C02 harness: contracts of calculate_* functions from their decorators, generic execution with forking,
law-residual obligations (nf / z3), bounded numeric stand-in on the decorated function, replay helpers.

Everything here runs inside a worker process on ONE catalogue module at a time (module import dominates the cost).
The real package is whatever `VERIF_REPO` puts first on sys.path (vf.cli does that).
"""
from __future__ import annotations

import ast
import importlib
import inspect
import math
import os
import random
import signal
import time
import traceback
from contextlib import contextmanager
from dataclasses import dataclass, field
from fractions import Fraction
from pathlib import Path
from typing import Any, Optional

import sympy as sp
import z3

from .core import Ob, PROVED, REFUTED, UNKNOWN, FAULT, PKG, VERIF, seed, try_replay
from .smt import prove as smt_prove, check_sat, model_str
from .sym2smt import Tr, Unsupported, nf_is_zero

PID = "C02"
SUBPACKAGES = ("laws", "definitions", "conditions")
MAX_PATHS = 32
SEQ_LENGTHS = (1, 2, 3)
REL_TOL = 1e-6
EXEC_TIMEOUT_S = int(os.environ.get("VERIF_C02_EXEC_TIMEOUT", "60"))
SMT_TIMEOUT_S = float(os.environ.get("VERIF_SMT_TIMEOUT", "90"))  # one waveguide law needs ~15 s unloaded: budget sized for a busy 16-core host
POINT_TIMEOUT_S = int(os.environ.get("VERIF_C02_POINT_TIMEOUT", "20"))
FN_BOUNDED_BUDGET_S = int(os.environ.get("VERIF_C02_BOUNDED_BUDGET", "120"))
NF_TIMEOUT_S = int(os.environ.get("VERIF_C02_NF_TIMEOUT", "15"))
WORKER_MEM_GB = float(os.environ.get("VERIF_C02_MEM_GB", "6"))

# functions documented (by their code/docstring) to return a magnitude / a rounded-up integer of the solution.
# Explicit list: a function that starts using abs()/ceiling() without being listed is held to the plain law.
DOCUMENTED_OPS = {
    "laws.dynamics.buoyant_force_from_density_and_volume.calculate_force_buoyant": "abs",
    "laws.dynamics.reaction_force_from_action_force.calculate_force_reaction": "abs",
    "definitions.impedance_is_resistance_and_reactance.calculate_impedance_magnitude": "abs",
    "laws.electricity.circuits.filters.filter_order_from_distortion_and_frequencies.calculate_order": "ceiling",
    "laws.electricity.circuits.filters.band_pass_chebyshev_filter_oder_from_distortion_and_frequencies."
    "calculate_band_pass_chebyshev_filter_order": "ceiling",
    "laws.electricity.circuits.filters.butterworth_filter_order_from_distortion_and_frequencies."
    "calculate_butterworth_filter_order": "ceiling",
    "laws.electricity.circuits.filters.high_pass_chebyshev_filter_order_from_distortion_and_frequencies."
    "calculate_chebyshev_filter_order": "ceiling",
    "laws.electricity.circuits.filters.low_pass_chebyshev_filter_order_from_distortion_and_frequencies."
    "calculate_low_pass_chebyshev_filter_order": "ceiling",
}

# names rebound in the module's globals for the duration of the generic execution (worker process only).
REBOUND = {
    "Quantity": "Quantity(expr, dimension=...) -> expr  (C05: the SI value of the built quantity is the value of expr)",
    "convert_to": "convert_to(v, unit) -> v / scale_factor(unit)  (C07)",
    "convert_to_float": "convert_to_float(v) -> v  (C07, SI value)",
    "convert_to_si": "convert_to_si(v) -> v  (C07, SI value)",
    "scale_factor": "scale_factor(v) -> v  (SI value of an argument is the argument symbol itself)",
    "assert_equivalent_dimension": "assert_equivalent_dimension(...) -> no-op  (C04: arguments are dimensionally valid "
                                   "by the property's premise; the dimension of the result is C04's concern)",
    "Probability": "Probability(v) -> v, refusing v outside [0, 1]  (contract of core/symbols/probability.py)",
    "Fraction": "Fraction(v) -> v, refusing v outside [0, 1]  (contract of core/symbols/fraction.py)",
    "int": "int(v) -> v when v is a symbolic expression SymPy knows to be integral (ceiling(..)); any other symbolic v becomes "
           "an uninterpreted truncation term (no proof goes through it)",
}


# ===================================================================================== enumeration
def catalogue_files(pkg: Path = PKG) -> list[tuple[str, Path]]:
    out = []
    for sub in SUBPACKAGES:
        for p in sorted((pkg / sub).rglob("*.py")):
            if p.name == "__init__.py":
                continue
            rel = p.relative_to(pkg.parent).with_suffix("")
            out.append((".".join(rel.parts), p))
    return out


def ast_calculate_defs(path: Path) -> list[str]:
    """Independent (no import) count: top-level `def calculate_*`."""
    tree = ast.parse(path.read_text())
    return [n.name for n in tree.body if isinstance(n, ast.FunctionDef) and n.name.startswith("calculate_")]


def short(modname: str) -> str:
    return modname.split("symplyphysics.", 1)[-1]


# ===================================================================================== contracts
@dataclass
class Param:
    name: str
    spec: Any = None  # what the decorator says (law symbol, Function class, IndexedSymbol, Dimension, sequence) or None
    kind: str = "unguarded"  # sym | fun | idx | dim | seq | unguarded
    annotation: Any = None
    target: Any = None  # the law atom the parameter stands for (Symbol, applied function, IndexedBase)
    how: str = ""  # decorator | name-convention


@dataclass
class Contract:
    modname: str
    fname: str
    params: list
    ret_annotation: Any = None
    out_spec: Any = None
    out_kind: str = "none"
    out_target: Any = None
    out_how: str = ""
    laws: list = field(default_factory=list)  # [(attr, Eq)]
    reason: str = ""  # non-empty: association not possible -> out_of_reach
    op: str = ""  # "", abs, ceiling
    undecorated: Any = None
    decorated: Any = None

    @property
    def qual(self):
        return f"{short(self.modname)}.{self.fname}"


def _kind(spec) -> str:
    from sympy.physics.units import Dimension
    from sympy.core.function import UndefinedFunction
    if spec is None:
        return "unguarded"
    if isinstance(spec, sp.Symbol):
        return "sym"
    if isinstance(spec, UndefinedFunction):
        return "fun"
    if isinstance(spec, sp.IndexedBase):
        return "idx"
    if isinstance(spec, Dimension):
        return "dim"
    if isinstance(spec, (tuple, list)):
        return "seq"
    return "other:" + type(spec).__name__


def decorator_specs(f):
    """Closure introspection over the __wrapped__ chain. returns (input specs, output spec|('same',p)|None, undecorated)."""
    inp, out, g = {}, None, f
    seen = 0
    while hasattr(g, "__wrapped__"):
        nl = inspect.getclosurevars(g).nonlocals
        if "decorator_kwargs" in nl:
            inp.update(nl["decorator_kwargs"])
        if "expected_unit" in nl:
            out = nl["expected_unit"]
        if "param_name" in nl:
            out = ("same", nl["param_name"])
        g = g.__wrapped__
        seen += 1
        if seen > 8:
            break
    return inp, out, g


def published_equations(mod) -> list[tuple[str, sp.Eq]]:
    """The published equations: module attributes `law` / `definition` / `condition` (an equation or a sequence).

    Other public Eq attributes of catalogue modules are steps of in-module derivations, not the published law."""
    out = []
    names = [n for n in ("law", "definition", "condition") if n in vars(mod)]
    for n in names:
        v = vars(mod)[n]
        if isinstance(v, sp.Eq):
            out.append((n, v))
        elif isinstance(v, (tuple, list)) and v and all(isinstance(x, sp.Eq) for x in v):
            out += [(f"{n}[{i}]", x) for i, x in enumerate(v)]
    return out


def _law_atoms(eq):
    """The 'symbols' of an equation a parameter can stand for."""
    from sympy.core.function import AppliedUndef
    syms = set(eq.free_symbols)
    bases = {a.base for a in eq.atoms(sp.Indexed)}
    applied = set(eq.atoms(AppliedUndef))
    return syms, bases, applied


def _dims_equiv(d1, d2) -> bool:
    try:
        from sympy.physics.units.systems.si import dimsys_SI
        return dimsys_SI.equivalent_dims(d1, d2)
    except Exception:
        return False


# ---------------------------------------------------------------------------------- nested sequences (matrix-shaped values)
# A parameter / result associated by rule R-matrix has a TARGET that is a nested tuple of law symbols: ((Z_ii, Z_io),
# (Z_oi, Z_oo)) for a matrix, (I_i, I_o) for a column or a row.  Values of the same shape travel with it everywhere.
def shape_flat(x) -> list:
    """Leaves of a nested tuple / list, row-major as written."""
    if isinstance(x, (tuple, list)):
        out = []
        for y in x:
            out += shape_flat(y)
        return out
    return [x]


def shape_map(f, x):
    if isinstance(x, (tuple, list)):
        return tuple(shape_map(f, y) for y in x)
    return f(x)


def shape_zip(a, b) -> list:
    """[(leaf of a, leaf of b)] for two nested sequences of the same shape; ValueError when the shapes differ."""
    if isinstance(a, (tuple, list)):
        if not isinstance(b, (tuple, list)) or len(a) != len(b):
            raise ValueError(f"shape mismatch: {shape_dims(a)} expected, got {shape_dims(b)}")
        out = []
        for x, y in zip(a, b):
            out += shape_zip(x, y)
        return out
    if isinstance(b, (tuple, list)):
        raise ValueError("shape mismatch: a scalar expected, got a sequence")
    return [(a, b)]


def _indexed_map(f, x, ix=()):
    """shape_map with the position: f(leaf, (i, j))."""
    if isinstance(x, (tuple, list)):
        return tuple(_indexed_map(f, y, ix + (k,)) for k, y in enumerate(x))
    return f(x, ix)


def shape_dims(x):
    """(n,) for a flat sequence, (rows, cols) for a regular two-level one, () for a scalar, None for anything else."""
    if not isinstance(x, (tuple, list)):
        return ()
    if not x:
        return None
    if all(not isinstance(y, (tuple, list)) for y in x):
        return (len(x),)
    if all(isinstance(y, (tuple, list)) and y and all(not isinstance(z, (tuple, list)) for z in y) for y in x) \
            and len({len(y) for y in x}) == 1:
        return (len(x), len(x[0]))
    return None


def annotation_shape(ann):
    """`tuple[tuple[Quantity, float], tuple[Quantity, Quantity]]` -> (('q', 'f'), ('q', 'q')): a fixed-shape nested tuple
    whose leaves are Quantity ('q') or plain numbers float / int ('f').  None for every other annotation (strings,
    variable length, Any, unions, other classes): rule R-matrix does not apply to it."""
    import typing
    if isinstance(ann, str) or typing.get_origin(ann) is not tuple:
        return None
    args = typing.get_args(ann)
    if not args or Ellipsis in args:
        return None

    def leaf(a):
        if a in (float, int):
            return "f"
        if inspect.isclass(a) and a.__name__ == "Quantity":
            return "q"
        return None

    if all(typing.get_origin(a) is tuple for a in args):
        rows = []
        for a in args:
            inner = typing.get_args(a)
            if not inner or Ellipsis in inner or any(leaf(x) is None for x in inner):
                return None
            rows.append(tuple(leaf(x) for x in inner))
        return tuple(rows) if len({len(r) for r in rows}) == 1 else None
    if all(leaf(a) is not None for a in args):
        return tuple(leaf(a) for a in args)
    return None


def matrix_literals(eq) -> list:
    """Matrix literals of plain, pairwise distinct law symbols occurring in a published equation, as nested tuples of
    rows ((a, b), (c, d)), in order of occurrence."""
    out = []
    try:
        nodes = list(sp.preorder_traversal(eq))
    except Exception:  # noqa: BLE001
        return out
    for x in nodes:
        if isinstance(x, sp.MatrixBase):
            ents = list(x)
            if ents and all(isinstance(v, sp.Symbol) and not isinstance(v, sp.Idx) for v in ents) \
                    and len(set(ents)) == len(ents):
                rows = tuple(tuple(x[i, j] for j in range(x.cols)) for i in range(x.rows))
                if rows not in out:
                    out.append(rows)
    return out


RULE_TEXT = {
    "R-matrix": "association rule R-matrix (parameters / results the decorators leave without a law symbol): a value whose "
                "annotation is a fixed-shape nested tuple of Quantity / float corresponds ENTRYWISE, row-major as written, "
                "to a sympy Matrix literal of plain law symbols of the same shape in the published equation (a flat tuple of "
                "length n: a Matrix column or row of length n), provided EXACTLY ONE Matrix literal of that shape consisting "
                "of not-yet-associated symbols occurs in the equation; a float leaf needs a symbol declared dimensionless, a "
                "dimension-only guard / validate_output dimension must agree with the declared dimension of every entry; "
                "several candidates, no candidate, or a dimension mismatch: out_of_reach.  A matrix equation is read "
                "entrywise (every entry of lhs - rhs must vanish)",
    "R-unique": "association rule R-unique: if after the decorator-based associations, the name convention and R-matrix "
                "exactly ONE parameter and exactly ONE plain law symbol remain unassociated and the result is associated "
                "(validate_output symbol or R-matrix), they stand for each other; applied to UNGUARDED parameters only (no "
                "decorator entry: a plain number), annotated float / int / Quantity, and only when the leftover law symbol "
                "is declared dimensionless; a parameter with a dimension-only guard is NOT associated by this rule; anything "
                "else: out_of_reach",
    "R-named-result": "association rule R-named-result: when validate_output names a law symbol that already stands for a "
                      "guarded parameter (the gate only uses its dimension), every parameter is associated, exactly ONE plain "
                      "law symbol is left over, the function is called calculate_<module name of that symbol> and the symbol "
                      "has the dimension validate_output demands, the result stands for that symbol; anything else: "
                      "out_of_reach",
}


def _r_matrix(what: str, shape, lits, used, dim=None, leaf_kinds=True):
    """Rule R-matrix for one parameter / the result.  shape: nested tuple of leaf kinds.  returns the nested tuple of
    law symbols, or str = why the rule does not force an association."""
    dims = shape_dims(shape)
    if dims is None:
        return f"{what} is not a regular nested tuple"
    if len(dims) == 2:
        cands = [rows for rows in lits if (len(rows), len(rows[0])) == dims]
    else:
        n = dims[0]
        cands = [rows for rows in lits if (len(rows) == n and len(rows[0]) == 1) or (len(rows) == 1 and len(rows[0]) == n)]
    cands = [rows for rows in cands if all(s not in used for s in shape_flat(rows))]
    shown = "x".join(map(str, dims))
    if not cands:
        return f"no Matrix literal of not-yet-associated plain law symbols with shape {shown} occurs in the equation"
    if len(cands) > 1:
        return (f"{len(cands)} Matrix literals of not-yet-associated law symbols with shape {shown} occur in the equation "
                f"({'; '.join(str(shape_flat(r)) for r in cands)}): no unique candidate")
    rows = cands[0]
    target = rows if len(dims) == 2 else tuple(shape_flat(rows))
    for kind, s in shape_zip(shape, target):
        d = getattr(s, "dimension", None)
        if d is None:
            return f"law symbol {s} declares no dimension"
        if leaf_kinds and kind == "f" and not _is_dimensionless(d):
            return (f"the entry annotated float would stand for {s}, which is declared with dimension {d} "
                    "(a plain number needs a dimensionless symbol)")
        if dim is not None and not _dims_equiv(d, dim):
            return f"law symbol {s} is declared with dimension {d}, the decorator says {dim}"
    return target


def build_contract(mod, fname) -> Contract:
    from sympy.physics.units import Dimension
    f = vars(mod)[fname]
    inp, out, g = decorator_specs(f)
    sig = inspect.signature(g)
    c = Contract(mod.__name__, fname, [], undecorated=g, decorated=f)
    c.ret_annotation = sig.return_annotation
    c.op = DOCUMENTED_OPS.get(c.qual, "")
    for p in sig.parameters.values():
        spec = inp.get(p.name)
        c.params.append(Param(p.name, spec, _kind(spec), p.annotation))
    c.out_spec = out
    c.out_kind = "same" if isinstance(out, tuple) and out and out[0] == "same" else ("none" if out is None else _kind(out))
    eqs = published_equations(mod)
    if not eqs:
        c.reason = "module publishes no equation object (law given as Python functions / vector form)"
        return c
    for p in c.params:
        if p.kind in ("seq",) or p.kind.startswith("other"):
            c.reason = f"parameter {p.name}: guard is a {p.kind} specification, no single law symbol"
            return c
    # ---- candidate equations: contain every decorator-named atom
    named = [p.spec for p in c.params if p.kind in ("sym", "idx", "fun")]
    if c.out_kind in ("sym", "idx", "fun"):
        named.append(out)

    def contains(eq, spec):
        syms, bases, applied = _law_atoms(eq)
        k = _kind(spec)
        if k == "sym":
            return spec in syms
        if k == "idx":
            return spec in bases
        if k == "fun":
            return any(a.func == spec for a in applied)
        return False

    cands = [(n, e) for n, e in eqs if all(contains(e, s) for s in named)]
    if not cands:
        c.reason = "no published equation contains all the symbols named by the decorators"
        return c
    # ---- per equation: complete the association
    good = []
    why = ""
    for n, e in cands:
        assoc = _associate(c, mod, e)
        if isinstance(assoc, str):
            why = why or f"{n}: {assoc}"
            continue
        good.append((n, e, assoc))
    if not good:
        c.reason = why
        return c
    c.laws = good
    return c


def _associate(c: Contract, mod, eq):
    """sigma skeleton for one equation: {param name -> law atom}, result atom. str = reason it cannot be formed."""
    from sympy.core.function import AppliedUndef
    syms, bases, applied = _law_atoms(eq)
    if eq.atoms(sp.Derivative) or eq.atoms(sp.Integral):
        return "the equation relates functions through Derivative/Integral; arguments are samples of those functions"
    if eq.atoms(sp.Order):
        return "the equation holds only asymptotically (contains an Order term)"
    used = set()
    amap = {}
    hows = {}

    def applied_of(F):
        xs = [a for a in applied if a.func == F]
        return xs[0] if len(xs) == 1 else None

    for p in c.params:
        if p.kind == "sym":
            amap[p.name] = p.spec
            hows[p.name] = "decorator"
        elif p.kind == "idx":
            amap[p.name] = p.spec
            hows[p.name] = "decorator"
        elif p.kind == "fun":
            a = applied_of(p.spec)
            if a is None:
                return f"parameter {p.name}: function {p.spec} is applied more than once (or never) in the equation"
            amap[p.name] = a
            hows[p.name] = "decorator"
        else:
            amap[p.name] = None
    for p in c.params:
        if amap[p.name] is not None:
            if amap[p.name] in used:
                return f"two parameters are guarded by the same law symbol {amap[p.name]}"
            used.add(amap[p.name])
    # name convention for parameters the decorators leave without a law symbol (unguarded or dimension-only guard)
    pending = []
    for p in c.params:
        if amap[p.name] is not None:
            continue
        base = p.name.rstrip("_")
        cand = vars(mod).get(base)
        ok = False
        if isinstance(cand, sp.Symbol) and cand in syms and cand not in used:
            ok = True
        elif isinstance(cand, sp.IndexedBase) and cand in bases and cand not in used:
            ok = True
        if ok and p.kind == "dim":
            d = getattr(cand, "dimension", None)
            ok = d is not None and _dims_equiv(d, p.spec)
        if not ok:
            pending.append(p)
            continue
        amap[p.name] = cand
        hows[p.name] = "name-convention"
        used.add(cand)
    label_syms = {getattr(b, "label", None) for b in bases}

    def plain_free():
        return [s for s in syms if s not in used and not isinstance(s, (sp.Idx, sp.Indexed)) and s not in label_syms
                and not any(s in (getattr(i, "label", None), getattr(i, "lower", None), getattr(i, "upper", None))
                            for i in idx_syms)]

    idx_syms = {i for a in eq.atoms(sp.Indexed) for i in a.indices if isinstance(i, sp.Idx)}
    notes, rules = [], []

    def no_symbol(p, extra=""):
        return (f"parameter {p.name}: the decorator names no law symbol and the module has no law symbol called "
                f"'{p.name.rstrip('_')}' (association would be a guess)" + (f"; {extra}" if extra else ""))

    # ---- rule R-matrix: nested-tuple parameters <-> the only Matrix literal of unassociated law symbols of that shape.
    # All candidates are determined against the SAME set of associated symbols (no dependence on the parameter order).
    lits = matrix_literals(eq) if pending else []
    taken, still = {}, []
    for p in pending:
        shp = annotation_shape(p.annotation)
        if shp is None:
            still.append(p)
            continue
        t = _r_matrix(f"parameter {p.name}", shp, lits, used, dim=p.spec if p.kind == "dim" else None)
        if isinstance(t, str):
            return no_symbol(p, f"R-matrix does not apply: {t}")
        taken[p.name] = (p, t)
    claimed = [s for _p, t in taken.values() for s in shape_flat(t)]
    if len(set(claimed)) != len(claimed):
        return no_symbol(next(iter(taken.values()))[0], "R-matrix does not apply: two parameters would stand for the same "
                                                       "Matrix literal")
    for name, (p, t) in taken.items():
        amap[name] = t
        hows[name] = "R-matrix"
        used.update(shape_flat(t))
        notes.append(f"R-matrix: parameter {name} <-> {_show_target(t)} (entrywise, row-major)")
        rules.append("R-matrix")
    pending = still
    if len(pending) > 1:
        return no_symbol(pending[0], f"R-unique does not apply: {len(pending)} parameters remain unassociated "
                                     f"({', '.join(p.name for p in pending)})")
    # result
    res, rhow = None, ""
    ret_shape = annotation_shape(c.ret_annotation) if c.out_kind in ("none", "dim") else None
    if c.out_kind == "sym":
        res, rhow = c.out_spec, "decorator"
    elif c.out_kind == "fun":
        res = applied_of(c.out_spec)
        rhow = "decorator"
        if res is None:
            return f"result: function {c.out_spec} is applied more than once (or never) in the equation"
    elif c.out_kind == "idx":
        return "result is an indexed family (one member of a sum); which member is not named by the decorator"
    elif ret_shape is not None:
        # the function returns a tuple: R-matrix on the result (shape only: leaf annotations of results are not relied on)
        t = _r_matrix("the returned tuple", ret_shape, matrix_literals(eq), used,
                      dim=c.out_spec if c.out_kind == "dim" else None, leaf_kinds=False)
        if isinstance(t, str):
            return ("result: validate_output names no law symbol and the function returns a tuple; "
                    f"R-matrix does not apply: {t}")
        res, rhow = t, "R-matrix"
        notes.append(f"R-matrix: result <-> {_show_target(t)} (entrywise, row-major)")
        rules.append("R-matrix")
    elif pending:
        return no_symbol(pending[0], "R-unique does not apply: the result is not associated by validate_output")
    else:
        free = plain_free()
        named = vars(mod).get(c.fname[len("calculate_"):])
        if len(free) == 1 and named is free[0]:
            # the only law symbol no parameter stands for, AND the function is called calculate_<that symbol's name>
            res, rhow = free[0], "remaining-symbol+function-name"
            if c.out_kind == "dim":
                d = getattr(res, "dimension", None)
                if d is None or not _dims_equiv(d, c.out_spec):
                    return "result: the only unassociated law symbol does not have the dimension named by validate_output"
        elif len(free) == 1:
            return ("result: validate_output names no law symbol; one law symbol is left over but the function is not "
                    f"named after it (calculate_<{'|'.join(k for k, v in vars(mod).items() if v is free[0]) or free[0]}> "
                    "expected): association would be a guess")
        else:
            return ("result: validate_output names no law symbol and the equation has "
                    f"{len(free)} unassociated symbols")
    res_leaves = shape_flat(res)
    if any(r in used for r in res_leaves):
        # rule R-named-result: validate_output names a symbol that already stands for a parameter (a copy-paste slip in the
        # decorator; the gate only uses its dimension).  If every parameter is associated, exactly one plain law symbol is
        # left over, the function is called calculate_<that symbol's module name> and its dimension is the one the decorator
        # demands, the result stands for that symbol.  Anything else stays out of reach.
        free = [s for s in plain_free() if s not in used]
        named = vars(mod).get(c.fname[len("calculate_"):])
        d_out, d_free = getattr(res, "dimension", None), getattr(free[0], "dimension", None) if len(free) == 1 else None
        if (c.out_kind == "sym" and not pending and len(free) == 1 and named is free[0] and d_out is not None
                and d_free is not None and _dims_equiv(d_free, d_out)):
            notes.append(f"R-named-result: validate_output names {res}, which stands for a parameter; result <-> {free[0]} "
                         f"(the only law symbol left, the function is named after it, same dimension)")
            rules.append("R-named-result")
            res, rhow = free[0], "remaining-symbol+function-name"
            res_leaves = shape_flat(res)
        else:
            return f"result symbol {res} also guards a parameter"
    # ---- rule R-unique: one unguarded parameter left, one dimensionless law symbol left
    if pending:
        p = pending[0]
        free = [s for s in plain_free() if s not in res_leaves]
        if p.kind != "unguarded":
            return no_symbol(p, "R-unique does not apply: the parameter carries a dimension-only guard (the rule covers "
                                "unguarded parameters only)")
        if not (p.annotation in (float, int) or (inspect.isclass(p.annotation) and p.annotation.__name__ == "Quantity")):
            return no_symbol(p, f"R-unique does not apply: the parameter is annotated {_ann_str(p)}, not a number / Quantity")
        if len(free) != 1:
            return no_symbol(p, f"R-unique does not apply: {len(free)} law symbols remain unassociated "
                                f"({', '.join(sorted(map(str, free)))})")
        s = free[0]
        d = getattr(s, "dimension", None)
        if d is None or not _is_dimensionless(d):
            return no_symbol(p, f"R-unique does not apply: the only leftover law symbol {s} is declared with dimension "
                                f"{d}, an unguarded parameter is a plain number and needs a dimensionless symbol")
        amap[p.name] = s
        hows[p.name] = "R-unique"
        used.add(s)
        notes.append(f"R-unique: parameter {p.name} <-> {s} (the only unassociated parameter and the only unassociated law "
                     "symbol, declared dimensionless)")
        rules.append("R-unique")
    unbound = [s for s in plain_free() if s not in res_leaves]
    if unbound:
        return f"law symbols {sorted(map(str, unbound))} are named by no guard (their values are not determined by the call)"
    return {"params": amap, "hows": hows, "result": res, "result_how": rhow, "notes": notes,
            "rules": sorted(set(rules))}


def _show_target(t) -> str:
    d = shape_dims(t)
    if d and len(d) == 2:
        return "Matrix([" + ", ".join("[" + ", ".join(map(str, r)) + "]" for r in t) + "])"
    return "Matrix([" + ", ".join(map(str, shape_flat(t))) + "])"


# ===================================================================================== generic execution
_ARG_DIM: dict[str, Any] = {}


class ArgSym(sp.Symbol):
    """A fresh real symbol standing for the SI value of an argument; quacks like a Quantity where bodies look."""

    @property
    def scale_factor(self):
        return self

    @property
    def dimension(self):
        from sympy.physics.units import Dimension
        return _ARG_DIM.get(self.name, Dimension(1))


SIGN_KEYS = ("positive", "negative", "nonnegative", "nonpositive", "nonzero", "integer")


def arg_symbol(pname: str, target, dim=None, suffix="") -> ArgSym:
    ass = {"real": True}
    a0 = getattr(target, "assumptions0", {}) if isinstance(target, sp.Symbol) else {}
    for k in SIGN_KEYS:
        if a0.get(k) is True:
            ass[k] = True
    name = f"{pname}{suffix}"
    if dim is not None:
        _ARG_DIM[name] = dim
    return ArgSym(name, **ass)


class _TransparentQuantity:
    """Stand-in for the name `Quantity` in the module under execution: construction returns the SI-value expression."""

    def __new__(cls, expr=sp.S.One, *, display_symbol=None, display_latex=None, dimension=None, **_kw):
        return sp.sympify(expr)


def _unit_scale(u):
    from sympy.physics.units import Quantity as SymQuantity
    u = sp.sympify(u)
    if u.free_symbols:
        return u
    from symplyphysics import Quantity
    return (u if isinstance(u, SymQuantity) else Quantity(u)).scale_factor


def _t_convert_to(value, target_unit):
    return sp.sympify(value) / _unit_scale(target_unit)


def _t_identity(value):
    return sp.sympify(value)


def _t_noop(*_a, **_k):
    return None


class Refusal(ValueError):
    """The function under contract refuses this part of the domain."""


def _t_int(value=0, *a, **k):
    """int() on a symbolic value: identity on an already integral expression (ceiling(..), floor(..)); anything else is
    truncation, left as an uninterpreted term so that no proof can go through it."""
    import builtins
    if isinstance(value, sp.Basic) and value.free_symbols:
        if value.is_integer or isinstance(value, (sp.ceiling, sp.floor)):
            return value  # int() of a complex ceiling raises in the real code: a refusal, not a returned value
        return sp.Function("vf_int_truncation")(value)
    return builtins.int(value, *a, **k)


def _t_unit_interval(value):
    """Contract of core.symbols.probability.Probability / fraction.Fraction: refuse outside [0, 1], identity inside."""
    value = sp.sympify(value)
    if value < 0 or value > 1:  # forks on symbolic values
        raise Refusal("value outside [0..1]")
    return value


@contextmanager
def transparent(globs: dict):
    """Rebind, by identity, the real library names in the function's globals; restore afterwards."""
    import symplyphysics as S
    from symplyphysics.core import convert as C
    from symplyphysics.core.symbols import quantities as Q
    from symplyphysics.core.dimensions import assert_equivalent_dimension as AED
    real = {
        "Quantity": (Q.Quantity, _TransparentQuantity),
        "convert_to": (C.convert_to, _t_convert_to),
        "convert_to_float": (C.convert_to_float, _t_identity),
        "convert_to_si": (C.convert_to_si, _t_identity),
        "scale_factor": (Q.scale_factor, _t_identity),
        "assert_equivalent_dimension": (AED, _t_noop),
    }
    try:
        from symplyphysics.core.symbols.probability import Probability
        from symplyphysics.core.symbols.fraction import Fraction as SFraction
        real["Probability"] = (Probability, _t_unit_interval)
        real["Fraction"] = (SFraction, _t_unit_interval)
    except Exception:  # noqa: BLE001
        pass
    # a Quantity built from a symbolic SI value is that expression: give expressions the two attributes bodies read
    had = {k: sp.Expr.__dict__.get(k) for k in ("scale_factor", "dimension")}
    sp.Expr.scale_factor = property(lambda self: self)
    from sympy.physics.units import Dimension as _Dim
    sp.Expr.dimension = property(lambda self: _Dim(1))
    saved = {}
    for name, val in list(globs.items()):
        for rn, (obj, repl) in real.items():
            if val is obj:
                saved[name] = val
                globs[name] = repl
    added_int = "int" not in globs
    if added_int:
        globs["int"] = _t_int
    try:
        yield sorted(set(rn for name in saved for rn, (obj, _r) in real.items() if saved[name] is obj) | {"int"})
    finally:
        globs.update(saved)
        if added_int:
            globs.pop("int", None)
        for k, v in had.items():
            if v is None:
                try:
                    delattr(sp.Expr, k)
                except AttributeError:
                    pass
            else:
                setattr(sp.Expr, k, v)


class PathLimit(Exception):
    pass


class _Timeout(BaseException):
    """BaseException: `except Exception` clauses inside SymPy / the functions under contract must not swallow it."""


@contextmanager
def time_limit(seconds: int):
    def handler(signum, frame):
        raise _Timeout(f"exceeded {seconds}s")
    old = signal.signal(signal.SIGALRM, handler)
    signal.alarm(seconds)
    try:
        yield
    finally:
        signal.alarm(0)
        signal.signal(signal.SIGALRM, old)


def fork_run(thunk, max_paths=MAX_PATHS):
    """Run `thunk` under interception of Relational.__bool__; enumerate paths depth-first.

    returns list of (path_condition [sympy relationals], ('ret', value) | ('raise', exception))."""
    from sympy.core.relational import Relational
    orig = Relational.__dict__.get("__bool__")
    results = []
    work = [[]]
    while work:
        prefix = work.pop()
        decisions = []

        def hook(self, _prefix=prefix, _dec=decisions):
            i = len(_dec)
            out = _prefix[i] if i < len(_prefix) else True
            _dec.append((self, out))
            return out

        Relational.__bool__ = hook
        try:
            try:
                outcome = ("ret", thunk())
            except _Timeout:
                raise
            except Exception as e:  # noqa: BLE001 - the exception is the outcome of this path
                outcome = ("raise", e)
        finally:
            if orig is None:
                del Relational.__bool__
            else:
                Relational.__bool__ = orig
        cond = [c if o else sp.Not(c) for c, o in decisions]
        results.append((cond, outcome))
        for i in range(len(prefix), len(decisions)):
            work.append([o for _, o in decisions[:i]] + [not decisions[i][1]])
        if len(results) + len(work) > max_paths:
            raise PathLimit(f"more than {max_paths} paths")
    return results


def reduce_constants(expr):
    """Quantity constants of the law: exact rational SI values are inlined, the others become positive symbols."""
    from sympy.physics.units import Quantity as SymQuantity
    expr = sp.sympify(expr)
    rep, notes = {}, []
    for q in expr.atoms(SymQuantity):
        sf = sp.sympify(q.scale_factor)
        if sf.is_Rational:
            rep[q] = sf
        elif sf.is_number and sf.is_real:
            # keyed by the VALUE: two Quantity objects with the same scale factor are the same real number
            # (abs(Quantity) builds a new Quantity object with the same value)
            nm = "K_" + "".join(ch if ch.isalnum() else "_" for ch in repr(float(abs(sf))))
            rep[q] = sp.Symbol(nm, positive=True) if sf > 0 else -sp.Symbol(nm, positive=True) if sf < 0 else sp.S.Zero
            notes.append(str(q.name))
        else:
            raise Unsupported(f"constant {q} has non-real scale factor")
    return (expr.xreplace(rep) if rep else expr), rep


def numeric_constants(expr):
    from sympy.physics.units import Quantity as SymQuantity
    expr = sp.sympify(expr)
    rep = {q: sp.sympify(q.scale_factor) for q in expr.atoms(SymQuantity)}
    return expr.xreplace(rep) if rep else expr


def exactify(expr):
    """Each machine float re-read as the SAME real number carried with 80 digits (numeric side: lets evalf reduce
    huge trig/exp arguments without losing the phase; exact rationals would make powers explode)."""
    expr = sp.sympify(expr)
    fl = {f: sp.Float(sp.Rational(f), 80) for f in expr.atoms(sp.Float)
          if f.is_finite and f._prec < 200 and abs(f._mpf_[2]) < 5000}
    return expr.xreplace(fl) if fl else expr


def exact_constants(expr):
    from sympy.physics.units import Quantity as SymQuantity
    expr = sp.sympify(expr)
    rep = {q: exactify(q.scale_factor) for q in expr.atoms(SymQuantity)}
    return exactify(expr.xreplace(rep) if rep else expr)


def instantiate_law(eq, n_by_base: dict):
    """For laws with IndexedSum/IndexedProduct: fix the index range 1..n and expand."""
    if not n_by_base:
        return eq
    from symplyphysics import global_index
    ns = set(n_by_base.values())
    if len(ns) != 1:
        raise Unsupported("indexed families of different lengths")
    n = ns.pop()
    idxs = {i for a in eq.atoms(sp.Indexed) for i in a.indices if isinstance(i, sp.Idx)}
    local = sp.Idx("vf_k", (1, n))
    e = eq
    for i in idxs:
        e = e.subs(i, local)
    return e.doit()


def _subst(expr, sigma_pairs):
    """Simultaneous substitution of law atoms (applied functions first) by values."""
    from sympy.core.function import AppliedUndef
    rep = {}
    for atom, val in sigma_pairs:
        if isinstance(atom, sp.IndexedBase):
            for k, v in enumerate(val):
                rep[atom[k + 1]] = v
        else:
            rep[atom] = val
    ph = {a: sp.Dummy(f"ph{i}") for i, a in enumerate(rep)}
    order = sorted(rep, key=lambda a: 0 if isinstance(a, AppliedUndef) else 1)
    r = sp.sympify(expr)
    for a in order:
        r = r.subs(a, ph[a])
    return r.xreplace({ph[a]: sp.sympify(rep[a]) for a in rep})


def law_residual(eq, sigma_pairs, n_by_base=None):
    """law.lhs sigma - law.rhs sigma; sigma_pairs: [(law atom, value)]."""
    e = instantiate_law(eq, n_by_base or {})
    if not isinstance(e, sp.Eq):
        if e is sp.true:
            return sp.S.Zero
        raise Unsupported(f"equation collapsed to {e} after instantiation")
    return _subst(e.lhs, sigma_pairs) - _subst(e.rhs, sigma_pairs)


def _is_matrix(x) -> bool:
    return isinstance(x, (sp.MatrixBase, sp.MatrixExpr)) or bool(getattr(x, "is_Matrix", False))


def _explicit_matrix(x):
    x = x.doit() if hasattr(x, "doit") else x
    if isinstance(x, sp.MatrixBase):
        return x
    if isinstance(x, sp.MatrixExpr):
        x = x.as_explicit()
        if isinstance(x, sp.MatrixBase):
            return x
    raise Unsupported("a side of the matrix equation cannot be written out entry by entry")


def law_sides(e) -> list:
    """The scalar equations a published equation stands for, [(lhs, rhs)]: a matrix equation Eq(M, A * B) is read
    entrywise (row-major), every other equation is itself."""
    if _is_matrix(e.lhs) or _is_matrix(e.rhs):
        if not (_is_matrix(e.lhs) and _is_matrix(e.rhs)):
            raise Unsupported("equation between a matrix and a scalar")
        L, R = _explicit_matrix(e.lhs), _explicit_matrix(e.rhs)
        if L.shape != R.shape:
            raise Unsupported(f"matrix equation between shapes {L.shape} and {R.shape}")
        return [(L[i, j], R[i, j]) for i in range(L.rows) for j in range(L.cols)]
    return [(e.lhs, e.rhs)]


def law_residuals(eq, sigma_pairs, n_by_base=None) -> list:
    """[lhs_k sigma - rhs_k sigma] over the scalar equations of the law (one entry for a scalar law)."""
    e = instantiate_law(eq, n_by_base or {})
    if not isinstance(e, sp.Eq):
        if e is sp.true:
            return [sp.S.Zero]
        raise Unsupported(f"equation collapsed to {e} after instantiation")
    return [_subst(l, sigma_pairs) - _subst(r, sigma_pairs) for l, r in law_sides(e)]


# ===================================================================================== discharge
def _domain_facts(tr: Tr, exprs):
    """Well-definedness over the reals of the terms present: even roots of non-negative bases, logs of positive args."""
    facts = []
    for e in exprs:
        for p in e.atoms(sp.Pow):
            b, x = p.args
            if x.is_Rational and not x.is_Integer and int(x.q) % 2 == 0:
                facts.append(tr.tr(b) >= 0)
            elif not x.is_Rational and not x.is_number:
                facts.append(tr.tr(b) > 0)
        for l in e.atoms(sp.log):
            facts.append(tr.tr(l.args[0]) > 0)
    return facts


def explog_axioms(tr: Tr, exprs):
    """Axiom kit instantiated for the terms present. returns (z3 facts, [text])."""
    facts, used = [], set()
    exps = {}
    logs = {}
    pows = []
    for e in exprs:
        for a in e.atoms(sp.exp):
            exps[a.args[0]] = a
        for a in e.atoms(sp.log):
            logs[a.args[0]] = a
        for a in e.atoms(sp.Pow):
            if not a.args[1].is_Rational:
                pows.append(a)
    for arg, a in exps.items():
        facts.append(tr.tr(a) > 0)
        used.add("exp(x) > 0")
    ex = list(exps.items())
    for i, (a1, e1) in enumerate(ex):
        for a2, e2 in ex[i:]:
            s = sp.expand(a1 + a2)
            if s == 0:
                facts.append(tr.tr(e1) * tr.tr(e2) == 1)
                used.add("exp(a)*exp(-a) = 1")
            else:
                for a3, e3 in ex:
                    if sp.expand(a3 - s) == 0:
                        facts.append(tr.tr(e1) * tr.tr(e2) == tr.tr(e3))
                        used.add("exp(a+b) = exp(a)*exp(b)")
    for arg, l in logs.items():
        # exp(log x) = x, x > 0 : usable when exp(log x * k) shows up; log(exp x) = x is done by SymPy for real x
        num, den = sp.fraction(sp.together(arg))
        for a2, l2 in logs.items():
            for a3, l3 in logs.items():
                if sp.expand(a2 * a3 - arg) == 0 and a2 != 1 and a3 != 1:
                    facts.append(z3.Implies(z3.And(tr.tr(a2) > 0, tr.tr(a3) > 0), tr.tr(l) == tr.tr(l2) + tr.tr(l3)))
                    used.add("log(a*b) = log(a)+log(b) for a,b > 0")
        inv = 1 / arg
        if inv in logs:
            facts.append(z3.Implies(tr.tr(arg) > 0, tr.tr(l) == -tr.tr(logs[inv])))
            used.add("log(1/a) = -log(a) for a > 0")
        facts.append(z3.Implies(tr.tr(arg) == 1, tr.tr(l) == 0))
        facts.append(z3.Implies(tr.tr(arg) > 1, tr.tr(l) > 0))
        facts.append(z3.Implies(z3.And(tr.tr(arg) > 0, tr.tr(arg) < 1), tr.tr(l) < 0))
        used.add("log is 0 at 1, positive above, negative below")
        if arg in exps or True:
            k = sp.exp(l, evaluate=False)
    for p in pows:
        b, x = p.args
        facts.append(z3.Implies(tr.tr(b) > 0, tr.tr(p) > 0))
        used.add("b**x > 0 for b > 0")
        if b.is_Pow and not b.exp.is_Integer:
            bb, xx = b.args
            flat = sp.Pow(bb, sp.cancel(xx * x))
            if not (flat.is_Pow and flat.exp == x and flat.base == b):
                try:
                    facts.append(z3.Implies(tr.tr(bb) > 0, tr.tr(p) == tr.tr(flat)))
                    used.add("(b**x)**y = b**(x*y) for b > 0")
                except Unsupported:
                    pass
    # congruence of uninterpreted terms: equal arguments, equal values
    apps = sorted(_opaque_apps(exprs), key=str)
    for i, a1 in enumerate(apps):
        for a2 in apps[i + 1:]:
            if a1.func == a2.func and len(a1.args) == len(a2.args):
                try:
                    facts.append(z3.Implies(z3.And([tr.tr(x) == tr.tr(y) for x, y in zip(a1.args, a2.args)]),
                                            tr.tr(a1) == tr.tr(a2)))
                    used.add("congruence: f(a) = f(b) when a = b")
                except Unsupported:
                    pass
    return facts, sorted(used)


_INTERPRETED = (sp.sin, sp.cos, sp.tan, sp.cot, sp.Abs, sp.sign, sp.Max, sp.Min, sp.Piecewise)


def _opaque_apps(exprs):
    out = set()
    for e in exprs:
        for a in e.atoms(sp.Function):
            if not isinstance(a, _INTERPRETED):
                out.add(a)
        for a in e.atoms(sp.Pow):
            if not a.exp.is_Rational:
                out.add(a)
    return out


def congruence(exprs, rounds=3):
    """f(a) and f(b) with a == b as rational functions (nf) are the same term: rewrite to one representative."""
    exprs = [sp.sympify(e) for e in exprs]
    for _ in range(rounds):
        apps = sorted(_opaque_apps(exprs), key=lambda a: (sp.count_ops(a), str(a)))
        groups = {}
        for a in apps:
            groups.setdefault((a.func, len(a.args)), []).append(a)
        # principal roots of equal bases are the same term as well
        roots = set()
        for e in exprs:
            roots |= {a for a in e.atoms(sp.Pow) if a.exp.is_Rational and not a.exp.is_Integer}
        for a in sorted(roots, key=lambda a: (sp.count_ops(a), str(a))):
            groups.setdefault(("root", a.exp), []).append(a)
        rep = {}
        for (_f, _n), items in groups.items():
            reps = []
            for a in items:
                for r in reps:
                    try:
                        if all(nf_is_zero(x - y) is True for x, y in zip(a.args, r.args)):
                            rep[a] = r
                            break
                    except Unsupported:
                        pass
                else:
                    reps.append(a)
        if not rep:
            break
        exprs = [e.xreplace(rep) for e in exprs]
    return exprs


def _entailed_signs(hyps, tr: Tr, symbols):
    """Symbols whose sign follows from the hypotheses (domain facts): {symbol: +1 | -1}."""
    out = {}
    for s in symbols:
        if s.is_positive or s.is_negative or s not in tr.atoms:
            continue
        v = tr.atoms[s]
        r, _, _, _ = check_sat(hyps + [v <= 0], timeout_s=2.0, use_cvc5=False)
        if r == "unsat":
            out[s] = 1
            continue
        r, _, _, _ = check_sat(hyps + [v >= 0], timeout_s=2.0, use_cvc5=False)
        if r == "unsat":
            out[s] = -1
    return out


MAX_ROOT_DEGREE = 12


def _high_degree(e) -> bool:
    for p in sp.sympify(e).atoms(sp.Pow):
        x = p.exp
        if x.is_Float and x != int(x):
            x = sp.Rational(repr(float(x)))
        if x.is_Rational and not x.is_Integer and (x.q > MAX_ROOT_DEGREE or abs(x.p) > 64):
            return True
        if x.is_Integer and abs(int(x)) > 64:
            return True
    return False


def _z3_problem(alts, assume, domain_exprs, extra_domain=()):
    for alt in alts:
        for g in alt:
            if _high_degree(g):
                raise Unsupported(f"power with a rational exponent of denominator > {MAX_ROOT_DEGREE} (machine-float exponent)")
    tr = Tr()
    zalts = [z3.And([tr.tr(g) == 0 for g in alt]) for alt in alts]
    goal = zalts[0] if len(zalts) == 1 else z3.Or(zalts)
    hyps = [tr.trb(a) for a in assume]
    allex = [sp.sympify(g) for alt in alts for g in alt] + [sp.sympify(d) for d in domain_exprs]
    for a in assume:
        allex += [sp.sympify(x) for x in getattr(a, "args", ()) if isinstance(x, sp.Expr)]
    hyps += _domain_facts(tr, allex)
    ax, used = explog_axioms(tr, allex)
    hyps += ax
    hyps += tr.facts()
    return tr, list(dict.fromkeys(hyps)), goal, used


def _nf_all(alts) -> bool:
    try:
        with time_limit(NF_TIMEOUT_S):
            for alt in alts:
                if all(nf_is_zero(g) is True for g in alt):
                    return True
    except (Unsupported, MemoryError):
        pass
    except _Timeout:
        pass
    except Exception:  # noqa: BLE001 - nf is only a fast path
        pass
    return False


def prove_zero(name, goals, *, assume=(), domain_exprs=(), signature="", abs_alt=None, timeout_s=SMT_TIMEOUT_S):
    """goals: sympy expressions that must vanish (conjunction).  abs_alt: alternative goal list (disjunction, for abs).

    Stages: nf -> congruence + nf -> z3 -> sign-normalised rebuild (symbols whose sign the hypotheses entail become
    positive symbols, SymPy re-evaluates powers/logs) + nf + z3.   returns (Ob, model, tr, axioms_used)."""
    t0 = time.time()
    alts = [[sp.sympify(g) for g in goals]] + ([[sp.sympify(g) for g in abs_alt]] if abs_alt is not None else [])
    if _nf_all(alts):
        return Ob(name, PROVED, "nf", (time.time() - t0) * 1000, "", signature), None, None, []
    used_all = []
    try:
        with time_limit(NF_TIMEOUT_S * 2):
            flat = [g for alt in alts for g in alt]
            cflat = congruence(flat + list(domain_exprs))
            k = 0
            calts = []
            for alt in alts:
                calts.append(cflat[k:k + len(alt)])
                k += len(alt)
            cdomain = cflat[k:]
        if calts != alts:
            used_all.append("congruence: f(a) = f(b) when a = b as rational functions")
            alts, domain_exprs = calts, cdomain
            if _nf_all(alts):
                return Ob(name, PROVED, "nf", (time.time() - t0) * 1000, "after congruence", signature), None, None, used_all
    except (_Timeout, Exception):  # noqa: BLE001
        pass
    ms_nf = (time.time() - t0) * 1000
    try:
        tr, hyps, goal, used = _z3_problem(alts, assume, domain_exprs)
    except Unsupported as u:
        return (Ob(name, UNKNOWN, "z3", (time.time() - t0) * 1000, f"translation unsupported: {u}", signature), None, None,
                used_all)
    used_all += used
    r, be, ms_c, _ = check_sat(hyps, timeout_s=5.0, use_cvc5=False)
    if r == "unsat":
        return Ob(name, FAULT, be, ms_nf + ms_c, "vacuous: hypotheses unsatisfiable", signature), None, tr, used_all
    ob, model = smt_prove(name, hyps, goal, timeout_s=timeout_s, signature=signature, cover=False)
    ob.ms += ms_nf + ms_c
    if ob.verdict in (PROVED, FAULT):
        return ob, model, tr, used_all
    # ---- sign-normalised rebuild
    has_pow = any(_opaque_apps([g]) for alt in alts for g in alt)
    if has_pow:
        t1 = time.time()
        syms = sorted(set().union(*[g.free_symbols for alt in alts for g in alt]), key=str)
        signs = _entailed_signs(hyps, tr, syms)
        if signs:
            rep = {s: (sp.Symbol(s.name, positive=True) if sg > 0 else -sp.Symbol(s.name + "__neg", positive=True))
                   for s, sg in signs.items()}

            def rebuild(e):
                e = sp.sympify(e).xreplace(rep)
                if isinstance(e, sp.Expr):
                    try:
                        e = sp.expand_log(sp.expand_power_base(sp.powdenest(e)))
                        e = sp.powsimp(e)
                    except Exception:  # noqa: BLE001
                        pass
                return e

            alts2 = [[rebuild(g) for g in alt] for alt in alts]
            assume2 = [a.xreplace(rep) for a in assume]
            dom2 = [rebuild(d) for d in domain_exprs]
            note = "sign-normalised: " + ", ".join(f"{s}{'>0' if g > 0 else '<0'}" for s, g in signs.items())
            used_all.append("symbols whose sign the domain facts entail are rebuilt as positive symbols; SymPy "
                            "auto-evaluation, powdenest, expand_power_base, expand_log, powsimp (no force) then apply")
            if _nf_all(alts2):
                return Ob(name, PROVED, "nf", ob.ms + (time.time() - t1) * 1000, note, signature), None, None, used_all
            try:
                alts2 = _regroup(congruence([g for alt in alts2 for g in alt]), alts2)
                tr2, hyps2, goal2, used2 = _z3_problem(alts2, assume2, dom2)
                # the entailed signs were consequences of the original hypotheses: keep those as well is unnecessary,
                # the rebuilt problem is the same formula under a renaming of symbols
                ob2, model2 = smt_prove(name, hyps2, goal2, timeout_s=timeout_s, signature=signature, cover=False)
                ob2.ms += ob.ms
                if ob2.verdict == PROVED:
                    ob2.detail = note
                    return ob2, None, tr2, used_all
            except Unsupported:
                pass
    return ob, model, tr, used_all


def _regroup(flat, like):
    out, k = [], 0
    for alt in like:
        out.append(flat[k:k + len(alt)])
        k += len(alt)
    return out


# ===================================================================================== numeric side
PREFIXES = [("nano", sp.Rational(1, 10**9)), ("micro", sp.Rational(1, 10**6)), ("milli", sp.Rational(1, 1000)),
            ("centi", sp.Rational(1, 100)), ("", sp.Integer(1)), ("kilo", sp.Integer(1000)), ("mega", sp.Integer(10**6))]


WIDE_SCALES = [(-15, "femto"), (-12, "pico"), (-9, "nano"), (-6, "micro"), (-3, "milli"), (0, ""), (3, "kilo"),
               (6, "mega"), (9, "giga"), (12, "tera")]


def make_quantity(dim, si_value, prefix: str = "", exact: bool = False):
    """A real Quantity of dimension `dim` whose scale factor is `si_value`, written with the given unit prefix.
    exact=True: si_value is a rational string; the construction is done in exact rationals (scale factor == value)."""
    from symplyphysics import Quantity
    from symplyphysics.core.dimensions import dimension_to_si_unit
    from sympy.physics.units import prefixes as P
    unit = dimension_to_si_unit(dim)
    base = Quantity(unit).scale_factor  # 1000**k for mass-bearing dimensions (gram-referenced SI of SymPy)
    if exact:
        v = sp.Rational(si_value)
        if unit == 1:
            return Quantity(v)
        if prefix:
            pf = getattr(P, prefix)
            return Quantity(v / sp.Rational(base) / sp.Rational(pf.scale_factor) * pf * unit)
        return Quantity(v / sp.Rational(base) * unit)
    if unit == 1:
        return Quantity(si_value)
    if prefix:
        pf = getattr(P, prefix)
        return Quantity((si_value / float(base) / float(pf.scale_factor)) * pf * unit)
    return Quantity((si_value / float(base)) * unit)


def _is_dimensionless(dim) -> bool:
    from sympy.physics.units import Dimension
    return _dims_equiv(dim, Dimension(1))


def param_dimension(p: Param):
    from sympy.physics.units import Dimension
    if p.kind == "dim":
        return p.spec
    d = getattr(p.spec, "dimension", None) if p.spec is not None else None
    if d is None and p.target is not None:
        d = getattr(p.target, "dimension", None)
    return d if d is not None else Dimension(1)


def _ann_str(p: Param) -> str:
    a = p.annotation
    if isinstance(a, str):
        return a
    if getattr(a, "__args__", None):
        return str(a).replace("typing.", "").replace("<class '", "").replace("'>", "")
    return getattr(a, "__name__", str(a))


def numeric_value(x):
    """SI value (scale factor) of a returned object as complex/float."""
    from sympy.physics.units import Quantity as SymQuantity
    if isinstance(x, SymQuantity):
        x = x.scale_factor
    v = complex(sp.N(numeric_constants(sp.sympify(x)), 30))
    return v.real if abs(v.imag) <= 1e-300 or abs(v.imag) <= 1e-15 * abs(v.real) else v


def numeric_residual(eq, pairs, n_by_base=None, op=""):
    """returns (ok, lhs, rhs, detail) with the documented operation applied when op is set."""
    r_atom, r_val = pairs[-1]
    e = instantiate_law(eq, n_by_base or {})
    sides = law_sides(e) if isinstance(e, sp.Eq) else [(e.lhs, e.rhs)]
    if len(sides) > 1:
        if op:
            raise Unsupported("documented abs()/ceiling() on a matrix-shaped law")
        oks, lvs, rvs, details = [], [], [], []
        for k, (l_, r_) in enumerate(sides):
            ok, lv, rv, detail = _numeric_sides(l_, r_, pairs)
            oks.append(ok)
            lvs.append(lv)
            rvs.append(rv)
            details.append(f"entry {k}: {detail}")
        return all(oks), lvs, rvs, "matrix law, entrywise: " + "; ".join(details)
    if op == "":
        return _numeric_sides(e.lhs, e.rhs, pairs)
    return _numeric_op(eq, pairs, n_by_base, op)


def _numeric_sides(elhs, erhs, pairs):
    """One scalar equation of the law at one point: (ok, lhs value, rhs value, detail)."""
    lhs, rhs = _subst(elhs, pairs), _subst(erhs, pairs)
    lv, rv = _nval(lhs), _nval(rhs)
    li, ri = math.isinf(abs(lv)), math.isinf(abs(rv))
    if li or ri:
        if li and ri:
            ok = lv == rv
            return ok, lv, rv, f"lhs={lv!r} rhs={rv!r} (both infinite)"
        other = abs(rv) if li else abs(lv)
        if other > 1e300:
            raise Unsupported("non-finite value (float overflow) at this point")
        return False, lv, rv, f"lhs={lv!r} rhs={rv!r}: one side of the law is infinite, the other is finite"
    # the terms of the law's own sides give the honest scale (a side that is a difference of huge terms, or 0)
    scale = max(abs(lv), abs(rv), _term_scale(elhs, pairs), _term_scale(erhs, pairs), 1e-300)
    ok = abs(lv - rv) <= REL_TOL * scale
    return ok, lv, rv, f"lhs={lv!r} rhs={rv!r} |lhs-rhs|/scale={abs(lv - rv) / scale:.3e}"


def _numeric_op(eq, pairs, n_by_base, op):
    # abs / ceiling: result == op(solution of the law for the result symbol)
    r_atom, r_val = pairs[-1]
    s = sp.Dummy("sol")
    resid = numeric_constants(law_residual(eq, [(a, sp.N(v)) if not isinstance(v, list) else (a, [sp.N(x) for x in v])
                                                for a, v in pairs[:-1]] + [(r_atom, s)], n_by_base))
    sols = sp.solve(resid, s)
    rv = numeric_value(r_val)
    vals = []
    for so in sols:
        v = complex(sp.N(so, 30))
        if op == "abs":
            t = abs(v)
            vals.append(t)
            if abs(t - rv) <= REL_TOL * max(abs(t), abs(rv), 1e-300):
                return True, rv, t, f"result={rv!r} == abs(solution {v!r})"
        elif op == "ceiling":
            if abs(v.imag) > 1e-12:
                continue
            t = math.ceil(v.real - 1e-12)
            vals.append(t)
            if t == rv:
                return True, rv, t, f"result={rv!r} == ceiling(solution {v.real!r})"
    return False, rv, vals, f"result={rv!r} is not {op}() of any solution; {op}(solutions)={vals!r}"


def _nval(x):
    x = exact_constants(sp.sympify(x))
    if x.free_symbols:
        raise Unsupported(f"unbound symbols {sorted(map(str, x.free_symbols))} after substitution")
    if x.has(sp.I) and x.has(sp.exp):
        x = x.rewrite(sp.cos)  # evalf of exp(I*huge) loses digits, cos/sin reduce the argument exactly
    v = complex(sp.N(x, 30))
    if math.isnan(v.real) or math.isnan(v.imag):
        raise Unsupported("nan")
    return v.real if v.imag == 0 else v


def _term_scale(side, pairs):
    """Largest magnitude among the additive terms of one side of the law, each evaluated on its own."""
    best = 0.0
    for t in sp.Add.make_args(sp.expand(side) if side.is_Add else side):
        try:
            v = abs(_nval(_subst(t, pairs)))
            if not math.isinf(v):
                best = max(best, v)
        except Exception:  # noqa: BLE001
            pass
    return best


# ---------------------------------------------------------------------------------- replay support (used by scripts)
def replay_point(modname: str, fname: str, law_attr: str, args: dict, op: str = "", _contract=None, earlier: dict = None):
    """Executed by `check --replay`: call the REAL decorated function on real Quantities and assert the law residual.

    args: {param: ("q", si_value, prefix) | ("f", value) | ("i", value) | ("list", [entries...])}
    earlier: arguments of a call made first in the same process (call-history clause); its outcome is not judged."""
    if _contract is not None:
        c = _contract
    else:
        mod = importlib.import_module(modname)
        c = build_contract(mod, fname)
    assert not c.reason, f"contract cannot be formed any more: {c.reason}"
    hit = [(n, e, a) for n, e, a in c.laws if n == law_attr]
    assert hit, f"equation {law_attr} not found"
    n, eq, assoc = hit[0]
    _fill_targets(c, assoc)
    if earlier is not None:
        print("earlier call in the same process with", earlier)
        c.decorated(**{p.name: _build_arg(p, earlier[p.name]) for p in c.params})
    kwargs = {}
    for p in c.params:
        kwargs[p.name] = _build_arg(p, args[p.name])
    print("calling", f"{modname}.{fname}")
    for k, v in kwargs.items():
        print("  ", k, "=", v, " scale_factor=", shape_map(lambda x: getattr(x, "scale_factor", x), v)
              if isinstance(v, (list, tuple)) else getattr(v, "scale_factor", v))
    for note in assoc.get("notes", []):
        print("association:", note)
    result = c.decorated(**kwargs)
    print("returned", result, " SI value", shape_map(numeric_value, result) if isinstance(result, (list, tuple))
          else numeric_value(result))
    pairs, n_by_base = _numeric_pairs(c, assoc, kwargs, result)
    ok, lv, rv, detail = numeric_residual(eq, pairs, n_by_base, c.op)
    print("law:", eq)
    print(detail)
    assert ok, f"{short(modname)}.{fname}: law {law_attr} violated: {detail}"


def _build_arg(p: Param, entry, target=None):
    tag = entry[0]
    if tag == "tuple":
        # R-matrix parameter: the dimension of each entry is the declared dimension of the law symbol at that position
        t = p.target if target is None else target
        assert isinstance(t, tuple) and len(t) == len(entry[1]), "matrix-shaped argument does not fit the association"
        return tuple(_build_arg(p, e, target=ti) for e, ti in zip(entry[1], t))
    if target is not None and tag in ("q", "qx"):
        dim = getattr(target, "dimension", None)
        return make_quantity(dim, float(entry[1]) if tag == "q" else entry[1], entry[2], exact=(tag == "qx"))
    if tag == "q":
        return make_quantity(param_dimension(p), float(entry[1]), entry[2])
    if tag == "qx":
        return make_quantity(param_dimension(p), entry[1], entry[2], exact=True)
    if tag == "fx":
        r = sp.Rational(entry[1])
        return int(r) if r.is_Integer else float(r)
    if tag == "f":
        return float(entry[1])
    if tag == "i":
        return int(entry[1])
    if tag == "list":
        return [_build_arg(p, e) for e in entry[1]]
    raise ValueError(tag)


def _fill_targets(c: Contract, assoc):
    for p in c.params:
        p.target = assoc["params"][p.name]
        p.how = assoc["hows"][p.name]
    c.out_target = assoc["result"]
    c.out_how = assoc["result_how"]


def _numeric_pairs(c: Contract, assoc, kwargs, result):
    from sympy.physics.units import Quantity as SymQuantity
    pairs, n_by_base = [], {}

    def val(x):
        return exactify(x.scale_factor) if isinstance(x, SymQuantity) else exactify(x)

    for p in c.params:
        a = kwargs[p.name]
        if isinstance(p.target, tuple):
            pairs += [(s_, val(x)) for s_, x in shape_zip(p.target, a)]
        elif isinstance(a, (list, tuple)):
            pairs.append((p.target, [val(x) for x in a]))
            n_by_base[p.target] = len(a)
        else:
            pairs.append((p.target, val(a)))
    if isinstance(assoc["result"], tuple):
        # R-matrix result: the returned nested tuple entrywise (ValueError when the shape differs: judged by the caller)
        pairs += [(s_, val(x)) for s_, x in shape_zip(assoc["result"], result)]
    else:
        pairs.append((assoc["result"], val(result)))
    return pairs, n_by_base


def _n_result_pairs(assoc) -> int:
    return len(shape_flat(assoc["result"])) if isinstance(assoc["result"], tuple) else 1


def replay_script(c: Contract, law_attr: str, args: dict, fn: str = "replay_point") -> str:
    lines = [
        "# replay: real module, real decorated function, real Quantities; asserts the published law on the outcome",
        "import sys",
        f"sys.path.insert(0, {str(VERIF)!r})",
        "import os",
        "sys.path.insert(0, os.environ.get('VERIF_REPO', '/repo'))",
        f"from vf.calc import {fn}",
        f"{fn}({c.modname!r}, {c.fname!r}, {law_attr!r}, {args!r}, op={c.op!r})",
    ]
    return "\n".join(lines) + "\n"


# ===================================================================================== per function
@dataclass
class FnResult:
    qual: str
    klass: str = ""  # proved | refuted | bounded | out_of_reach | undecided | fault
    reason: str = ""
    obs: list = field(default_factory=list)
    bounded: Optional[dict] = None
    audit: Optional[dict] = None
    extra: list = field(default_factory=list)  # further bounded entries: (what, bound, count, clean, failures)
    assoc: str = ""
    rebound: list = field(default_factory=list)
    axioms: list = field(default_factory=list)
    notes: list = field(default_factory=list)
    assoc_notes: list = field(default_factory=list)  # which rule associated which parameter / result to which law symbols
    assoc_rules: list = field(default_factory=list)  # R-matrix / R-unique, when used
    file: str = ""
    secs: float = 0.0


def _is_seq_param(p: Param) -> bool:
    s = _ann_str(p)
    return p.kind == "idx" or "Sequence" in s or "list" in s.lower()


SYNTACTIC_BOUNDED_RULES = [
    ("imaginary", "law or returned expression contains the imaginary unit (complex impedance); I is never a real variable"),
    ("matrix", "law contains matrices that cannot be written out entry by entry"),
    ("float-exponent", "law contains a power with a machine-float / high-degree rational exponent (root of degree > 12): "
                       "equality only to numerical precision"),
]


def syntactic_demotion(c: Contract, eq) -> str:
    if eq.has(sp.I):
        return SYNTACTIC_BOUNDED_RULES[0][1]
    if eq.atoms(sp.MatrixBase) or eq.has(sp.MatMul) or eq.has(sp.MatAdd):
        # a matrix equation whose two sides can be written out entry by entry is read entrywise (rule R-matrix) and goes the
        # generic-execution route; any other use of matrices stays with the bounded stand-in
        try:
            if len(law_sides(eq)) < 1 or not (_is_matrix(eq.lhs) and _is_matrix(eq.rhs)):
                return SYNTACTIC_BOUNDED_RULES[1][1]
        except Exception:  # noqa: BLE001
            return SYNTACTIC_BOUNDED_RULES[1][1]
    if _high_degree(reeval(eq.lhs - eq.rhs)):
        return SYNTACTIC_BOUNDED_RULES[2][1]
    for p in c.params:
        s = _ann_str(p)
        if "Callable" in s or "Vector" in s or "Matrix" in s:
            return f"parameter {p.name} is a {s} (callable / vector / matrix argument)"
    return ""


def symbolic_function(c: Contract, law_attr, eq, assoc, rng) -> tuple[str, list, str, list, list]:
    """returns (klass, obs, reason, rebound names, axioms).  klass: proved | refuted | undecided | unreachable"""
    _fill_targets(c, assoc)
    base = f"{PID}/{c.qual}/law-holds" + ("" if law_attr in ("law", "definition", "condition") else f"[{law_attr}]")
    shapes = [None]
    seqs = [p for p in c.params if _is_seq_param(p)]
    if seqs:
        shapes = list(SEQ_LENGTHS)
    obs, rebound_all, axioms_all = [], [], []
    float_only = []
    for shape in shapes:
        args, pairs, n_by_base = {}, [], {}
        for p in c.params:
            if isinstance(p.target, tuple):
                # R-matrix: one fresh symbol per entry, named after its position, carrying the entry symbol's assumptions
                a = _indexed_map(lambda s, ix: arg_symbol(p.name, s, getattr(s, "dimension", None),
                                                          "_" + "_".join(map(str, ix))), p.target)
                args[p.name] = a
                pairs += shape_zip(p.target, a)
                continue
            dim = param_dimension(p)
            if p in seqs:
                a = [arg_symbol(p.name, None, dim, f"_{k + 1}") for k in range(shape)]
                n_by_base[p.target] = shape
            else:
                a = arg_symbol(p.name, p.target, dim)
                if "int" == _ann_str(p) and not a.is_integer:
                    a = ArgSym(p.name, **{**{k: v for k, v in a.assumptions0.items() if k in SIGN_KEYS and v}, "real": True,
                                          "integer": True})
            args[p.name] = a
            pairs.append((p.target, a))
        g = c.undecorated
        with transparent(g.__globals__) as rebound:
            rebound_all = rebound
            try:
                with time_limit(EXEC_TIMEOUT_S):
                    paths = fork_run(lambda: g(**args))
            except PathLimit as e:
                return "unreachable", [], f"path explosion: {e}", rebound_all, []
            except _Timeout as e:
                return "unreachable", [], f"generic execution {e}", rebound_all, []
        sname = base + (f"/len{shape}" if shape is not None else "")
        returned = 0
        for k, (cond, (tag, val)) in enumerate(paths):
            pname = sname + (f"/path{k}" if len(paths) > 1 else "")
            if cond and _path_infeasible(cond):
                continue
            if tag == "raise":
                if isinstance(val, (ValueError, AssertionError)):
                    continue  # the function refuses this part of the domain (explicit raise / boundary assert)
                return ("unreachable", [], f"generic execution raised {type(val).__name__}: {str(val)[:160]}",
                        rebound_all, [])
            returned += 1
            if isinstance(c.out_target, tuple):
                # R-matrix result: the returned nested tuple is read entrywise against the associated law symbols
                try:
                    leaves = [v for _s, v in shape_zip(c.out_target, val)]
                except ValueError as e:
                    return ("unreachable", [], f"returned object does not have the shape of the associated law matrix: {e}",
                            rebound_all, [])
                if not all(isinstance(v, (sp.Expr, int, float)) for v in leaves):
                    return "unreachable", [], "returned object has entries that are not scalars", rebound_all, []
                val = shape_map(sp.sympify, val)
                leaves = shape_flat(val)
            elif isinstance(val, (tuple, list)) or not isinstance(val, (sp.Expr, int, float)):
                return "unreachable", [], f"returned object is a {type(val).__name__}, not a scalar", rebound_all, []
            else:
                val = sp.sympify(val)
                leaves = [val]
            if any(v.has(sp.I) for v in leaves):
                return "unreachable", [], SYNTACTIC_BOUNDED_RULES[0][1], rebound_all, []
            if any(v.has(sp.nan) or v.has(sp.zoo) or v.has(sp.oo) for v in leaves):
                # on this path the function divides by zero: no finite value is returned (the real Quantity
                # constructor refuses non-finite scale factors), the property does not constrain it
                returned -= 1
                continue
            try:
                ob = _discharge_path(c, law_attr, eq, pairs, n_by_base, val, cond, pname, args, rng, axioms_all)
            except Unsupported as u:
                return "unreachable", [], f"unsupported: {u}", rebound_all, []
            except FloatOnly as u:
                float_only.append(str(u))  # this path: equality only to numerical precision; go on with the others
                continue
            obs.append(ob)
        if returned == 0:
            return "unreachable", [], "every generic path raises (function refuses all symbolic inputs)", rebound_all, []
    verdicts = {o.verdict for o in obs}
    if REFUTED in verdicts:
        return "refuted", obs, "", rebound_all, axioms_all
    if float_only:
        return "unreachable", [], float_only[0], rebound_all, axioms_all
    if verdicts == {PROVED}:
        return "proved", obs, "", rebound_all, axioms_all
    if FAULT in verdicts:
        return "fault", obs, "", rebound_all, axioms_all
    return "undecided", obs, "", rebound_all, axioms_all


def reeval(e):
    """Rebuild bottom-up so that nodes the law author left unevaluated (e.g. an exponent written 1/4 with
    evaluate=False) are auto-evaluated by SymPy (value preserving)."""
    e = sp.sympify(e)
    if not e.args or isinstance(e, sp.Atom):
        return e
    try:
        return e.func(*[reeval(a) for a in e.args])
    except Exception:  # noqa: BLE001
        return e


class FloatOnly(Exception):
    """Residual carries machine floats and does not vanish exactly: equality only to numerical precision."""


def _has_float(*exprs) -> bool:
    return any(sp.sympify(e).atoms(sp.Float) for e in exprs)


def _path_infeasible(cond) -> bool:
    """A recorded path whose condition is unsatisfiable over the reals was never a behaviour of the function."""
    try:
        tr = Tr()
        cs = [tr.trb(reeval(reduce_constants(x)[0])) for x in cond]
        r, _, _, _ = check_sat(cs + tr.facts(), timeout_s=5.0, use_cvc5=False)
        return r == "unsat"
    except Exception:  # noqa: BLE001
        return False


def _discharge_path(c, law_attr, eq, pairs, n_by_base, val, cond, pname, args, rng, axioms_all) -> Ob:
    sig = c.qual
    res_atom = c.out_target
    if isinstance(res_atom, tuple):
        return _discharge_path_matrix(c, law_attr, eq, pairs, n_by_base, val, cond, pname, args, rng, axioms_all)
    r0 = sp.Symbol("vf_r0", real=True, **{k: True for k in SIGN_KEYS
                                            if getattr(res_atom, "assumptions0", {}).get(k) is True})
    if c.op == "ceiling":
        return _discharge_ceiling(c, eq, pairs, n_by_base, val, cond, pname, r0, axioms_all)
    if len(law_sides(eq)) > 1:
        return _discharge_path_matrix(c, law_attr, eq, pairs, n_by_base, val, cond, pname, args, rng, axioms_all)
    R_raw = law_residual(eq, pairs + [(res_atom, val)], n_by_base)
    Rm_raw = law_residual(eq, pairs + [(res_atom, -val)], n_by_base) if c.op == "abs" else None
    H_raw = law_residual(eq, pairs + [(res_atom, r0)], n_by_base)
    from sympy.physics.units import Quantity as SymQuantity
    has_consts = any(sp.sympify(x).atoms(SymQuantity) for x in (R_raw, val, *cond))
    variants = [("constants-as-positive-symbols", lambda e: reduce_constants(e)[0])]
    if has_consts:
        variants.append(("constants-numeric", numeric_constants))
    t_all = time.time()
    final = None
    for vname, conv in variants:
        R, valc, H = reeval(conv(R_raw)), reeval(conv(val)), reeval(conv(H_raw))
        pc = [reeval(conv(x)) for x in cond]
        goals, abs_alt = [R], None
        if c.op == "abs":
            goals = [R, sp.Abs(valc) - valc]  # a magnitude: a solution or minus a solution, and non-negative
            abs_alt = [reeval(conv(Rm_raw)), sp.Abs(valc) - valc]
        # ---- D0: all real arguments (with the declared sign assumptions), wherever the terms are defined
        ob0, m0, tr0, used = prove_zero(pname, goals, assume=pc, domain_exprs=[valc], signature=sig, abs_alt=abs_alt)
        _merge(axioms_all, used)
        if ob0.verdict == PROVED:
            ob0.detail = ("domain=all-real-arguments;" + vname + (";" + ob0.detail if ob0.detail else ""))
            ob0.ms = (time.time() - t_all) * 1000
            return ob0
        if ob0.verdict == FAULT:
            return ob0
        # ---- D1: arguments for which the law has a real solution at all (some real r0 solves it)
        ob1, m1, tr1 = ob0, m0, tr0
        if ob0.verdict == REFUTED and H != 0 and r0 in sp.sympify(H).free_symbols:
            ob1, m1, tr1, used = prove_zero(pname, goals, assume=pc + [sp.Eq(H, 0, evaluate=False)],
                                            domain_exprs=[valc, H], signature=sig, abs_alt=abs_alt)
            _merge(axioms_all, used)
            if ob1.verdict == PROVED:
                ob1.detail = ("domain=arguments-for-which-the-law-has-a-real-solution;" + vname
                              + (";" + ob1.detail if ob1.detail else ""))
                ob1.ms = (time.time() - t_all) * 1000
                return ob1
            if ob1.verdict == FAULT:  # no argument tuple admits a real solution: report D0's answer
                ob1, m1, tr1 = ob0, m0, tr0
        final = (vname, ob0, ob1, m1, tr1, R, valc, H, pc)
    vname, ob0, ob1, m1, tr1, R, valc, H, pc = final
    ob = ob1
    ob.ms = (time.time() - t_all) * 1000
    floats = _has_float(R, valc)
    if ob.verdict == REFUTED:
        ob.detail += " | residual: " + str(R)[:300] + " | returned: " + str(valc)[:200]
        try:
            with time_limit(EXEC_TIMEOUT_S):
                ob.replay = _concretize(c, law_attr, eq, m1, tr1, args, pc, R, H, rng)
        except _Timeout:
            ob.replay = {"reproduced": False, "script": None, "message": "search for a concrete input timed out"}
        if ob.replay.get("reproduced"):
            # a real call of the decorated function violates the law beyond the numerical tolerance: genuine
            ob.detail += " | failing input: " + str(ob.replay.get("inputs"))
            return ob
        if floats:
            raise FloatOnly("machine floats: the residual does not vanish exactly with floats read as exact rationals "
                            f"(refuted by {ob.backend}, no failing input beyond {REL_TOL:g} relative found); equality to "
                            "numerical precision is decided by the bounded stand-in")
        if tr1 is not None and any(not isinstance(e, sp.Symbol) for e in tr1.atom_exprs.values()):
            # the countermodel assigns free values to uninterpreted terms (exp, log, symbolic powers, ...): it is only a
            # candidate; without a failing input reproduced on the real function this is NOT a refutation
            ob.verdict = UNKNOWN
            ob.detail = ("countermodel over uninterpreted terms, not reproduced on the real function ("
                         + str(ob.replay.get("message", ""))[:120] + ") | " + ob.detail)[:600]
            ob.replay = None
        return ob
    if floats:
        raise FloatOnly("machine floats: the residual does not vanish exactly with floats read as exact rationals "
                        f"({ob.verdict} by {ob.backend}); equality to numerical precision is decided by the bounded stand-in")
    ob.detail = (ob.detail + f" | D0: {ob0.verdict}")[:400]
    return ob


def _discharge_path_matrix(c, law_attr, eq, pairs, n_by_base, val, cond, pname, args, rng, axioms_all) -> Ob:
    """Matrix-shaped law and / or tuple result (rule R-matrix): every entry of lhs - rhs must vanish.  Same two domains as
    the scalar case (D0 all real arguments; D1 arguments for which the law has a real solution for the result symbols)."""
    sig = c.qual
    if c.op:
        raise Unsupported("documented abs()/ceiling() on a matrix-shaped law")
    res_pairs = shape_zip(c.out_target, val) if isinstance(c.out_target, tuple) else [(c.out_target, val)]
    r0s = [sp.Symbol("vf_r0" if len(res_pairs) == 1 else f"vf_r0_{k}", real=True,
                     **{a: True for a in SIGN_KEYS if getattr(s_, "assumptions0", {}).get(a) is True})
           for k, (s_, _v) in enumerate(res_pairs)]
    R_raw = law_residuals(eq, pairs + res_pairs, n_by_base)
    H_raw = law_residuals(eq, pairs + [(s_, r) for (s_, _v), r in zip(res_pairs, r0s)], n_by_base)
    vals = [v for _s, v in res_pairs]
    from sympy.physics.units import Quantity as SymQuantity
    has_consts = any(sp.sympify(x).atoms(SymQuantity) for x in (*R_raw, *vals, *cond))
    variants = [("constants-as-positive-symbols", lambda e: reduce_constants(e)[0])]
    if has_consts:
        variants.append(("constants-numeric", numeric_constants))
    t_all = time.time()
    final = None
    for vname, conv in variants:
        R = [reeval(conv(x)) for x in R_raw]
        valc = [reeval(conv(x)) for x in vals]
        H = [reeval(conv(x)) for x in H_raw]
        pc = [reeval(conv(x)) for x in cond]
        ob0, m0, tr0, used = prove_zero(pname, R, assume=pc, domain_exprs=valc, signature=sig)
        _merge(axioms_all, used)
        if ob0.verdict == PROVED:
            ob0.detail = (f"domain=all-real-arguments;{len(R)} entries;" + vname + (";" + ob0.detail if ob0.detail else ""))
            ob0.ms = (time.time() - t_all) * 1000
            return ob0
        if ob0.verdict == FAULT:
            return ob0
        ob1, m1, tr1 = ob0, m0, tr0
        Hn = [h for h in H if h != 0]
        if ob0.verdict == REFUTED and Hn and any(set(r0s) & sp.sympify(h).free_symbols for h in Hn):
            ob1, m1, tr1, used = prove_zero(pname, R, assume=pc + [sp.Eq(h, 0, evaluate=False) for h in Hn],
                                            domain_exprs=valc + Hn, signature=sig)
            _merge(axioms_all, used)
            if ob1.verdict == PROVED:
                ob1.detail = (f"domain=arguments-for-which-the-law-has-a-real-solution;{len(R)} entries;" + vname
                              + (";" + ob1.detail if ob1.detail else ""))
                ob1.ms = (time.time() - t_all) * 1000
                return ob1
            if ob1.verdict == FAULT:
                ob1, m1, tr1 = ob0, m0, tr0
        final = (vname, ob0, ob1, m1, tr1, R, valc, H, pc)
    vname, ob0, ob1, m1, tr1, R, valc, H, pc = final
    ob = ob1
    ob.ms = (time.time() - t_all) * 1000
    floats = _has_float(*R, *valc)
    if ob.verdict == REFUTED:
        ob.detail += " | residual entries: " + str(R)[:300] + " | returned: " + str(valc)[:200]
        try:
            with time_limit(EXEC_TIMEOUT_S):
                ob.replay = _concretize(c, law_attr, eq, m1, tr1, args, pc, R, H, rng)
        except _Timeout:
            ob.replay = {"reproduced": False, "script": None, "message": "search for a concrete input timed out"}
        if ob.replay.get("reproduced"):
            ob.detail += " | failing input: " + str(ob.replay.get("inputs"))
            return ob
        if floats:
            raise FloatOnly("machine floats: the residual does not vanish exactly with floats read as exact rationals "
                            f"(refuted by {ob.backend}, no failing input beyond {REL_TOL:g} relative found); equality to "
                            "numerical precision is decided by the bounded stand-in")
        if tr1 is not None and any(not isinstance(e, sp.Symbol) for e in tr1.atom_exprs.values()):
            ob.verdict = UNKNOWN
            ob.detail = ("countermodel over uninterpreted terms, not reproduced on the real function ("
                         + str(ob.replay.get("message", ""))[:120] + ") | " + ob.detail)[:600]
            ob.replay = None
        return ob
    if floats:
        raise FloatOnly("machine floats: the residual does not vanish exactly with floats read as exact rationals "
                        f"({ob.verdict} by {ob.backend}); equality to numerical precision is decided by the bounded stand-in")
    ob.detail = (ob.detail + f" | D0: {ob0.verdict}")[:400]
    return ob


def _discharge_ceiling(c, eq, pairs, n_by_base, val, cond, pname, r0, axioms_all) -> Ob:
    """Documented rounded-up integer: the returned expression must be ceiling(E) with E a solution of the law.

    Structural: the returned value is literally a ceiling(..) node; E - S == 0 for all arguments (nf / z3), S being the
    solution of the law for the result symbol.  Any other shape (int(x) + 1, floor(x) + 1, ...) is not compared
    symbolically: it is left to the exact integer-grid stand-in."""
    t0 = time.time()
    val = reeval(val)
    if not isinstance(val, sp.ceiling):
        raise Unsupported(f"documented ceiling: the returned expression is not a ceiling(..) node ({str(val)[:80]})")
    E = val.args[0]
    H = law_residual(eq, pairs + [(c.out_target, r0)], n_by_base)
    try:
        with time_limit(EXEC_TIMEOUT_S):
            sols = sp.solve(H, r0)
    except _Timeout:
        raise Unsupported("documented ceiling: solve(law, result symbol) timed out")
    if not sols:
        raise Unsupported("documented ceiling: the law has no closed-form solution for the result symbol")
    pc = [reeval(reduce_constants(x)[0]) for x in cond]
    last = None
    for S in sols:
        D = reeval(reduce_constants(E - S)[0])
        ob, _m, _tr, used = prove_zero(pname, [D], assume=pc, domain_exprs=[reeval(reduce_constants(E)[0])],
                                       signature=c.qual)
        _merge(axioms_all, used)
        if ob.verdict == PROVED:
            ob.name = pname.replace("/law-holds", "/result-is-ceiling-of-the-law-solution")
            ob.detail = "returned ceiling(E); E == solution of the law for all arguments" + (";" + ob.detail if ob.detail else "")
            ob.ms = (time.time() - t0) * 1000
            return ob
        last = ob
    raise Unsupported(f"documented ceiling: argument of ceiling(..) not shown equal to a solution of the law ({last.verdict})")


def _merge(dst: list, src):
    for u in src:
        if u not in dst:
            dst.append(u)


@contextmanager
def _quiet():
    import contextlib
    import io
    with contextlib.redirect_stdout(io.StringIO()):
        yield


def _model_value(model, tr, sym) -> Optional[float]:
    v = tr.atoms.get(sym)
    if v is None or model is None:
        return None
    try:
        mv = model.eval(v, model_completion=True)
        if z3.is_algebraic_value(mv):
            mv = mv.approx(20)
        return float(Fraction(mv.numerator_as_long(), mv.denominator_as_long()))
    except Exception:
        return None


def _concretize(c: Contract, law_attr, eq, model, tr, args, cond, R, H, rng) -> dict:
    """Turn a countermodel (or, failing that, a seeded search) into a real call that violates the law."""
    flat = []
    for p in c.params:
        flat += shape_flat(args[p.name])
    mats = [args[p.name] for p in c.params if isinstance(p.target, tuple)]

    def rand_pt(signed: bool):
        for _ in range(20):
            pt = rand_pt1(signed)
            if all(_asymmetric(shape_map(lambda x: pt[x], m)) for m in mats):
                break
        return pt

    def rand_pt1(signed: bool):
        pt = {}
        for s in flat:
            v = math.exp(rng.uniform(math.log(0.2), math.log(8)))
            if s.is_integer:
                v = float(rng.randint(1, 6))
            if signed and not (s.is_positive or s.is_nonnegative) and rng.random() < 0.4:
                v = -v
            if s.is_negative:
                v = -abs(v)
            pt[s] = v
        return pt

    # physically plausible (positive) points first, then the solver's model, then signed points
    cands = [rand_pt(False) for _ in range(40)]
    if model is not None and tr is not None:
        pt = {}
        for s in flat:
            mv = _model_value(model, tr, s)
            pt[s] = mv if mv is not None else 1.0
        cands.append(pt)
    cands += [rand_pt(True) for _ in range(40)]
    last = ""
    for pt in cands:
        try:
            entries = {}
            for p in c.params:
                a = args[p.name]
                if isinstance(p.target, tuple):
                    entries[p.name] = _matrix_entries(p, shape_map(lambda x: pt[x], a), rng)
                elif isinstance(a, list):
                    entries[p.name] = ("list", [_entry(p, pt[x], rng) for x in a])
                else:
                    entries[p.name] = _entry(p, pt[a], rng)
            try:
                if not _path_holds(cond, pt):
                    last = "candidate point is off the path"
                    continue
                if not c.op and _prescreen_small(R, pt):
                    last = "symbolic residual is ~0 at the candidate point"
                    continue
                with _quiet():
                    replay_point(c.modname, c.fname, law_attr, entries, c.op, _contract=c)
            except AssertionError as e:
                # The real function RETURNED a value at this point and the published equation fails for it: that is what the
                # property forbids, whether or not the law has a real solution for these arguments (a function that returns a
                # value where no value can satisfy the law must refuse instead; seed C02-r4m2).  Until round 4 such points were
                # skipped as "outside the law-satisfiable domain", which turned that kind of violation into an undecided result.
                return {"reproduced": True, "inputs": {k: str(v) for k, v in entries.items()},
                        "script": replay_script(c, law_attr, entries), "message": str(e)[:400]}
            except Exception as e:  # refused / not evaluable at this point
                last = f"{type(e).__name__}: {e}"[:200]
                continue
        except Exception as e:
            last = f"{type(e).__name__}: {e}"[:200]
    return {"reproduced": False, "script": None, "message": last}


def _path_holds(cond, pt) -> bool:
    try:
        for cnd in cond:
            v = numeric_constants(sp.sympify(cnd)).xreplace({s: sp.Float(x) for s, x in pt.items()})
            if v is sp.false or v == False:  # noqa: E712
                return False
        return True
    except Exception:  # noqa: BLE001
        return True


def _prescreen_small(R, pt) -> bool:
    """Cheap filter before calling the real function: is the symbolic residual numerically ~0 at pt?"""
    if isinstance(R, (list, tuple)):
        return all(_prescreen_small(r, pt) for r in R)
    try:
        r = numeric_constants(sp.sympify(R).xreplace({s: sp.Float(v) for s, v in pt.items()}))
        r = r.xreplace({s: sp.Float(1.0) for s in r.free_symbols})
        terms = [abs(complex(sp.N(t))) for t in sp.Add.make_args(r)]
        v = abs(complex(sp.N(r)))
        return v <= 1e-9 * max(terms + [1e-300])
    except Exception:  # noqa: BLE001
        return False


def _law_satisfiable_at(H, pt) -> bool:
    """Does the law have a real solution for the result symbol at these argument values?  (numeric; conservative:
    when no real root is found the point counts as outside the domain, so it is not used as a failing input)"""
    import cmath
    if isinstance(H, (list, tuple)):
        if len(H) == 1:
            return _law_satisfiable_at(H[0], pt)
        return _system_satisfiable_at(H, pt)
    try:
        r0 = [s for s in sp.sympify(H).free_symbols if s.name == "vf_r0"]
        if not r0:
            return True
        h = numeric_constants(H.xreplace({s: sp.Float(v) for s, v in pt.items()}))
        h = h.xreplace({s: sp.Float(1.0) for s in h.free_symbols if s not in r0})
        f = sp.lambdify(r0[0], h, modules=[{"log": cmath.log, "sqrt": cmath.sqrt, "exp": cmath.exp, "sin": cmath.sin,
                                           "cos": cmath.cos, "tan": cmath.tan, "asin": cmath.asin, "acos": cmath.acos,
                                           "atan": cmath.atan, "sinh": cmath.sinh, "cosh": cmath.cosh,
                                           "tanh": cmath.tanh, "acosh": cmath.acosh, "asinh": cmath.asinh,
                                           "atanh": cmath.atanh}, "math"])
        grid = [sg * 10 ** (k / 8) for sg in (1, -1) for k in range(-160, 161)] + [0.0]
        if r0[0].is_positive or r0[0].is_nonnegative:
            grid = [g for g in grid if g >= 0]
        grid.sort()
        prev = None
        for g in grid:
            try:
                v = complex(f(g))
            except Exception:  # noqa: BLE001
                prev = None
                continue
            if v != v or abs(v.imag) > 1e-9 * max(1.0, abs(v.real)):
                prev = None
                continue
            if v.real == 0 or (prev is not None and (prev < 0) != (v.real < 0)):
                return True
            prev = v.real
        return False
    except Exception:  # noqa: BLE001
        return False


def _system_satisfiable_at(H, pt) -> bool:
    """Several result symbols (matrix-shaped law): does the system H = 0 have a real solution for them at these argument
    values?  SymPy solves the numeric system (linear for the catalogue's matrix laws); conservative: False on any doubt."""
    try:
        hs = [numeric_constants(sp.sympify(h).xreplace({s: sp.Rational(repr(float(v))) if abs(float(v)) < 1e15 else sp.Float(v)
                                                        for s, v in pt.items()})) for h in H]
        r0s = sorted({s for h in hs for s in h.free_symbols if s.name.startswith("vf_r0")}, key=str)
        hs = [h for h in hs if h != 0]
        if not r0s or not hs:
            return True
        if any(h.free_symbols - set(r0s) for h in hs):
            return False
        with time_limit(POINT_TIMEOUT_S):
            sols = sp.solve(hs, r0s, dict=True)
        for so in sols:
            vals = [complex(sp.N(so.get(r, 0))) for r in r0s if r in so]
            if len(vals) == len(r0s) and all(abs(v.imag) <= 1e-12 * max(1.0, abs(v.real)) and v == v for v in vals):
                return True
        return False
    except BaseException:  # noqa: BLE001
        return False


def _asymmetric(m) -> bool:
    """A square matrix of numbers whose mirrored off-diagonal entries differ by more than 20 % (a transposed use of the
    matrix is visible there); anything that is not a square matrix counts as asymmetric."""
    d = shape_dims(m)
    if not d or len(d) != 2 or d[0] != d[1]:
        return True
    for i in range(d[0]):
        for j in range(i + 1, d[0]):
            a, b = abs(float(m[i][j])), abs(float(m[j][i]))
            if abs(float(m[i][j]) - float(m[j][i])) <= 0.2 * max(a, b, 1e-300):
                return False
    return True


def _leaf_entry(sym, kind: str, v: float, rng):
    """Replay entry for one matrix entry: a plain number for a float leaf / dimensionless symbol, else a Quantity of the
    symbol's declared dimension written with a random unit prefix."""
    d = getattr(sym, "dimension", None)
    if kind == "f" or d is None or _is_dimensionless(d):
        return ("f", float(v))
    return ("q", float(v), rng.choice([x for x, _ in PREFIXES]))


def _matrix_entries(p: Param, values, rng):
    """("tuple", [...]) entry for an R-matrix parameter from a nested tuple of numbers."""
    kinds = annotation_shape(p.annotation) or shape_map(lambda _s: "q", p.target)

    def build(t, k, v):
        if isinstance(t, tuple):
            return ("tuple", [build(a, b, c_) for a, b, c_ in zip(t, k, v)])
        return _leaf_entry(t, k, v, rng)

    return build(p.target, kinds, values)


def _random_matrix(p: Param, rng):
    """Seeded random magnitudes for an R-matrix parameter: independent per entry (0.05 .. 20), asymmetric when square."""
    for _ in range(50):
        vals = shape_map(lambda _s: math.exp(rng.uniform(math.log(0.05), math.log(20))), p.target)
        if _asymmetric(vals):
            break
    return vals


def _wants_int(p: Param) -> bool:
    a = _ann_str(p)
    return a == "int" or "[int]" in a or bool(getattr(p.target, "is_integer", False))


def _entry(p: Param, v: float, rng):
    if _wants_int(p):
        return ("i", int(round(v)) or 1)
    dim = param_dimension(p)
    if _is_dimensionless(dim) or _ann_str(p) == "float":
        return ("f", float(v))
    return ("q", float(v), rng.choice([x for x, _ in PREFIXES]))


# ===================================================================================== bounded stand-in
def comparison_dependent(c: Contract, eq) -> str:
    """Does the law or the function body compare quantities?  (Piecewise / relational / Min / Max in the law; an ordering
    comparison, min(), max() or sorted() in the body.)  Such functions depend on the core comparison hook."""
    from sympy.core.relational import Relational
    sides = (sp.sympify(eq.lhs), sp.sympify(eq.rhs))
    if any(x.has(sp.Piecewise) or x.atoms(Relational) or x.has(sp.Min) or x.has(sp.Max) or x.has(sp.Heaviside)
           for x in sides):
        return "law contains Piecewise / relational / Min / Max"
    try:
        import textwrap
        tree = ast.parse(textwrap.dedent(inspect.getsource(c.undecorated)))
    except Exception:  # noqa: BLE001
        return ""
    for n in ast.walk(tree):
        if isinstance(n, ast.Compare) and any(isinstance(o, (ast.Lt, ast.LtE, ast.Gt, ast.GtE)) for o in n.ops):
            return "function body has an ordering comparison"
        if isinstance(n, ast.Call) and isinstance(n.func, ast.Name) and n.func.id in ("min", "max", "sorted", "Piecewise"):
            return f"function body calls {n.func.id}()"
    return ""


# ------------------------------------------------------------------------------------- anchors from the module's own test
_ANCHORS: dict = {}
ANCHOR_TEST_LIMIT_S = 20
ANCHOR_MAX_PER_FUNCTION = 6


def _fixture_functions(testmod) -> dict:
    """fixture name -> undecorated function, for the pytest fixtures defined in a test module (pytest >= 8.4 wraps them in a
    FixtureFunctionDefinition, older versions mark the function)"""
    out = {}
    for attr, obj in vars(testmod).items():
        fn = name = None
        if hasattr(obj, "_get_wrapped_function"):
            try:
                fn = obj._get_wrapped_function()
                name = getattr(obj, "name", None) or getattr(getattr(obj, "_fixture_function_marker", None), "name", None)
            except Exception:  # noqa: BLE001
                fn = None
        elif hasattr(obj, "__pytest_wrapped__"):
            fn = obj.__pytest_wrapped__.obj
            name = getattr(getattr(obj, "_pytestfixturefunction", None), "name", None)
        if fn is not None:
            out[name or fn.__name__] = fn
    return out


def test_anchors(mod) -> dict:
    """calculate function name -> list of {parameter: value} of the calls the module's OWN test makes that return normally.

    The test file (test/**/<module stem>_test.py, unique, its directory names all occurring in the module path) is executed
    with recording wrappers around the module's calculate_* functions: every test function whose parameters are fixtures of
    that file is run once; calls that raise are not recorded.  Used ONLY to find arguments inside the function's domain when
    seeded random magnitudes find none; the expected values of the test are not used."""
    name = mod.__name__
    if name in _ANCHORS:
        return _ANCHORS[name]
    out: dict = {}
    _ANCHORS[name] = out
    from .core import REPO
    stem, parts = name.rsplit(".", 1)[1], name.split(".")
    troot = REPO / "test"
    cands = [p for p in troot.rglob(stem + "_test.py") if all(x in parts for x in p.relative_to(troot).parts[:-1])]
    if len(cands) != 1:
        return out
    originals = {n: f for n, f in vars(mod).items() if n.startswith("calculate_") and callable(f)}

    def recorder(fn_name, orig):
        sig = inspect.signature(orig)

        def wrapper(*a, **kw):
            result = orig(*a, **kw)
            try:
                bound = sig.bind(*a, **kw)
                bound.apply_defaults()
                if len(out.setdefault(fn_name, [])) < ANCHOR_MAX_PER_FUNCTION:
                    out[fn_name].append(dict(bound.arguments))
            except TypeError:
                pass
            return result
        return wrapper

    try:
        for n, f in originals.items():
            setattr(mod, n, recorder(n, f))
        import importlib.util
        spec = importlib.util.spec_from_file_location(f"vf_anchor_{abs(hash(name))}", cands[0])
        tm = importlib.util.module_from_spec(spec)
        with _quiet():
            spec.loader.exec_module(tm)
            fixtures = _fixture_functions(tm)
            for tn, tf in list(vars(tm).items()):
                if not (tn.startswith("test_") and inspect.isfunction(tf)):
                    continue
                try:
                    want = list(inspect.signature(tf).parameters)
                    if any(w not in fixtures for w in want):
                        continue
                    with time_limit(ANCHOR_TEST_LIMIT_S):
                        tf(**{w: fixtures[w]() for w in want if not inspect.signature(fixtures[w]).parameters})
                except KeyboardInterrupt:
                    raise
                except BaseException:  # noqa: BLE001  (a failing / slow test function contributes what it recorded so far)
                    continue
    except KeyboardInterrupt:
        raise
    except BaseException:  # noqa: BLE001
        pass
    finally:
        for n, f in originals.items():
            setattr(mod, n, f)
    return out


def _anchor_entry(p: Param, v):
    """a recorded argument -> replayable entry (None: not representable)"""
    from sympy.physics.units import Quantity as SymQuantity
    if isinstance(v, (list, tuple)):
        if not _is_seq_param(p):
            return None
        es = [_anchor_entry(p, x) for x in v]
        return None if any(e is None for e in es) or not es else ("list", es)
    if isinstance(v, bool):
        return None
    try:
        if isinstance(v, SymQuantity):
            z = complex(sp.N(numeric_constants(sp.sympify(v.scale_factor)), 30))
        else:
            z = complex(sp.N(sp.sympify(v), 30))
    except Exception:  # noqa: BLE001
        return None
    if z != z or abs(z.imag) > 0 or abs(z.real) == float("inf"):
        return None
    x = z.real
    if _wants_int(p):
        return ("i", int(round(x))) if abs(x - round(x)) < 1e-12 else None
    if isinstance(v, SymQuantity) and not (_is_dimensionless(param_dimension(p)) or _ann_str(p) == "float"):
        return ("q", x, "")
    if not isinstance(v, SymQuantity) and not (_is_dimensionless(param_dimension(p)) or _ann_str(p) == "float"
                                               or "float" in _ann_str(p)):
        return None
    return ("f", x)


def _perturb(entry, rng):
    tag = entry[0]
    if tag == "q":
        return ("q", entry[1] * math.exp(rng.uniform(-0.25, 0.25)), rng.choice([x for x, _ in PREFIXES]))
    if tag == "f":
        return ("f", entry[1] * math.exp(rng.uniform(-0.25, 0.25)))
    if tag == "list":
        return ("list", [_perturb(e, rng) for e in entry[1]])
    return entry


def anchors_for(mod, c: Contract) -> list:
    res = []
    for call in test_anchors(mod).get(c.fname, []):
        es = {}
        for p in c.params:
            if isinstance(p.target, tuple) or p.name not in call:
                es = None
                break
            e = _anchor_entry(p, call[p.name])
            if e is None:
                es = None
                break
            es[p.name] = e
        if es and es not in res:
            res.append(es)
    return res


# relative steps of the second call: mostly equal to the first call's arguments when printed with 3 (resp. 4) significant
# digits, different as numbers, and far above the residual tolerance
NEARBY_STEPS = (3e-4, 2e-5)


def _nearby(entry, step: float = NEARBY_STEPS[0]):
    tag = entry[0]
    if tag == "q":
        return ("q", entry[1] * (1.0 + step), entry[2])
    if tag == "f":
        return ("f", entry[1] * (1.0 + step))
    if tag in ("list", "tuple"):
        return (tag, [_nearby(e, step) for e in entry[1]])
    return entry


def _history_clause(c: Contract, law_attr, eq, assoc, entries) -> Optional[dict]:
    for step in NEARBY_STEPS:
        h = _history_clause_at(c, law_attr, eq, assoc, entries, step)
        if h is not None:
            return h
    return None


def _history_clause_at(c: Contract, law_attr, eq, assoc, entries, step) -> Optional[dict]:
    """Call-history clause of the bounded stand-in / audit: straight after an accepted call, the REAL function is called
    again with arguments that differ in the fourth significant digit; the law must hold for THESE arguments and this value
    (a result remembered from the earlier call - a cache keyed by a rounded printout, module-level state - does not).
    None: clause holds or the second call is refused / not evaluable (not judged)."""
    near = {k: _nearby(v, step) for k, v in entries.items()}
    if near == entries:
        return None
    try:
        with time_limit(POINT_TIMEOUT_S):
            kwargs = {p.name: _build_arg(p, near[p.name]) for p in c.params}
            result = c.decorated(**kwargs)
            pairs, n_by_base = _numeric_pairs(c, assoc, kwargs, result)
            ok, _lv, _rv, detail = numeric_residual(eq, pairs, n_by_base, c.op)
            if ok or (c.op == "" and _ill_conditioned(eq, pairs, n_by_base, _n_result_pairs(assoc))):
                return None
    except BaseException as e:  # noqa: BLE001
        if isinstance(e, KeyboardInterrupt):
            raise
        return None
    script = replay_script(c, law_attr, near).rstrip("\n")
    assert script.endswith(")")
    script = script[:-1] + f", earlier={entries!r})\n"
    rp = try_replay(script)
    if not rp["reproduced"]:
        return None
    # the same arguments in a fresh process, without the earlier call: if the law fails there too this is not a history effect
    alone = try_replay(replay_script(c, law_attr, near))
    return {
        "name": f"{PID}/{c.qual}/law-holds/after-an-earlier-call",
        "detail": f"{detail} at {near} when the function was called with {entries} before"
                  + ("" if alone["reproduced"] else " (the same arguments in a fresh process satisfy the law: the result "
                                                    "depends on the earlier call)"),
        "signature": c.qual,
        "replay": rp,
    }


def bounded_function(c: Contract, law_attr, eq, assoc, rng, npoints: int, wide: bool = False, anchors=None) -> dict:
    """Call the DECORATED real function at seeded random magnitudes and unit prefixes; check the law residual.

    wide=True: the magnitudes walk the whole prefix range femto .. tera (two points per prefix and round: dimensional
    arguments within a factor 5 of the prefix scale, once in ascending and once in descending order of the parameters, so
    that r > sigma and r < sigma both occur at 1e-15); the law is judged on the plain SI numbers (scale factors)."""
    _fill_targets(c, assoc)
    accepted, refused, failures, errors = 0, 0, [], []
    tries = illcond = timeouts = 0
    t_start = time.time()
    seqs = [p for p in c.params if _is_seq_param(p)]
    while (accepted < npoints and tries < npoints * 12) if not wide else tries < npoints:
        tries += 1
        entries = {}
        n = rng.randint(1, 4)
        if wide:
            expo, pname_ = WIDE_SCALES[((tries - 1) // 2) % len(WIDE_SCALES)]
            dimensional = [p for p in c.params if not isinstance(p.target, tuple) and not _wants_int(p)
                           and not _is_dimensionless(param_dimension(p)) and _ann_str(p) != "float"]
            fs = sorted(10 ** rng.uniform(-0.7, 0.7) for _ in dimensional)
            if tries % 2 == 0:
                fs.reverse()
            wide_val = {p.name: f * 10.0 ** expo for p, f in zip(dimensional, fs)}
        for p in c.params:
            if anchors:
                # anchored sampling: the arguments of a call the module's own test makes, first as they are, then every
                # magnitude moved by a random factor in [0.78, 1.28] and written with a random unit prefix
                base = anchors[(tries - 1) % len(anchors)]
                entries[p.name] = base[p.name] if tries <= len(anchors) else _perturb(base[p.name], rng)
                continue
            if isinstance(p.target, tuple):
                # R-matrix parameter: independent seeded magnitudes and unit prefixes per entry, asymmetric when square
                entries[p.name] = _matrix_entries(p, _random_matrix(p, rng), rng)
                continue

            def one():
                v = math.exp(rng.uniform(math.log(0.05), math.log(20)))
                tgt = p.target
                if _wants_int(p):
                    v = float(rng.randint(1, 6))
                if wide and p.name in wide_val and p not in seqs:
                    return ("q", wide_val[p.name], pname_)
                return _entry(p, v, rng)
            entries[p.name] = ("list", [one() for _ in range(n)]) if p in seqs else one()
        if time.time() - t_start > FN_BOUNDED_BUDGET_S:
            errors.append(f"time budget of {FN_BOUNDED_BUDGET_S}s for the bounded stand-in exhausted")
            break
        try:
            with time_limit(POINT_TIMEOUT_S):
                kwargs = {p.name: _build_arg(p, entries[p.name]) for p in c.params}
                result = c.decorated(**kwargs)
        except (ValueError, ZeroDivisionError) as e:
            refused += 1
            continue
        except _Timeout:
            timeouts += 1
            errors.append(f"call did not return within {POINT_TIMEOUT_S}s")
            if timeouts >= 2:
                break
            continue
        except Exception as e:  # noqa: BLE001
            refused += 1
            if len(errors) < 3:
                errors.append(f"{type(e).__name__}: {str(e)[:120]}")
            continue
        try:
            with time_limit(POINT_TIMEOUT_S):
                pairs, n_by_base = _numeric_pairs(c, assoc, kwargs, result)
                ok, lv, rv, detail = numeric_residual(eq, pairs, n_by_base, c.op)
                if not ok and c.op == "" and _ill_conditioned(eq, pairs, n_by_base, _n_result_pairs(assoc)):
                    illcond += 1
                    continue
        except _Timeout:
            timeouts += 1
            errors.append(f"residual not evaluated within {POINT_TIMEOUT_S}s")
            if timeouts >= 2:
                break
            continue
        except Exception as e:  # noqa: BLE001
            errors.append(f"residual not evaluable: {type(e).__name__}: {str(e)[:160]}")
            if len(errors) > 6:
                break
            continue
        accepted += 1
        if ok and accepted <= 3 and not wide and not any("after-an-earlier-call" in f["name"] for f in failures):
            h = _history_clause(c, law_attr, eq, assoc, entries)
            if h is not None:
                failures.append(h)
        if not ok and len(failures) < 3:
            failures.append({
                "name": f"{PID}/{c.qual}/law-holds/bounded",
                "detail": f"{detail} at {entries}",
                "signature": c.qual,
                "replay": {"reproduced": True, "inputs": {k: str(v) for k, v in entries.items()},
                           "script": replay_script(c, law_attr, entries)},
            })
    return {"accepted": accepted, "refused": refused, "failures": failures, "errors": errors, "tries": tries,
            "ill_conditioned": illcond}


GRID_VALUES = ["1", "2", "3", "4", "8", "9", "16", "27", "81", "1/2", "1/3"]
GRID_NEGATIVE = ["-1", "-2", "-1/2"]


def _grid_prepare(c: Contract, eq, assoc):
    """Solve the law ONCE, symbolically, for the result symbol: the independent reference for the grid."""
    _fill_targets(c, assoc)
    s = sp.Dummy("sol")
    par_syms = {p.name: sp.Dummy(p.name) for p in c.params}
    with time_limit(EXEC_TIMEOUT_S):
        resid = law_residual(eq, [(p.target, par_syms[p.name]) for p in c.params] + [(assoc["result"], s)], None)
        sols = sp.solve(resid, s)
    return sols, par_syms


def _grid_judge(c: Contract, assoc, sols, par_syms, entries) -> dict:
    """Call the real decorated function at one exact grid point and compare with op(solution of the law).

    Expected value: the operation applied to the law's own solution, evaluated with SymPy on the plain numbers the
    arguments carry (their scale factors), 60 digits; a solution within 1e-40 of an integer IS that integer.  For
    ceiling the value the published formula gives in float64 is accepted as well (a one-ulp difference of a prefixed
    argument may sit on the other side of an integer)."""
    try:
        with time_limit(POINT_TIMEOUT_S):
            kwargs = {p.name: _build_arg(p, entries[p.name]) for p in c.params}
            result = c.decorated(**kwargs)
            rv = numeric_value(result)
    except _Timeout:
        return {"status": "error", "detail": "call timed out"}
    except Exception as e:  # noqa: BLE001 - the function refuses this point
        return {"status": "refused", "detail": f"{type(e).__name__}: {str(e)[:80]}"}
    try:
        with time_limit(POINT_TIMEOUT_S):
            pairs, _nb = _numeric_pairs(c, assoc, kwargs, result)
            exact = {}
            for p, (_a, v) in zip(c.params, pairs[:-1]):
                v = sp.sympify(v)
                exact[par_syms[p.name]] = v if v.is_Rational else sp.Rational(float(v))
            f64 = {k: sp.Float(float(v)) for k, v in exact.items()}
            expected, shown = set(), []
            for so in sols:
                so = exact_constants(so)
                v60 = sp.N(so.xreplace(exact), 60)
                if v60.has(sp.nan) or v60.has(sp.zoo) or v60.has(sp.oo):
                    continue
                re_, im_ = v60.as_real_imag()
                if c.op == "ceiling":
                    if abs(im_) > sp.Float("1e-40"):
                        continue
                    k = sp.floor(re_ + sp.Rational(1, 2))
                    e_exact = int(k) if abs(re_ - k) < sp.Float("1e-40") else int(sp.ceiling(re_))
                    expected.add(e_exact)
                    shown.append(f"solution={sp.N(re_, 20)} -> ceiling {e_exact}")
                    try:
                        vf = complex(sp.N(numeric_constants(so).xreplace(f64), 17))
                        if abs(vf.imag) < 1e-12 and abs(vf.real - float(re_)) < 1e-9 * max(1.0, abs(float(re_))):
                            expected.add(math.ceil(vf.real))
                    except Exception:  # noqa: BLE001
                        pass
                    # ceiling is discontinuous at the integers: a solution that IS an integer N (to 1e-9 relative) is computed by
                    # the real function in binary64 through its own chain of operations and may come out as N -+ a few ulp, i.e.
                    # rounded up to N or to N + 1.  Both are "the ceiling of the solution to numerical precision"; away from the
                    # integers the two values coincide and nothing is relaxed.  (False alarm of the seed sweep, VERIF_SEED=11:
                    # log(1/8) / log(8) is -0.9999999999999999 in the function's float chain.)
                    delta = 1e-9 * max(1.0, abs(float(re_)))
                    expected.add(math.ceil(float(re_) - delta))
                    expected.add(math.ceil(float(re_) + delta))
                else:
                    expected.add(abs(complex(v60)))
                    shown.append(f"|solution|={abs(complex(v60))!r}")
    except BaseException as e:  # noqa: BLE001
        return {"status": "error", "detail": f"expected value not computed: {type(e).__name__}: {str(e)[:100]}"}
    if not expected:
        return {"status": "skipped", "detail": "the law has no finite real solution at this point"}
    if c.op == "ceiling":
        ok = isinstance(rv, float) and float(rv).is_integer() and int(rv) in expected
    else:
        ok = isinstance(rv, float) and rv >= 0 and any(abs(rv - e) <= 1e-9 * max(abs(e), 1e-300) for e in expected)
    return {"status": "ok" if ok else "fail",
            "detail": f"returned {rv!r}, expected {c.op}(solution) in {sorted(expected)!r} ({'; '.join(shown)})"}


def grid_function(c: Contract, law_attr, eq, assoc, rng, cap: int) -> dict:
    """Documented abs()/ceiling() functions: exact small-rational arguments in every combination (seeded order, capped at
    `cap` calls), written with random unit prefixes in exact rational arithmetic, so that exactly integral and negative
    solutions of the law are hit."""
    import itertools
    try:
        sols, par_syms = _grid_prepare(c, eq, assoc)
    except BaseException as e:  # noqa: BLE001
        return {"accepted": 0, "refused": 0, "failures": [], "errors": [f"solve: {type(e).__name__}: {e}"], "tries": 0}
    if not sols:
        return {"accepted": 0, "refused": 0, "failures": [], "errors": ["law has no closed-form solution"], "tries": 0}
    values = {}
    for p in c.params:
        vs = list(GRID_VALUES)
        if c.op == "abs" and not (getattr(p.target, "is_positive", False) or getattr(p.target, "is_nonnegative", False)):
            vs += GRID_NEGATIVE
        if _wants_int(p):
            vs = [v for v in vs if "/" not in v and not v.startswith("-")]
        values[p.name] = vs
    names = [p.name for p in c.params]
    total = 1
    for nme in names:
        total *= len(values[nme])
    if total <= cap:
        combos = list(itertools.product(*[values[nme] for nme in names]))
        rng.shuffle(combos)
    else:
        seen, combos = set(), []
        while len(combos) < cap:
            t = tuple(rng.choice(values[nme]) for nme in names)
            if t not in seen:
                seen.add(t)
                combos.append(t)
    counts = {"ok": 0, "fail": 0, "refused": 0, "skipped": 0, "error": 0}
    failures, errors = [], []
    t_start = time.time()
    for combo in combos:
        if time.time() - t_start > FN_BOUNDED_BUDGET_S:
            errors.append(f"time budget of {FN_BOUNDED_BUDGET_S}s exhausted after {sum(counts.values())} grid points")
            break
        entries = {}
        for p, v in zip(c.params, combo):
            if _wants_int(p) or _is_dimensionless(param_dimension(p)) or _ann_str(p) == "float":
                entries[p.name] = ("fx", v)
            else:
                entries[p.name] = ("qx", v, rng.choice([x for x, _ in PREFIXES]))
        r = _grid_judge(c, assoc, sols, par_syms, entries)
        counts[r["status"]] += 1
        if r["status"] == "error" and len(errors) < 4:
            errors.append(r["detail"])
        if r["status"] == "fail" and len(failures) < 3:
            failures.append({
                "name": f"{PID}/{c.qual}/result-is-{c.op}-of-the-law-solution/exact-grid",
                "detail": f"{r['detail']} at {entries}",
                "signature": c.qual,
                "replay": {"reproduced": True, "inputs": {k: str(v) for k, v in entries.items()},
                           "script": replay_script(c, law_attr, entries, fn="grid_replay")},
            })
    return {"accepted": counts["ok"] + counts["fail"], "refused": counts["refused"], "failures": failures, "errors": errors,
            "tries": sum(counts.values()), "combinations": total, "skipped": counts["skipped"], "failed": counts["fail"]}


def grid_replay(modname: str, fname: str, law_attr: str, args: dict, op: str = ""):
    """Executed by `check --replay` for an exact-grid failure: same judge, this one point, on the real code."""
    mod = importlib.import_module(modname)
    c = build_contract(mod, fname)
    assert not c.reason, f"contract cannot be formed any more: {c.reason}"
    _n, eq, assoc = [(n, e, a) for n, e, a in c.laws if n == law_attr][0]
    sols, par_syms = _grid_prepare(c, eq, assoc)
    print("law:", eq)
    print("calling", f"{modname}.{fname}", args)
    r = _grid_judge(c, assoc, sols, par_syms, args)
    print(r["status"], r["detail"])
    assert r["status"] != "fail", f"{short(modname)}.{fname}: {r['detail']} at {args}"


def _float64(expr):
    """Evaluate with plain machine floats (cmath), the way a float64 implementation of the formula would."""
    import cmath
    fn = {sp.exp: cmath.exp, sp.log: cmath.log, sp.sin: cmath.sin, sp.cos: cmath.cos, sp.tan: cmath.tan,
          sp.sinh: cmath.sinh, sp.cosh: cmath.cosh, sp.tanh: cmath.tanh, sp.asin: cmath.asin, sp.acos: cmath.acos,
          sp.atan: cmath.atan, sp.asinh: cmath.asinh, sp.acosh: cmath.acosh, sp.atanh: cmath.atanh, sp.Abs: abs}

    def ev(e):
        if e.is_Number:
            return complex(float(e)) if e.is_real else complex(e)
        if e is sp.pi:
            return complex(math.pi)
        if e is sp.E:
            return complex(math.e)
        if e is sp.I:
            return 1j
        if e.is_Add:
            t = 0j
            for a in e.args:
                t += ev(a)
            return t
        if e.is_Mul:
            t = 1 + 0j
            for a in e.args:
                t *= ev(a)
            return t
        if e.is_Pow:
            return ev(e.base) ** ev(e.exp)
        f = fn.get(e.func)
        if f is not None and len(e.args) == 1:
            return complex(f(ev(e.args[0])))
        return complex(sp.N(e, 17))

    return ev(numeric_constants(sp.sympify(expr)))


def _ill_conditioned(eq, pairs, n_by_base, nres: int = 1) -> bool:
    """A point where the law's own sides move by more than the tolerance when the ARGUMENTS move by 1e-13 relative:
    float64 arguments cannot carry the information there (e.g. a phase of 1e30 rad); such points are skipped.
    nres: number of trailing pairs that are result entries (matrix-shaped results); a matrix law is ill-conditioned when
    one of its entries is."""
    try:
        e0 = instantiate_law(eq, n_by_base or {})
        all_sides = law_sides(e0)
    except Exception:  # noqa: BLE001
        return False
    if len(all_sides) > 1 or nres > 1:
        return any(_ill_conditioned_sides(l_, r_, pairs, nres) for l_, r_ in all_sides)
    return _ill_conditioned_sides(e0.lhs, e0.rhs, pairs, 1)


class _Sides:
    def __init__(self, lhs, rhs):
        self.lhs, self.rhs = lhs, rhs


def _ill_conditioned_sides(elhs, erhs, pairs, nres: int = 1) -> bool:
    try:
        e = _Sides(elhs, erhs)

        def sides(pp):
            return _nval(_subst(e.lhs, pp)), _nval(_subst(e.rhs, pp))

        def bump(v):
            if isinstance(v, list):
                return [bump(x) for x in v]
            return sp.sympify(v) * (1 + sp.Rational(1, 10**13))

        l0, r0 = sides(pairs)
        pp = [(a, bump(v)) for a, v in pairs[:-nres]] + list(pairs[-nres:])
        l1, r1 = sides(pp)
        scale = max(abs(l0), abs(r0), 1e-300)
        if max(abs(l1 - l0), abs(r1 - r0)) > REL_TOL * scale / 10:
            return True
        # the published formula itself, evaluated in float64, is off by more than the tolerance here (catastrophic
        # cancellation such as exp(x) - 1 at x ~ 1e-13): "numerical precision" at this point is coarser than the tolerance
        p64 = [(a, [sp.Float(float(x)) for x in v] if isinstance(v, list) else
                (sp.Float(float(v)) if sp.sympify(v).is_real else sp.sympify(complex(v)))) for a, v in pairs]
        try:
            lf, rf = _float64(_subst(e.lhs, p64)), _float64(_subst(e.rhs, p64))
        except (ZeroDivisionError, OverflowError, ValueError):
            # float64 cannot even evaluate the published formula here (1 - (1 - k**2)**(1/4) is exactly 0 for k ~ 1e-48, a
            # division by it follows): the same cancellation, in its extreme form (seed sweep, VERIF_SEED=6, coplanar line)
            return True
        return max(abs(lf - l0), abs(rf - r0)) > REL_TOL * scale / 10
    except Exception:  # noqa: BLE001
        return False


# ===================================================================================== module worker
def process_module(task) -> dict:
    """task = (modname, path, tier, seed, demoted{qual: {class, reason}}, generate: bool)"""
    modname, path, tier, sd, demoted, generate = task
    if modname == HOOK_TASK:
        return process_hook()
    t0 = time.time()
    out = {"modname": modname, "path": str(path), "functions": [], "import_error": "", "secs": 0.0}
    try:
        mod = importlib.import_module(modname)
    except Exception as e:  # noqa: BLE001
        out["import_error"] = f"{type(e).__name__}: {e}"
        out["secs"] = time.time() - t0
        return out
    names = [n for n, f in vars(mod).items()
             if n.startswith("calculate_") and inspect.isfunction(f) and f.__module__ == modname]
    npoints = 20 if tier == "thorough" else 3
    audit_points = 5 if tier == "thorough" else 1
    for fname in names:
        t1 = time.time()
        qual = f"{short(modname)}.{fname}"
        rng = random.Random(f"{sd}|{qual}")
        fr = FnResult(qual=qual, file=str(path))
        try:
            _process_function(mod, fname, fr, rng, npoints, demoted, generate, audit_points,
                              wide_rounds=3 if tier == "thorough" else 1)
        except Exception as e:  # noqa: BLE001
            fr.klass = "fault"
            fr.reason = f"{type(e).__name__}: {e} :: {traceback.format_exc()[-700:]}"
        fr.secs = time.time() - t1
        out["functions"].append(fr)
    # ---- vector-form modules (law published as Python functions on Vectors): same worker, module already imported
    from . import c02_vector
    vec_quals = [fr.qual for fr in out["functions"] if fr.klass == "out_of_reach" and fr.reason.startswith(c02_vector.NO_EQUATION)]
    if vec_quals:
        try:
            out["vector"] = c02_vector.process(mod, path, tier, sd, vec_quals)
        except Exception as e:  # noqa: BLE001
            out["vector"] = {"fault": f"{short(modname)}: vector-form harness crashed: {type(e).__name__}: {e} :: "
                                      f"{traceback.format_exc()[-700:]}"}
    out["secs"] = time.time() - t0
    return out


GRID_CAP = int(os.environ.get("VERIF_C02_GRID_CAP", "600"))


def _process_function(mod, fname, fr: FnResult, rng, npoints, demoted, generate, audit_points=0, wide_rounds=1):
    c = _process_function_main(mod, fname, fr, rng, npoints, demoted, generate, audit_points)
    if c is None or not c.laws:
        return
    law_attr, eq, assoc = c.laws[0]
    # ---- documented abs()/ceiling(): exact integer grid against op(solution of the law)
    if c.op:
        try:
            g = grid_function(c, law_attr, eq, assoc, rng, GRID_CAP)
        except Exception as e:  # noqa: BLE001
            g = {"accepted": 0, "refused": 0, "failures": [], "errors": [f"{type(e).__name__}: {e}"], "tries": 0}
        fr.extra.append((f"{fr.qual} [exact grid, documented {c.op}()]",
                         f"{g['accepted']} judged of {g['tries']} calls ({g.get('combinations', '?')} combinations of "
                         f"{GRID_VALUES} per argument, cap {GRID_CAP}; {g['refused']} refused, {g.get('skipped', 0)} without a real "
                         f"solution); result == {c.op}(solution of the law computed with SymPy on the plain numbers, 60 digits, "
                         f"integers recognised exactly); errors: {g['errors'][:2]}",
                         g["accepted"], not g["failures"] and g["accepted"] > 0, g["failures"]))
        if g["accepted"] == 0:
            fr.extra[-1][4].append({"name": f"{PID}/{c.qual}/result-is-{c.op}-of-the-law-solution/exact-grid",
                                    "detail": f"no grid point could be judged: {g['errors'][:2]}", "signature": c.qual,
                                    "replay": {"reproduced": False, "script": None}})
    # ---- functions that depend on comparisons of quantities: magnitudes across femto .. tera, law on plain SI numbers
    why = comparison_dependent(c, eq)
    if why and fr.klass != "refuted":  # a function already refuted symbolically has its finding there
        n = 2 * len(WIDE_SCALES) * wide_rounds
        try:
            w = bounded_function(c, law_attr, eq, assoc, rng, n, wide=True)
        except Exception as e:  # noqa: BLE001
            w = {"accepted": 0, "refused": 0, "failures": [], "errors": [f"{type(e).__name__}: {e}"], "tries": 0}
        for f in w["failures"]:
            f["name"] = f["name"].replace("/bounded", "/wide-magnitudes")
        fr.extra.append((f"{fr.qual} [comparison-dependent: {why}]",
                         f"decorated function at {w['tries']} points walking the prefixes femto..tera (arguments within a "
                         f"factor 5 of each scale, ascending and descending order), {w['accepted']} accepted, {w['refused']} "
                         f"refused, {w.get('ill_conditioned', 0)} ill-conditioned; law judged on plain SI numbers, residual <= "
                         f"{REL_TOL:g} relative", w["accepted"], not w["failures"], w["failures"]))


def _process_function_main(mod, fname, fr: FnResult, rng, npoints, demoted, generate, audit_points=0):
    c = build_contract(mod, fname)
    if c.reason:
        fr.klass, fr.reason = "out_of_reach", c.reason
        return None
    entry = demoted.get(fr.qual)
    hs = set(c.laws[0][2]["hows"].values()) | {c.laws[0][2]["result_how"]}
    fr.assoc = "decorator" if hs == {"decorator"} else "+".join(sorted(hs))
    for _n, _e, a_ in c.laws:
        _merge(fr.assoc_notes, a_.get("notes", []))
        _merge(fr.assoc_rules, a_.get("rules", []))
    sym_done = False
    reasons = []
    for law_attr, eq, assoc in c.laws:
        _fill_targets(c, assoc)
        rule = syntactic_demotion(c, eq)
        listed = entry is not None and entry.get("class") in ("bounded", "out_of_reach")
        if rule:
            reasons.append(rule)
        elif listed and not generate:
            reasons.append(entry.get("reason", "listed in c02_demoted.json"))
        else:
            klass, obs, reason, rebound, axioms = symbolic_function(c, law_attr, eq, assoc, rng)
            fr.rebound = sorted(set(fr.rebound) | set(rebound))
            fr.axioms = sorted(set(fr.axioms) | set(axioms))
            if klass in ("proved", "refuted", "fault"):
                fr.obs += obs
                sym_done = True
                continue
            if klass == "undecided":
                und = [o for o in obs if o.verdict == UNKNOWN]
                reasons.append("solver undecided within the time limit: " + "; ".join(
                    f"{o.name.rsplit('/', 1)[-1]} {o.backend} {o.detail[:80]}" for o in und[:2]))
                fr.notes.append("undecided")
                fr.obs += [o for o in obs if o.verdict != UNKNOWN] if generate else obs
                if not generate:
                    sym_done = True
                    continue
            else:
                reasons.append(reason)
                if not generate:
                    # not listed, no syntactic rule: a function that left the reach of generic execution unannounced
                    fr.obs.append(Ob(f"{PID}/{c.qual}/law-holds", UNKNOWN, "symx", 0.0,
                                     f"generic execution out of reach and function not in c02_demoted.json: {reason}",
                                     c.qual))
        # ---- bounded stand-in for this equation
        # A function that calls a numeric root finder with a fixed initial guess has the neighbourhood of physical values as
        # its domain: at seeded random magnitudes (a temperature of 3 microkelvin, an ionisation energy of 0.1 J) `nsolve`
        # returns a non-root for some points on the unchanged tree (seed sweep, VERIF_SEED=1000; observation, DESIGN 10.10b).
        # Such functions are sampled around the arguments of their module's own test only.
        try:
            solver = "nsolve" in inspect.getsource(c.undecorated)
        except Exception:  # noqa: BLE001
            solver = False
        try:
            if solver:
                anch0 = anchors_for(mod, c)
                b = (bounded_function(c, law_attr, eq, assoc, rng, npoints, anchors=anch0) if anch0 else
                     {"accepted": 0, "refused": 0, "failures": [], "errors": ["numeric root finder and no anchor in the module's test"], "tries": 0})
                if anch0:
                    b["anchored"] = len(anch0)
            else:
                b = bounded_function(c, law_attr, eq, assoc, rng, npoints)
        except Exception as e:  # noqa: BLE001
            b = {"accepted": 0, "refused": 0, "failures": [], "errors": [f"{type(e).__name__}: {e}"], "tries": 0}
        if b["accepted"] == 0 and not b["failures"]:
            try:
                anch = anchors_for(mod, c)
                if anch:
                    b2 = bounded_function(c, law_attr, eq, assoc, rng, npoints, anchors=anch)
                    if b2["accepted"] > 0 or b2["failures"]:
                        b2["anchored"] = len(anch)
                        b2["errors"] = b["errors"][:1] + b2["errors"]
                        b = b2
            except Exception as e:  # noqa: BLE001
                b["errors"].append(f"anchored sampling failed: {type(e).__name__}: {str(e)[:120]}")
        if fr.bounded is None:
            fr.bounded = b
            fr.bounded["law"] = law_attr
        else:
            fr.bounded["accepted"] += b["accepted"]
            fr.bounded["failures"] += b["failures"]
            fr.bounded["errors"] += b["errors"]
            if b.get("anchored"):
                fr.bounded["anchored"] = b["anchored"]
    if fr.bounded is not None:
        fr.reason = " || ".join(dict.fromkeys(reasons))
        if fr.bounded["accepted"] == 0:
            fr.klass = "out_of_reach"
            fr.reason += (" ; bounded stand-in found no evaluable accepted point"
                          f" ({fr.bounded.get('ill_conditioned', 0)} ill-conditioned points skipped, "
                          f"{fr.bounded.get('refused', 0)} refused): " + "; ".join(fr.bounded["errors"][:2]))
        else:
            fr.klass = "bounded"
        if sym_done and any(o.verdict == PROVED for o in fr.obs):
            fr.notes.append("partly proved (some equations / shapes), partly bounded")
    else:
        vs = {o.verdict for o in fr.obs}
        if vs == {PROVED} and audit_points > 0:
            law_attr, eq, assoc = c.laws[0]
            try:
                fr.audit = bounded_function(c, law_attr, eq, assoc, rng, audit_points)
            except Exception as e:  # noqa: BLE001
                fr.audit = {"accepted": 0, "refused": 0, "failures": [], "errors": [f"{type(e).__name__}: {e}"], "tries": 0}
            for f in fr.audit["failures"]:
                f["name"] = f["name"].replace("/bounded", "/audit-of-proved")
        fr.klass = "refuted" if REFUTED in vs else "undecided" if UNKNOWN in vs else "fault" if FAULT in vs else "proved"
        _seq_reclass(c, fr)
    return c


def _seq_reclass(c, fr):
    if True:
        if any(_is_seq_param(p) for p in c.params) and fr.klass in ("proved", "refuted"):
            # for-all-values proofs, but only at sequence lengths 1..3: a bounded family, not counted as proved
            fails = [{"name": o.name, "detail": o.detail, "signature": o.signature, "replay": o.replay}
                     for o in fr.obs if o.verdict == REFUTED]
            fr.bounded = {"accepted": len(fr.obs), "refused": 0, "failures": fails, "errors": [], "tries": len(fr.obs),
                          "kind": "lengths"}
            fr.reason = (f"sequence parameter: law residual discharged for ALL values at lengths {list(SEQ_LENGTHS)} "
                         f"({', '.join(sorted({o.backend for o in fr.obs}))}); other lengths not covered")
            fr.klass = "bounded_length"
            fr.obs = []


# ===================================================================================== the core comparison hook
HOOK_FILE = "core/symbols/quantities.py"
HOOK_UNIT = "C02/core.symbols.quantities"
HOOK_TASK = "__core_comparison_hook__"


def hook_contract():
    """Contract, proved from the REAL source (pyvc over the AST of core/symbols/quantities.py):
         scale_factor(q)      == the scale factor of q   (q a quantity)        and == float(x) for a plain number x
         _eval_is_ge(qa, qb) <=> a >= b                  for ALL real scale factors a, b
    returns (obs, note).  A construct the executor does not model (e.g. math.isclose) raises GenError: the function has
    left the modelled subset, reported in `note`; the executed grid below is then the only judge."""
    from .pyvc import Obj, TypeRef, GenError, verify_function, discharge
    from .contracts import frontend as FE
    a, b = z3.Reals("a b")

    def isinst(ex, ctx, v, clsname):
        if clsname in ("SymQuantity", "Quantity"):
            return isinstance(v, Obj) and v.cls == "Quantity"
        raise GenError(f"isinstance(_, {clsname})")

    def mk(contracts=None):
        ex = FE.make_exec(HOOK_FILE, HOOK_UNIT, globals_extra={"SymQuantity": TypeRef("SymQuantity")},
                          contracts=contracts or {}, isinstance_model=isinst)
        return ex

    obs, notes = [], []
    try:
        for kind in ("quantity", "number"):
            ex = mk()
            arg = Obj("Quantity", {"scale_factor": a}) if kind == "quantity" else a

            def setup(ex, ctx, arg=arg):
                return [arg], {}, None

            def post(ex, ctx, out, info):
                if out[0] != "return":
                    yield f"never-raises-on-a-{kind}", z3.BoolVal(False)
                else:
                    yield f"returns-the-scale-factor-of-a-{kind}", ex.znum(out[1]) == a

            verify_function(ex, "scale_factor", setup, post)
            obs += discharge(ex, HOOK_UNIT)

        def sf_contract(ex, ctx, args, kw):
            q = args[0]
            if not (isinstance(q, Obj) and q.cls == "Quantity"):
                raise GenError("scale_factor contract: argument is not a quantity")
            return [(ctx, q.fields["scale_factor"])]

        ex = mk({"scale_factor": sf_contract})
        ex.globals["scale_factor"] = ("__contract__", "scale_factor")
        qa, qb = Obj("Quantity", {"scale_factor": a}), Obj("Quantity", {"scale_factor": b})

        def setup2(ex, ctx):
            return [qa, qb], {}, None

        def post2(ex, ctx, out, info):
            if out[0] != "return":
                yield "never-raises", z3.BoolVal(False)
            else:
                yield "result<=>lhs-scale-factor>=rhs-scale-factor", ex.zbool(ex.truth(out[1])) == (a >= b)

        def conc(m, name):
            def val(t):
                v = m.eval(t, model_completion=True)
                return float(Fraction(str(v.as_fraction()))) if z3.is_rational_value(v) else float(str(v.approx(17)).rstrip("?"))
            return _hook_try(val(a), val(b))

        verify_function(ex, "_eval_is_ge", setup2, post2, concretize=conc)
        obs += discharge(ex, HOOK_UNIT)
    except GenError as e:
        notes.append(f"{type(e).__name__}: {e}")
    except Exception as e:  # noqa: BLE001
        notes.append(f"front end failed: {type(e).__name__}: {e}")
    for o in obs:
        o.signature = o.signature or "core.symbols.quantities._eval_is_ge"
    return obs, "; ".join(notes)


HOOK_SCRIPT = """# replay: the core comparison hook of symplyphysics on two real Quantities versus the float comparison
import os, sys
sys.path.insert(0, os.environ.get('VERIF_REPO', '/repo'))
from sympy import Piecewise
from symplyphysics import Quantity, units
a, b = {a!r}, {b!r}
qa, qb = Quantity(a * units.{unit}), Quantity(b * units.{unit})
sa, sb = float(qa.scale_factor), float(qb.scale_factor)
got = {{'>=': bool(qa >= qb), '<': bool(qa < qb), '<=': bool(qa <= qb), '>': bool(qa > qb),
       'Piecewise(<=)': int(Piecewise((1, qa <= qb), (0, True))), 'Piecewise(>)': int(Piecewise((1, qa > qb), (0, True)))}}
want = {{'>=': sa >= sb, '<': sa < sb, '<=': sa <= sb, '>': sa > sb, 'Piecewise(<=)': int(sa <= sb), 'Piecewise(>)': int(sa > sb)}}
print('scale factors', sa, sb)
print('hook  ', got)
print('floats', want)
assert got == want, ('quantity comparison disagrees with the comparison of the scale factors', sa, sb, got, want)
"""


def _hook_compare(a: float, b: float, unit: str = "meter"):
    """(got, want, sa, sb) on the real code."""
    from symplyphysics import Quantity, units
    u = getattr(units, unit)
    qa, qb = Quantity(a * u), Quantity(b * u)
    sa, sb = float(qa.scale_factor), float(qb.scale_factor)
    got = (bool(qa >= qb), bool(qa < qb), bool(qa <= qb), bool(qa > qb),
           int(sp.Piecewise((1, qa <= qb), (0, True))), int(sp.Piecewise((1, qa > qb), (0, True))))
    want = (sa >= sb, sa < sb, sa <= sb, sa > sb, int(sa <= sb), int(sa > sb))
    return got, want, sa, sb


def _hook_try(a: float, b: float, unit: str = "meter") -> dict:
    try:
        got, want, sa, sb = _hook_compare(a, b, unit)
    except Exception as e:  # noqa: BLE001
        return {"reproduced": False, "script": None, "message": f"{type(e).__name__}: {e}"}
    return {"reproduced": got != want, "script": HOOK_SCRIPT.format(a=a, b=b, unit=unit), "inputs": {"a": a, "b": b},
            "message": f"got {got} want {want}"}


def hook_grid_pairs():
    """Scale-factor pairs: magnitudes 1e-15 .. 1e15, equal pairs, pairs differing by 1e-13 / 1e-12 / 1e-9 relative and
    absolute, neighbouring magnitudes (300 fm vs 0.1 pm), zero, all sign combinations."""
    mags = [10.0 ** k for k in range(-15, 16, 3)] + [3e-13, 1e-13, 2.5e-7, 7.0]
    pairs = []
    for m in mags:
        others = [m, m * 3, m / 3, m * 1000, m / 1000]
        for d in (1e-13, 1e-12, 1e-9):
            others += [m * (1 + d), m * (1 - d), m + d, m - d]
        for o in others:
            for sa_ in (1, -1):
                for sb_ in (1, -1):
                    pairs.append((sa_ * m, sb_ * o))
        pairs += [(m, 0.0), (0.0, m), (-m, 0.0), (0.0, -m)]
    pairs.append((0.0, 0.0))
    return list(dict.fromkeys(pairs))


def hook_grid() -> dict:
    """Executed check, always run: the real hook (through >=, <, <=, >, and a Piecewise on them) against the floats."""
    pairs = hook_grid_pairs()
    failures, errors, n = [], [], 0
    for unit in ("meter", "second"):
        for a, b in pairs if unit == "meter" else pairs[::7]:
            try:
                got, want, sa, sb = _hook_compare(a, b, unit)
            except Exception as e:  # noqa: BLE001
                if len(errors) < 3:
                    errors.append(f"{type(e).__name__}: {str(e)[:100]} at {(a, b)}")
                continue
            n += 1
            if got != want and len(failures) < 3:
                failures.append({
                    "name": f"{HOOK_UNIT}/_eval_is_ge/agrees-with-the-comparison-of-scale-factors/executed-grid",
                    "detail": f"a={sa!r} b={sb!r}: (>=, <, <=, >, Piecewise<=, Piecewise>) = {got}, floats give {want}",
                    "signature": "core.symbols.quantities._eval_is_ge",
                    "replay": {"reproduced": True, "inputs": {"a": a, "b": b},
                               "script": HOOK_SCRIPT.format(a=a, b=b, unit=unit)},
                })
    return {"count": n, "failures": failures, "errors": errors, "pairs": len(pairs)}


def process_hook() -> dict:
    t0 = time.time()
    obs, note = hook_contract()
    grid = hook_grid()
    return {"modname": HOOK_TASK, "path": "", "functions": [], "import_error": "", "hook": {"obs": obs, "note": note, "grid": grid},
            "secs": time.time() - t0}


# ===================================================================================== crash-isolating pool
def _pool_worker(inq, outq, mem_gb):
    import resource
    from .core import die_with_parent
    die_with_parent()
    try:
        lim = int(mem_gb * (1 << 30))
        resource.setrlimit(resource.RLIMIT_AS, (lim, lim))
    except Exception:  # noqa: BLE001
        pass
    while True:
        item = inq.get()
        if item is None:
            return
        idx, task = item
        outq.put(("start", idx, os.getpid()))
        try:
            res = process_module(task)
        except BaseException as e:  # noqa: BLE001
            res = {"modname": task[0], "path": task[1], "functions": [], "import_error": "",
                   "crash": f"{type(e).__name__}: {e}", "secs": 0.0}
        outq.put(("done", idx, res))


def run_pool(tasks, jobs: int, progress_file: Optional[str] = None):
    """Process tasks in `jobs` worker processes; a worker that dies loses only the module it was on (reported)."""
    import multiprocessing as mp
    import queue as pyqueue
    ctx = mp.get_context("fork")
    inq, outq = ctx.Queue(), ctx.Queue()
    for i, t in enumerate(tasks):
        inq.put((i, t))
    workers = {}

    def spawn():
        p = ctx.Process(target=_pool_worker, args=(inq, outq, WORKER_MEM_GB), daemon=True)
        p.start()
        workers[p.pid] = p

    for _ in range(min(jobs, len(tasks))):
        spawn()
    results = {}
    inflight = {}  # pid -> idx
    log = open(progress_file, "w") if progress_file else None
    while len(results) < len(tasks):
        try:
            kind, idx, payload = outq.get(timeout=2.0)
            if kind == "start":
                inflight[payload] = idx
                if log:
                    log.write(f"start {tasks[idx][0]} pid={payload}\n"); log.flush()
            else:
                results[idx] = payload
                for pid, i in list(inflight.items()):
                    if i == idx:
                        del inflight[pid]
                if log:
                    log.write(f"done {tasks[idx][0]} {payload.get('secs', 0):.1f}s\n"); log.flush()
            continue
        except pyqueue.Empty:
            pass
        for pid, p in list(workers.items()):
            if not p.is_alive():
                del workers[pid]
                idx = inflight.pop(pid, None)
                if idx is not None and idx not in results:
                    results[idx] = {"modname": tasks[idx][0], "path": tasks[idx][1], "functions": [], "import_error": "",
                                    "crash": f"worker process died (exit code {p.exitcode}) while on this module",
                                    "secs": 0.0}
                if len(results) < len(tasks):
                    spawn()
    for _ in workers:
        inq.put(None)
    for p in workers.values():
        p.join(timeout=5)
        if p.is_alive():
            p.terminate()
    if log:
        log.close()
    return [results[i] for i in range(len(tasks))]
