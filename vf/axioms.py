"""Axiom kit for inverse trigonometric atoms (ASSUMED facts of real analysis, instantiated on demand, listed in evidence).

A1  atan2 characterisation: for (X, Y) != (0, 0), t = atan2(Y, X) satisfies  -pi < t <= pi,
    sin t = Y / sqrt(X^2+Y^2), cos t = X / sqrt(X^2+Y^2).
A2  injectivity of a |-> (sin a, cos a) on (-pi, pi]: equal sine and cosine and both in (-pi, pi] => equal angles.
A3  0 < a < pi  =>  sin a > 0.
A4  acos characterisation: for -1 <= u <= 1, t = acos(u) satisfies 0 <= t <= pi, cos t = u, sin t >= 0;
    and cos is injective on [0, pi].
A5  atan(u) = atan2(u, 1).
"""
from __future__ import annotations

import itertools

import sympy as sp
import z3

TEXT = [
    "A1 atan2 characterisation on (X,Y)!=(0,0): -pi<t<=pi, sin t*R=Y, cos t*R=X, R=sqrt(X^2+Y^2)",
    "A2 injectivity of angle -> (sin, cos) on (-pi, pi], instantiated for (inverse-trig atom, candidate angle) pairs",
    "A3 0<a<pi => sin a > 0, instantiated for the polar angles of the domain",
    "A4 acos characterisation on [-1,1]: 0<=t<=pi, cos t=u, sin t>=0; cos injective on [0,pi]",
]


def kit(candidates=(), polar=()):
    """returns an `axioms(tr)` callback instantiating A1..A4 for every atan2/acos atom present in the translator,
    with `candidates` the angles they may be matched against and `polar` angles known to lie in (0, pi)."""

    def ax(tr):
        facts = []
        pi = tr.pi()
        done = set()
        for _ in range(6):
            todo = [(k, v) for k, v in list(tr.atoms.items()) if isinstance(k, (sp.atan2, sp.acos, sp.atan)) and k not in done]
            if not todo:
                break
            for key, var in todo:
                done.add(key)
                i = len(done)
                S, C = z3.Real(f"sin_inv{i}"), z3.Real(f"cos_inv{i}")
                facts.append(S * S + C * C == 1)
                if isinstance(key, sp.atan2) or isinstance(key, sp.atan):
                    if isinstance(key, sp.atan2):
                        Yv, Xv = tr.tr(key.args[0]), tr.tr(key.args[1])
                    else:
                        Yv, Xv = tr.tr(key.args[0]), z3.RealVal(1)
                    R = z3.Real(f"hyp_inv{i}")
                    facts += [R >= 0, R * R == Xv * Xv + Yv * Yv,
                              z3.Implies(R > 0, z3.And(S * R == Yv, C * R == Xv, var > -pi, var <= pi))]
                    guard = R > 0
                else:
                    u = tr.tr(key.args[0])
                    facts.append(z3.Implies(z3.And(u >= -1, u <= 1), z3.And(var >= 0, var <= pi, C == u, S >= 0)))
                    guard = z3.And(u >= -1, u <= 1)
                for cand in candidates:
                    cv, cs, cc = tr.tr(cand), tr.tr(sp.sin(cand)), tr.tr(sp.cos(cand))
                    facts.append(z3.Implies(z3.And(guard, S == cs, C == cc, cv > -pi, cv <= pi), var == cv))
        # functional congruence between inverse-trig atoms of the same kind (equal arguments => equal values)
        inv = [(k, v) for k, v in tr.atoms.items() if isinstance(k, (sp.atan2, sp.acos, sp.atan))]
        for (k1, v1), (k2, v2) in itertools.combinations(inv, 2):
            if type(k1) is type(k2):
                facts.append(z3.Implies(z3.And([tr.tr(a) == tr.tr(b) for a, b in zip(k1.args, k2.args)]), v1 == v2))
        for a in polar:
            av = tr.tr(a)
            facts.append(z3.Implies(z3.And(av > 0, av < pi), tr.tr(sp.sin(a)) > 0))
        return facts

    return ax
