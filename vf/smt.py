"""Discharge layer: z3 (Python API) first, cvc5 (Python API, SMT-LIB2 text) on unknown.

prove(name, hyps, goal): one validity query  hyps => goal, posed as sat(hyps and not goal).
  unsat  -> proved;   sat -> refuted (model attached);   unknown on both -> unknown.
A cover query (hyps alone must be sat) guards against vacuous hypotheses.
"""
from __future__ import annotations

import os
import time
from typing import Iterable, Optional

import z3

from .core import Ob, PROVED, REFUTED, UNKNOWN, FAULT

DEFAULT_TIMEOUT_S = float(os.environ.get("VERIF_SMT_TIMEOUT", "20"))
CROSS_CHECK = os.environ.get("VERIF_TIER", "quick") == "thorough"


def _cvc5_check(smt2: str, timeout_s: float) -> str:
    import cvc5
    slv = cvc5.Solver()
    slv.setOption("tlimit-per", str(int(timeout_s * 1000)))
    slv.setOption("nl-ext-tplanes", "true")
    slv.setOption("strings-exp", "true")
    slv.setLogic("ALL")
    p = cvc5.InputParser(slv)
    p.setStringInput(cvc5.InputLanguage.SMT_LIB_2_6, smt2, "q")
    sm = p.getSymbolManager()
    out = "unknown"
    while True:
        c = p.nextCommand()
        if c.isNull():
            break
        r = str(c.invoke(slv, sm)).strip()
        if r in ("sat", "unsat", "unknown"):
            out = r
    return out


def _cvc5_check_guarded(smt2: str, timeout_s: float) -> str:
    """_cvc5_check in a forked child with a hard deadline: cvc5's own `tlimit-per` is not honoured inside some non-linear
    queries (observed: > 13 CPU minutes on one C02 query with a 90 s limit).  A child that is still running
    `timeout_s + 5` seconds after the fork is killed and the query counts as unknown (never a verdict)."""
    import select
    import signal
    rfd, wfd = os.pipe()
    pid = os.fork()
    if pid == 0:  # child
        code = 0
        try:
            os.close(rfd)
            try:
                out = _cvc5_check(smt2, timeout_s)
            except BaseException:  # noqa: BLE001
                out = "unknown"
            os.write(wfd, out.encode())
        except BaseException:  # noqa: BLE001
            code = 1
        finally:
            os._exit(code)
    os.close(wfd)
    out = "unknown"
    try:
        ready, _, _ = select.select([rfd], [], [], timeout_s + 5.0)
        if ready:
            data = os.read(rfd, 64).decode(errors="replace").strip()
            if data in ("sat", "unsat", "unknown"):
                out = data
        else:
            try:
                os.kill(pid, signal.SIGKILL)
            except ProcessLookupError:
                pass
    finally:
        os.close(rfd)
        try:
            os.waitpid(pid, 0)
        except ChildProcessError:
            pass
    return out


def check_sat(constraints: Iterable, timeout_s: float = DEFAULT_TIMEOUT_S, use_cvc5: bool = True):
    """returns (result in {'sat','unsat','unknown'}, backend, ms, model_or_None)"""
    s = z3.Solver()
    s.set("timeout", int(timeout_s * 1000))
    cs = list(constraints)
    for c in cs:
        s.add(c)
    t0 = time.time()
    r = s.check()
    ms = (time.time() - t0) * 1000
    if r == z3.unsat:
        return "unsat", "z3", ms, None
    if r == z3.sat:
        return "sat", "z3", ms, s.model()
    if use_cvc5:
        t1 = time.time()
        try:
            r2 = _cvc5_check_guarded(s.to_smt2(), timeout_s)
        except Exception as e:  # parser/feature gaps are "unknown", never a verdict
            r2 = "unknown"
        ms2 = (time.time() - t1) * 1000
        if r2 in ("sat", "unsat"):
            return r2, "cvc5", ms + ms2, None
        return "unknown", "z3+cvc5", ms + ms2, None
    return "unknown", "z3", ms, None


_COVER_CACHE: dict = {}


def model_str(m, limit=1200) -> str:
    if m is None:
        return ""
    try:
        items = sorted((str(d.name()), str(m[d])) for d in m.decls())
    except Exception:
        return str(m)[:limit]
    s = ", ".join(f"{k}={v}" for k, v in items).replace("\n", " ")
    return s[:limit]


def prove(name: str, hyps: Iterable, goal, *, timeout_s: float = DEFAULT_TIMEOUT_S, cover: bool = True,
          signature: str = "") -> tuple[Ob, Optional[z3.ModelRef]]:
    hyps = list(hyps)
    if cover:
        # vacuity guard: the hypotheses alone must be satisfiable.  Obligations of one path share their hypotheses: cached.
        key = tuple(sorted(h.get_id() for h in hyps if z3.is_expr(h)))
        if key not in _COVER_CACHE:
            _COVER_CACHE[key] = check_sat(hyps, timeout_s)[:3]
        r, be, ms = _COVER_CACHE[key]
        if r == "unsat":
            return Ob(name, FAULT, be, ms, "vacuous: hypotheses unsatisfiable", signature), None
    r, be, ms, m = check_sat(hyps + [z3.Not(goal)], timeout_s)
    if r == "unsat":
        if CROSS_CHECK and be == "z3":
            try:
                s = z3.Solver()
                for c in hyps + [z3.Not(goal)]:
                    s.add(c)
                r2 = _cvc5_check_guarded(s.to_smt2(), timeout_s)
                if r2 == "sat":
                    return Ob(name, FAULT, "z3!=cvc5", ms, "solver disagreement: z3 unsat, cvc5 sat", signature), None
                be = "z3+cvc5" if r2 == "unsat" else "z3"
            except Exception:
                pass
        return Ob(name, PROVED, be, ms, "", signature), None
    if r == "sat":
        return Ob(name, REFUTED, be, ms, "countermodel: " + model_str(m), signature), m
    return Ob(name, UNKNOWN, be, ms, "unknown/timeout", signature), None


def is_sat(constraints, timeout_s=DEFAULT_TIMEOUT_S) -> Optional[bool]:
    r, _, _, _ = check_sat(constraints, timeout_s)
    return True if r == "sat" else False if r == "unsat" else None
