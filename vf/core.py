"""Shared layer: obligations, report/evidence writer, known findings, exit codes.

Exit codes (DESIGN.md section 4):
  0  every obligation discharged and every bounded stand-in clean (KNOWN-FINDING lines allowed)
  1  an obligation refuted that known_findings.json does not list  -> VIOLATION line
  2  undecided (solver unknown on both back ends)                   -> never VIOLATION
  3  checker fault (generation error, vacuity, audit disagreement)  -> never VIOLATION
"""
from __future__ import annotations

import hashlib
import json
import os
import sys
import time
import traceback
from dataclasses import dataclass, field, asdict
from pathlib import Path
from typing import Any, Callable, Optional

VERIF = Path(__file__).resolve().parent.parent
REPO = Path(os.environ.get("VERIF_REPO", "/repo"))
PKG = REPO / "symplyphysics"
# evidence of a run against a scratch copy (self-tests, seeded changes: VERIF_REPO != /repo) never overwrites the evidence of /repo
_SCRATCH = str(REPO) != "/repo"
EVIDENCE_DIR = Path(os.environ.get("VERIF_EVIDENCE_DIR") or (Path("/tmp/vfm-evidence") if _SCRATCH else VERIF / "evidence"))
REPLAY_DIR = Path(os.environ.get("VERIF_REPLAY_DIR") or (Path("/tmp/vfm-replays") if _SCRATCH else VERIF / "replays"))
KNOWN_FINDINGS = VERIF / "known_findings.json"

PROVED, REFUTED, UNKNOWN, FAULT = "proved", "refuted", "unknown", "fault"


def seed() -> int:
    try:
        return int(os.environ.get("VERIF_SEED", "0"))
    except ValueError:
        return 0


def sha256_file(path: Path) -> str:
    return hashlib.sha256(Path(path).read_bytes()).hexdigest()


@dataclass
class Ob:
    """One proof obligation and its verdict."""
    name: str
    verdict: str  # proved | refuted | unknown | fault
    backend: str = ""
    ms: float = 0.0
    detail: str = ""  # solver reason / model / message
    signature: str = ""  # input signature used to match known findings
    replay: Optional[dict] = None  # {"reproduced": bool, "script": str, "inputs": ..., ...}

    def to_json(self):
        d = asdict(self)
        d["ms"] = round(self.ms, 2)
        return d


class Report:
    def __init__(self, pid: str, level: str, checker_cmd: str, tier: str):
        self.pid = pid
        self.level = level
        self.tier = tier
        self.checker_cmd = checker_cmd
        self.t0 = time.time()
        self.obs: list[Ob] = []
        self.bounded: list[dict] = []
        self.out_of_reach: list[dict] = []
        self.assumptions: list[str] = []
        self.trusted_base: list[str] = []
        self.functions: dict[str, dict] = {}
        self.extra: dict[str, Any] = {}
        self.faults: list[str] = []
        self.programs = 0  # translation_validation only
        self.explanation = ""

    # ------------------------------------------------------------------ recording
    def add(self, ob: Ob) -> Ob:
        self.obs.append(ob)
        return ob

    def extend(self, obs):
        for o in obs:
            self.add(o if isinstance(o, Ob) else Ob(**o))

    def fault(self, msg: str):
        self.faults.append(msg)

    def add_bounded(self, what: str, bound: str, count: int, clean: bool, failures: Optional[list] = None):
        self.bounded.append({"what": what, "bound": bound, "count": count, "clean": clean,
                             "failures": failures or []})

    def add_out_of_reach(self, what: str, why: str):
        self.out_of_reach.append({"what": what, "why": why})

    def assume(self, *texts: str):
        for t in texts:
            if t not in self.assumptions:
                self.assumptions.append(t)

    def trust(self, *texts: str):
        for t in texts:
            if t not in self.trusted_base:
                self.trusted_base.append(t)

    def function(self, qualname: str, file: Path | str, note: str = ""):
        p = Path(file)
        rel = str(p.relative_to(REPO)) if str(p).startswith(str(REPO)) else str(p)
        self.functions[qualname] = {"file": rel, "sha256": sha256_file(p) if p.exists() else None, "note": note}

    # ------------------------------------------------------------------ finishing
    def finish(self) -> int:
        wall = time.time() - self.t0
        known = load_known_findings()
        violations, known_hits, undecided = [], [], []
        for ob in self.obs:
            if ob.verdict == REFUTED:
                hit = match_known(known, self.pid, ob)
                if hit is not None:
                    known_hits.append((ob, hit))
                else:
                    violations.append(ob)
            elif ob.verdict == UNKNOWN:
                undecided.append(ob)
            elif ob.verdict == FAULT:
                self.faults.append(f"{ob.name}: {ob.detail}")
        bounded_fail = []
        for b in self.bounded:
            for f in b["failures"]:
                ob = Ob(name=f["name"], verdict=REFUTED, backend="bounded", detail=f.get("detail", ""),
                        signature=f.get("signature", ""), replay=f.get("replay"))
                hit = match_known(known, self.pid, ob)
                if hit is not None:
                    known_hits.append((ob, hit))
                else:
                    bounded_fail.append(ob)
        n_obs = len(self.obs)
        if n_obs == 0 and not self.faults:
            self.faults.append("zero obligations generated (vacuity guard)")
        # obligations refuted but listed as known findings are not 'discharged'; they are reported apart
        counted = [o for o in self.obs if not any(o is k for k, _ in known_hits)]
        discharged = sum(1 for o in counted if o.verdict == PROVED)
        by_backend: dict[str, dict] = {}
        for o in self.obs:
            b = by_backend.setdefault(o.backend or "?", {"count": 0, "ms": 0.0})
            b["count"] += 1
            b["ms"] = round(b["ms"] + o.ms, 2)
        samples = [o.to_json() for o in self.obs[:6]]
        # make the sample list show variety: also the slowest two
        for o in sorted(self.obs, key=lambda o: -o.ms)[:2]:
            if o.to_json() not in samples:
                samples.append(o.to_json())
        for s in samples:
            s.pop("replay", None)
            if len(s.get("detail", "")) > 400:
                s["detail"] = s["detail"][:400] + "..."
        cov: dict[str, Any] = {
            "obligations": len(counted),
            "discharged": discharged,
            "checker_cmd": self.checker_cmd,
            "trusted_base": self.trusted_base,
            "samples": samples,
            "functions_under_contract": self.functions,
            "backends": by_backend,
            "solver_time_s": round(sum(o.ms for o in self.obs) / 1000.0, 3),
            "bounded": [{k: v for k, v in b.items() if k != "failures"} | {"failures": len(b["failures"])}
                        for b in self.bounded],
            "out_of_reach": self.out_of_reach,
            "known_findings_hit": [{"obligation": o.name, "finding": h.get("id", "")} for o, h in known_hits],
            "undecided": [o.name for o in undecided],
            "faults": self.faults,
            "obligation_names_sha256": hashlib.sha256("\n".join(sorted(o.name for o in self.obs)).encode()).hexdigest(),
        }
        if self.level == "translation_validation":
            cov["programs"] = self.programs
            cov["disagreements_checked"] = len(violations) + len(known_hits)
        if self.level == "other" or self.explanation:
            cov["explanation"] = self.explanation or "see DESIGN.md"
        cov.update(self.extra)
        ev = {
            "property_id": self.pid,
            "tier": self.tier,
            "seed": seed(),
            "level": self.level,
            "coverage": cov,
            "assumptions": self.assumptions,
            "wall_s": round(wall, 2),
            "violations": len(violations) + len(bounded_fail),
        }
        EVIDENCE_DIR.mkdir(parents=True, exist_ok=True)
        (EVIDENCE_DIR / f"{self.pid}.json").write_text(json.dumps(ev, indent=1, default=str) + "\n")
        # ------------------------------------------------------------ console
        print(f"[{self.pid}] tier={self.tier} obligations={len(counted)} discharged={discharged} "
              f"refuted={len(violations)} known={len(known_hits)} undecided={len(undecided)} "
              f"bounded={len(self.bounded)} faults={len(self.faults)} wall={wall:.1f}s")
        printed = set()
        for o, h in known_hits:
            key = h.get("id") or o.name
            if key in printed:
                continue
            printed.add(key)
            n = sum(1 for _, hh in known_hits if (hh.get("id") or "") == h.get("id")) if h.get("id") else 1
            print(f"KNOWN-FINDING: property={self.pid} {h.get('what', o.name)} [{o.name}{' and %d more paths' % (n - 1) if n > 1 else ''}]")
        code = 0
        if self.faults:
            for f in self.faults[:20]:
                print(f"FAULT: {f}")
            code = 3
        if undecided:
            for o in undecided[:20]:
                print(f"UNDECIDED: {o.name} ({o.backend}) {o.detail[:200]}")
            code = max(code, 2) if code != 3 else 3
        allv = violations + bounded_fail
        if allv:
            REPLAY_DIR.mkdir(parents=True, exist_ok=True)
            for o in allv:
                path = write_replay(self.pid, o)
                tail = "" if (o.replay and o.replay.get("reproduced")) else " no-failing-input-found"
                print(f"  refuted obligation: {o.name} [{o.backend}] {o.detail[:300]}")
                print(f"VIOLATION property={self.pid} replay={path}{tail}")
            code = 1
        sys.stdout.flush()
        return code


def write_replay(pid: str, ob: Ob) -> str:
    REPLAY_DIR.mkdir(parents=True, exist_ok=True)
    h = hashlib.sha256((ob.name + "|" + ob.signature).encode()).hexdigest()[:12]
    path = REPLAY_DIR / f"{pid}-{h}.json"
    body = {
        "property": pid,
        "obligation": ob.name,
        "signature": ob.signature,
        "backend": ob.backend,
        "solver_output": ob.detail,
        "reproduced": bool(ob.replay and ob.replay.get("reproduced")),
        "replay": ob.replay or {},
    }
    path.write_text(json.dumps(body, indent=1, default=str) + "\n")
    return str(path)


def load_known_findings() -> list[dict]:
    if not KNOWN_FINDINGS.exists():
        return []
    data = json.loads(KNOWN_FINDINGS.read_text())
    return [e for e in data.get("entries", []) if e.get("status") == "finding"]


def match_known(known: list[dict], pid: str, ob: Ob) -> Optional[dict]:
    """A finding matches on property + exact obligation name + (if the entry gives one) exact input signature."""
    for e in known:
        if e.get("property") != pid:
            continue
        if "obligation_prefix" in e:
            # one finding may surface on several execution paths of the same clause of the same function (.../pathN)
            if not ob.name.startswith(e["obligation_prefix"]):
                continue
        elif e.get("obligation") != ob.name:
            continue
        if e.get("signature") and e["signature"] != ob.signature:
            continue
        return e
    return None


def run_replay_file(path: str) -> int:
    """`check --replay file`: re-run the recorded script against the real code. exit 1 if the failure reproduces."""
    body = json.loads(Path(path).read_text())
    script = (body.get("replay") or {}).get("script")
    print(f"replay of {body['property']} obligation {body['obligation']}")
    if not script:
        print("no executable replay recorded (no-failing-input-found); solver output follows")
        print(body.get("solver_output", ""))
        return 2
    g: dict[str, Any] = {"__name__": "__replay__"}
    try:
        exec(compile(script, path, "exec"), g)
    except AssertionError as e:
        print("REPRODUCED:", e)
        return 1
    except Exception:
        traceback.print_exc()
        return 3
    print("not reproduced on this tree")
    return 0


def die_with_parent(poll_s: float = 2.0):
    """Worker initializer: a worker whose parent is gone (the check was killed by a timeout) exits instead of running on as
    an orphan.  A daemon thread polls the parent pid; nothing is signalled while the parent lives."""
    import threading
    parent = os.getppid()

    def watch():
        while True:
            time.sleep(poll_s)
            if os.getppid() != parent:
                os._exit(3)

    threading.Thread(target=watch, daemon=True, name="die-with-parent").start()


def try_replay(script: str, timeout_s: float = 120.0) -> dict:
    """Run a replay script against the real code (VERIF_REPO) in a fresh interpreter.
    reproduced = the script raised AssertionError (the contract's postcondition is false on the real outcome)."""
    import subprocess
    env = dict(os.environ)
    env["PYTHONPATH"] = str(REPO) + os.pathsep + str(VERIF) + os.pathsep + env.get("PYTHONPATH", "")
    try:
        r = subprocess.run([sys.executable, "-c", script], env=env, capture_output=True, text=True, timeout=timeout_s)
    except subprocess.TimeoutExpired:
        return {"reproduced": False, "script": script, "output": "timeout"}
    out = (r.stdout + r.stderr)[-1500:]
    return {"reproduced": r.returncode != 0 and "AssertionError" in r.stderr, "script": script, "output": out}
